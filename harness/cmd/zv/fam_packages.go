package main

// Family "packages" (C18): package trees are built on a real interpreter,
// members are read / called / assigned from outside through every route and
// alias kind, and from inside through accessor functions defined in the
// package body; every value / error is recorded and validated by TLC against
// spec/Packages.tla (spec/PackagesTrace.tla).
//
// A case is one tree on one fresh interpreter plus a sequence of events:
//   {"op":"out","al":[kind,k],"p":[name..],"rt":route,"v":n,"res":R}
//   {"op":"in","pp":[name..],"m":name,"mode":m,"key":name,"v":n,"style":s,"form":f,"res":R}
//   {"op":"rel","fp":[name..],"c":k,"p":[name..],"rt":route,"fs":s,"res":R}
//     a dot path written outside (the names p[c..] of the member at p, relative to the
//     package at p[:c]) handed as a value to code of the package at fp
// name = [first rune, text]; node = ["val",n] | ["fn",n] | ["hash",[[name,node]..]]
// | ["pkg",[[name,node]..]]; R = ["val",X] | ["err",class] | ["panic",msg].
// The program texts are a function of these fields and of the position of the
// event in the case (helper names are numbered), so they are rendered when the
// case is executed; -replay renders and executes them again and adds "texts"
// and the error message to its output.

import (
	"encoding/json"
	"fmt"
	"os"
	"path/filepath"
	"sort"
	"strings"
	"unicode/utf8"

	zygo "github.com/glycerine/zygomys/v9/zygo"
)

// ---------------------------------------------------------------- trees

type pkNode struct {
	kind string // val fn hash pkg
	n    int
	ents []pkEnt
	id   int // package number (accessor registry)
}

type pkEnt struct {
	name string
	node *pkNode
}

func pkName(s string) any {
	r, _ := utf8.DecodeRuneInString(s)
	return []any{int(r), s}
}

func pkNames(p []string) []any {
	out := make([]any, 0, len(p))
	for _, s := range p {
		out = append(out, pkName(s))
	}
	return out
}

func (n *pkNode) json() any {
	switch n.kind {
	case "val", "fn":
		return []any{n.kind, n.n}
	}
	es := make([]any, 0, len(n.ents))
	for _, e := range n.ents {
		es = append(es, []any{pkName(e.name), e.node.json()})
	}
	return []any{n.kind, es}
}

func (n *pkNode) find(name string) *pkNode {
	for _, e := range n.ents {
		if e.name == name {
			return e.node
		}
	}
	return nil
}

func (n *pkNode) at(p []string) *pkNode {
	cur := n
	for _, s := range p {
		if cur == nil || (cur.kind != "hash" && cur.kind != "pkg") {
			return nil
		}
		cur = cur.find(s)
	}
	return cur
}

func (n *pkNode) index(name string) int {
	for i, e := range n.ents {
		if e.name == name {
			return i
		}
	}
	return -1
}

// allPaths lists the path of every node below n (parents before children).
func (n *pkNode) allPaths() [][]string {
	var out [][]string
	var rec func(cur *pkNode, pre []string)
	rec = func(cur *pkNode, pre []string) {
		for _, e := range cur.ents {
			p := append(append([]string{}, pre...), e.name)
			out = append(out, p)
			if e.node.kind == "hash" || e.node.kind == "pkg" {
				rec(e.node, p)
			}
		}
	}
	rec(n, nil)
	return out
}

type pkBuilder struct {
	nextID  int
	nextVal int
}

func (b *pkBuilder) val() *pkNode { b.nextVal++; return &pkNode{kind: "val", n: b.nextVal} }
func (b *pkBuilder) fn() *pkNode  { b.nextVal++; return &pkNode{kind: "fn", n: b.nextVal} }
func (b *pkBuilder) pkg(ents ...pkEnt) *pkNode {
	n := &pkNode{kind: "pkg", ents: ents, id: b.nextID}
	b.nextID++
	return n
}
func (b *pkBuilder) hash(ents ...pkEnt) *pkNode { return &pkNode{kind: "hash", ents: ents} }

// fullHash: keys of every class, a function value, nested hashes under a
// capitalised and under a lower-case key, three levels deep.
func (b *pkBuilder) fullHash() *pkNode {
	return b.hash(
		pkEnt{"Ka", b.val()}, pkEnt{"ka", b.val()}, pkEnt{"_k", b.val()}, pkEnt{"Kf", b.fn()},
		pkEnt{"Kh", b.hash(pkEnt{"Kb", b.val()}, pkEnt{"kb", b.val()},
			pkEnt{"Kh", b.hash(pkEnt{"Kc", b.val()}, pkEnt{"kc", b.val()})})},
		pkEnt{"kh", b.hash(pkEnt{"Kb", b.val()})},
	)
}

// fullPkg: every member kind under every name class, nested to depth d; the
// same names at every level (shadowing), a level-specific private marker.
func (b *pkBuilder) fullPkg(d, level int) *pkNode {
	// allocate the package number before the children (outer packages first)
	n := b.pkg()
	ents := []pkEnt{
		{"Va", b.val()}, {"va", b.val()}, {"_va", b.val()},
		{"Fu", b.fn()}, {"fu", b.fn()}, {"_fu", b.fn()},
		{"Ha", b.fullHash()}, {"ha", b.fullHash()}, {"_ha", b.fullHash()},
		{fmt.Sprintf("lv%d", level), b.val()},
	}
	if d > 1 {
		ents = append(ents, pkEnt{"Pk", b.fullPkg(d-1, level+1)}, pkEnt{"pk", b.fullPkg(d-1, level+1)},
			pkEnt{"_pk", b.fullPkg(d-1, level+1)})
	}
	n.ents = ents
	return n
}

func (b *pkBuilder) smallPkg() *pkNode {
	return b.pkg(pkEnt{"Va", b.val()}, pkEnt{"va", b.val()}, pkEnt{"Fu", b.fn()},
		pkEnt{"Hb", b.hash(pkEnt{"Ka", b.val()}, pkEnt{"ka", b.val()})},
		pkEnt{"hb", b.hash(pkEnt{"Ka", b.val()})})
}

// mixedTree: packages stored inside hashes inside packages (every hand-off
// between the package walker and the hash walker, at every index).
func (b *pkBuilder) mixedTree() *pkNode {
	root := b.pkg()
	root.ents = []pkEnt{
		{"Ha", b.hash(pkEnt{"Kp", b.smallPkg()}, pkEnt{"kp", b.smallPkg()},
			pkEnt{"Kh", b.hash(pkEnt{"Kp", b.smallPkg()}, pkEnt{"Kh", b.hash(pkEnt{"kp", b.smallPkg()})})})},
		{"ha", b.hash(pkEnt{"Kp", b.smallPkg()})},
		{"_ha", b.hash(pkEnt{"Kp", b.smallPkg()})},
		{"Va", b.val()},
		{"mark", b.val()},
	}
	inner := b.pkg()
	inner.ents = []pkEnt{
		{"Ha", b.hash(pkEnt{"Kp", b.smallPkg()}, pkEnt{"Ka", b.val()})},
		{"Va", b.val()},
	}
	root.ents = append(root.ents, pkEnt{"Pk", inner})
	return root
}

// clashTree: one name used for members and for keys, so that a walk that is
// restarted with the wrong remaining path finds something instead of failing.
func (b *pkBuilder) clashTree() *pkNode {
	root := b.pkg()
	p1 := b.pkg()
	p2 := b.pkg()
	p2.ents = []pkEnt{
		{"Ha", b.hash(pkEnt{"Ka", b.val()}, pkEnt{"pk", b.hash(pkEnt{"Ha", b.val()}, pkEnt{"Ka", b.val()})},
			pkEnt{"Ha", b.hash(pkEnt{"Ka", b.val()})})},
		{"Ka", b.val()},
	}
	p1.ents = []pkEnt{
		{"Ha", b.hash(pkEnt{"Ha", b.hash(pkEnt{"Ka", b.val()}, pkEnt{"ka", b.val()})}, pkEnt{"Ka", b.val()},
			pkEnt{"Pk", b.hash(pkEnt{"Ha", b.hash(pkEnt{"Ka", b.val()})})})},
		{"pk", p2},
		{"Ka", b.val()},
	}
	root.ents = []pkEnt{{"Pk", p1}, {"Ha", b.hash(pkEnt{"Pk", b.val()}, pkEnt{"Ha", b.val()})}, {"Ka", b.val()}}
	return root
}

var pkPoolU = []string{"Va", "Xy", "Ab", "Äb", "Δx", "Q", "Pk", "Ha", "Ka", "P", "Ée"}
var pkPoolL = []string{"va", "xy", "ab", "äb", "δx", "q", "pk", "ha", "ka", "a", "ée"}
var pkPoolN = []string{"_a", "_B", "__", "_9", "_pk"}

func pkRandName(r *rng, used map[string]bool) string {
	for tries := 0; ; tries++ {
		var s string
		switch c := r.intn(10); {
		case c < 4:
			s = pick(r, pkPoolU)
		case c < 8:
			s = pick(r, pkPoolL)
		default:
			s = pick(r, pkPoolN)
		}
		if tries > 20 {
			s = fmt.Sprintf("%s%d", s, tries)
		}
		if !used[s] {
			used[s] = true
			return s
		}
	}
}

func (b *pkBuilder) randHash(r *rng, hdepth, pdepth int) *pkNode {
	h := b.hash()
	used := map[string]bool{}
	n := 1 + r.intn(4)
	for i := 0; i < n; i++ {
		name := pkRandName(r, used)
		var node *pkNode
		switch c := r.intn(12); {
		case c < 6:
			node = b.val()
		case c < 7:
			node = b.fn()
		case c < 10 && hdepth < 3:
			node = b.randHash(r, hdepth+1, pdepth)
		case c >= 10 && pdepth < 3:
			node = b.randPkg(r, pdepth+1)
		default:
			node = b.val()
		}
		h.ents = append(h.ents, pkEnt{name, node})
	}
	return h
}

func (b *pkBuilder) randPkg(r *rng, pdepth int) *pkNode {
	p := b.pkg()
	used := map[string]bool{}
	n := 2 + r.intn(6)
	for i := 0; i < n; i++ {
		name := pkRandName(r, used)
		var node *pkNode
		switch c := r.intn(12); {
		case c < 4:
			node = b.val()
		case c < 6:
			node = b.fn()
		case c < 9:
			node = b.randHash(r, 1, pdepth)
		case pdepth < 3:
			node = b.randPkg(r, pdepth+1)
		default:
			node = b.val()
		}
		p.ents = append(p.ents, pkEnt{name, node})
	}
	return p
}

// ---------------------------------------------------------------- source text

// pkOuterMarker: a value member of parent whose name the package itself does
// not define (read from inside the nested package by plain name).
func pkOuterMarker(n, parent *pkNode) string {
	if parent == nil || parent.kind != "pkg" {
		return ""
	}
	for _, e := range parent.ents {
		if e.node.kind == "val" && n.find(e.name) == nil {
			return e.name
		}
	}
	return ""
}

func pkFirstValKey(h *pkNode) string {
	for _, e := range h.ents {
		if e.node.kind == "val" {
			return e.name
		}
	}
	return ""
}

// pkDotForm: the forms in which the code of package number id uses member i
// through a dot path (read: operand of a builtin / argument of a function;
// write: set / prefix / infix assignment); they rotate over members and packages.
func pkDotForm(id, i int) (string, string) {
	return []string{"plus", "uarg"}[(id+i)%2], []string{"set", "prefix", "infix"}[(id+i)%3]
}

// pkDotKey: the name that the code of a package appends to a hash / nested
// package member of its own to read an integer through a dot path (the first
// value key of a hash; the first capitalised value member of a package).
func pkDotKey(n *pkNode) string {
	switch n.kind {
	case "hash":
		return pkFirstValKey(n)
	case "pkg":
		for _, e := range n.ents {
			if e.node.kind == "val" && pkClass(e.name) == "U" {
				return e.name
			}
		}
	}
	return ""
}

func pkClass(name string) string {
	r, _ := utf8.DecodeRuneInString(name)
	switch {
	case (r >= 'A' && r <= 'Z') || r == 196 || r == 201 || r == 916:
		return "U"
	case (r >= 'a' && r <= 'z') || r == 228 || r == 233 || r == 948:
		return "l"
	}
	return "n"
}

func pkRenderHash(h *pkNode) string {
	var sb strings.Builder
	sb.WriteString("(hash")
	for _, e := range h.ents {
		sb.WriteString(" " + e.name + ": ")
		switch e.node.kind {
		case "val":
			fmt.Fprintf(&sb, "%d", e.node.n)
		case "fn":
			fmt.Fprintf(&sb, "(fn [a] (+ a zqk%d))", e.node.n)
		case "hash":
			sb.WriteString(pkRenderHash(e.node))
		case "pkg":
			sb.WriteString(pkRenderPkg(e.node, nil, false))
		}
	}
	sb.WriteString(")")
	return sb.String()
}

// pkHashFns: the function values in h (not those of packages stored in it).
func pkHashFns(h *pkNode) []int {
	var out []int
	for _, e := range h.ents {
		switch e.node.kind {
		case "fn":
			out = append(out, e.node.n)
		case "hash":
			out = append(out, pkHashFns(e.node)...)
		}
	}
	return out
}

// pkRenderPkg renders (package pkN members... accessors...).  Every function
// (member or hash value) adds a private constant zqk<n> of its package to its
// argument, so every call from outside, through any path and alias, runs code
// that uses a private member of the package it was defined in.  Accessors are
// capitalised functions defined in the package body (prefix Zq), also stored
// in the global registry zqreg so that they can be called without a dot path.
//
// pkAcc (a field of the case) selects the accessors that the events of the case use
// (defining all of them in every case doubles the cost of building the tree):
// "": ZqR/W/C/S/O; "r": only the readers ZqR (cases whose inside events are readbacks);
// "dot": ZqR and the accessors that use the members through dot paths (ZqD/G/S);
// "recv": only the functions that receive a value from outside (ZqId, ZqLet, ...).
var pkAcc string

func pkRenderPkg(n, parent *pkNode, strName bool) string {
	var sb strings.Builder
	if strName {
		fmt.Fprintf(&sb, "(package \"pk%d\"", n.id)
	} else {
		fmt.Fprintf(&sb, "(package pk%d", n.id)
	}
	reg := func(acc string) {
		fmt.Fprintf(&sb, " (hset zqreg \"p%d%s\" Zq%s)", n.id, acc, acc)
	}
	for i, e := range n.ents {
		switch e.node.kind {
		case "val":
			fmt.Fprintf(&sb, "\n (def %s %d)", e.name, e.node.n)
		case "fn":
			fmt.Fprintf(&sb, "\n (def zqk%d %d) (defn %s [a] (+ a zqk%d))", e.node.n, e.node.n, e.name, e.node.n)
		case "hash":
			for _, n := range pkHashFns(e.node) {
				fmt.Fprintf(&sb, "\n (def zqk%d %d)", n, n)
			}
			fmt.Fprintf(&sb, "\n (def %s %s)", e.name, pkRenderHash(e.node))
		case "pkg":
			fmt.Fprintf(&sb, "\n (def %s %s)", e.name, pkRenderPkg(e.node, n, false))
		}
		if pkAcc == "recv" {
			continue
		}
		fmt.Fprintf(&sb, " (defn ZqR%d [] %s)", i, e.name)
		reg(fmt.Sprintf("R%d", i))
		if pkAcc == "dot" {
			// the code of the package uses its own members through dot paths: as the
			// operand of a builtin / the argument of a (global) function, and as the
			// target of an assignment (one form each per member, see pkDotForm)
			rd, wr := pkDotForm(n.id, i)
			l := map[string]string{"plus": "(+ 0 %s)", "uarg": "(zqid %s)"}[rd]
			if e.node.kind == "val" {
				fmt.Fprintf(&sb, " (defn ZqD%d [] "+l+")", i, "."+e.name)
				reg(fmt.Sprintf("D%d", i))
			}
			if k := pkDotKey(e.node); k != "" {
				fmt.Fprintf(&sb, " (defn ZqG%d [] "+l+")", i, e.name+"."+k)
				reg(fmt.Sprintf("G%d", i))
			}
			if k := pkFirstValKey(e.node); k != "" && e.node.kind == "hash" {
				w := map[string]string{"set": "(set %s.%s zqv)", "prefix": "(= %s.%s zqv)", "infix": "{%s.%s = zqv}"}[wr]
				fmt.Fprintf(&sb, " (defn ZqS%d [zqv] "+w+")", i, e.name, k)
				reg(fmt.Sprintf("S%d", i))
			}
			continue
		}
		if pkAcc == "r" {
			continue
		}
		if i%2 == 0 {
			fmt.Fprintf(&sb, " (defn ZqW%d [zqv] (set %s zqv))", i, e.name)
		} else {
			fmt.Fprintf(&sb, " (defn ZqW%d [zqv] {%s = zqv})", i, e.name)
		}
		reg(fmt.Sprintf("W%d", i))
		if e.node.kind == "fn" {
			fmt.Fprintf(&sb, " (defn ZqC%d [zqv] (%s zqv))", i, e.name)
			reg(fmt.Sprintf("C%d", i))
		}
		if e.node.kind == "hash" {
			if k := pkFirstValKey(e.node); k != "" {
				fmt.Fprintf(&sb, " (defn ZqS%d [zqv] (set %s.%s zqv))", i, e.name, k)
				reg(fmt.Sprintf("S%d", i))
			}
		}
	}
	// functions of the package that receive a value from outside: as their argument,
	// from a callback, inside an array / a list / a hash
	for _, d := range [][2]string{
		{"Id", "[zqx] zqx"},
		{"Let", "[zqf] (let [zqv (zqf)] zqv)"},
		{"Def", "[zqf] (def zqd (zqf)) zqd"},
		{"Plus", "[zqf] (+ 0 (zqf))"},
		{"Arg", "[zqf] (ZqId (zqf))"},
		{"First", "[zqa] (let [zqv (aget zqa 0)] zqv)"},
		{"Car", "[zql] (let [zqv (car zql)] zqv)"},
		{"Hv", "[zqh] (let [zqv (hget zqh k:)] zqv)"},
	} {
		if pkAcc != "recv" {
			continue
		}
		fmt.Fprintf(&sb, "\n (defn Zq%s %s)", d[0], d[1])
		reg(d[0])
	}
	if m := pkOuterMarker(n, parent); m != "" && (pkAcc == "" || pkAcc == "dot") {
		fmt.Fprintf(&sb, "\n (defn ZqO [] %s)", m)
		reg("O")
	}
	sb.WriteString(")")
	return sb.String()
}

// ---------------------------------------------------------------- cases

type pkEvent struct {
	Op    string   `json:"op"`
	Al    []any    `json:"al,omitempty"` // out: [kind, k]
	P     []any    `json:"p,omitempty"`  // out: path
	Rt    string   `json:"rt,omitempty"` // out: route
	PP    []any    `json:"pp,omitempty"` // in: path of the package
	M     any      `json:"m,omitempty"`  // in: member
	Mode  string   `json:"mode,omitempty"`
	Key   any      `json:"key,omitempty"`
	Style string   `json:"style,omitempty"`
	Form  string   `json:"form,omitempty"` // in: how the accessor uses the dot path
	FP    []any    `json:"fp,omitempty"`   // rel: path of the package whose code receives the dot path
	C     int      `json:"c,omitempty"`    // rel: the written dot path is p[c:]
	Fs    string   `json:"fs,omitempty"`   // rel: how the function of the package is named
	V     int      `json:"v"`
	Res   any      `json:"res"`
	Texts []string `json:"texts,omitempty"` // replay output only
	Err   string   `json:"err,omitempty"`   // replay output only

	kind string
	k    int
	p    []string
	pp   []string
	m    string
	fp   []string
}

// MarshalJSON writes only the fields of the event's kind (and never null).
func (e *pkEvent) MarshalJSON() ([]byte, error) {
	m := map[string]any{"op": e.Op, "v": e.V, "res": e.Res}
	if e.Op == "out" {
		m["al"], m["p"], m["rt"] = e.Al, e.P, e.Rt
	} else if e.Op == "rel" {
		fp := e.FP
		if fp == nil {
			fp = []any{}
		}
		m["fp"], m["c"], m["p"], m["rt"], m["fs"] = fp, e.C, e.P, e.Rt, e.Fs
	} else {
		pp := e.PP
		if pp == nil {
			pp = []any{}
		}
		m["pp"], m["m"], m["mode"], m["key"], m["style"], m["form"] = pp, e.M, e.Mode, e.Key, e.Style, e.Form
	}
	if e.Texts != nil {
		m["texts"] = e.Texts
	}
	if e.Err != "" {
		m["err"] = e.Err
	}
	return json.Marshal(m)
}

type pkCase struct {
	ID    string     `json:"id"`
	Mk    string     `json:"mk"`
	Decoy bool       `json:"decoy,omitempty"` // globals named like the members exist
	Acc   string     `json:"acc,omitempty"`   // additional accessors in the package bodies (pkAcc)
	Tree  any        `json:"tree"`
	Evs   []*pkEvent `json:"evs"`

	root *pkNode
}

var pkAliasKinds = []string{"direct", "def", "let", "param", "inpkgU", "inpkgl", "inhash", "inhash2"}
var pkReadRoutes = []string{"plus", "typeq", "uarg", "rhs", "rhsdef", "rhsset", "let", "star", "call"}
var pkWriteRoutes = []string{"infix", "prefix", "set", "infixdef", "hset"}

// the dot path is one of several targets of an infix assignment
var pkMultiRoutes = []string{"multi1", "multi2"}

// a dot path written outside travels as a value into code of the package:
// as the argument of one of its functions / carried by data
var pkArgRoutes = []string{"arg", "apply", "map"}
var pkDataRoutes = []string{"cblet", "cbtail", "cbdef", "cbplus", "cbarg", "first", "car", "hval"}
var pkFuncStyles = []string{"dot", "val", "alias", "reg"}

func pkIsWrite(rt string) bool {
	for _, w := range pkWriteRoutes {
		if w == rt {
			return true
		}
	}
	for _, w := range pkMultiRoutes {
		if w == rt {
			return true
		}
	}
	return false
}

// pkRenumber gives the packages their numbers in pre-order (the registry keys
// of the accessors), the same at generation and at replay.
func pkRenumber(root *pkNode) {
	id := 0
	var rec func(n *pkNode)
	rec = func(n *pkNode) {
		if n.kind == "pkg" {
			n.id = id
			id++
		}
		for _, e := range n.ents {
			rec(e.node)
		}
	}
	rec(root)
}

type pkGen struct {
	root *pkNode
	evs  []*pkEvent
	val  int // fresh values for writes
	cnt  int
}

func (g *pkGen) fresh() int { g.val++; return 100000 + g.val }

// aliasKs: the prefixes an alias of this kind may be bound to (package values).
func (g *pkGen) aliasKs(kind string, ap []string) []int {
	ks := []int{0}
	if kind == "direct" {
		return ks
	}
	for k := 1; k < len(ap); k++ {
		if n := g.root.at(ap[:k]); n != nil && n.kind == "pkg" {
			ks = append(ks, k)
		}
	}
	return ks
}

// A dot symbol handed to a user function is resolved in the callee, where a
// let-bound or parameter alias of the caller is not in scope ("symbol zq not
// found"): argument evaluation / scoping, not package visibility, so the
// user-function route is not combined with local aliases.
func pkKindRoute(kind, rt string) bool {
	return !(rt == "uarg" && (kind == "let" || kind == "param"))
}

func pkRouteApplies(rt string, n, parent *pkNode, plen int) bool {
	switch rt {
	case "plus":
		return n.kind == "val"
	case "call":
		return n.kind == "fn"
	case "hset":
		return parent != nil && parent.kind == "hash" && plen > 1
	}
	return true
}

// accessTexts renders the program texts of one outside access; j numbers the
// helper names.
func pkAccessTexts(j int, kind string, k int, p []string, rt string, v int) []string {
	var texts []string
	ap := p
	if rt == "hset" {
		ap = p[:len(p)-1]
	}
	pre := "hi"
	if k > 0 {
		texts = append(texts, fmt.Sprintf("(def zp%d hi.%s)\n", j, strings.Join(p[:k], ".")))
		pre = fmt.Sprintf("zp%d", j)
	}
	rest := strings.Join(ap[k:], ".")
	var head string
	wrapLet, wrapParam := false, false
	switch kind {
	case "direct", "def":
		if kind == "def" && k == 0 {
			texts = append(texts, fmt.Sprintf("(def zq%d hi)\n", j))
			pre = fmt.Sprintf("zq%d", j)
		}
		head = pre
	case "let":
		head, wrapLet = "zq", true
	case "param":
		head, wrapParam = "zq", true
	case "inpkgU":
		texts = append(texts, fmt.Sprintf("(def zw%d (package zw (def Q %s)))\n", j, pre))
		head = fmt.Sprintf("zw%d.Q", j)
	case "inpkgl":
		texts = append(texts, fmt.Sprintf("(def zw%d (package zw (def q %s)))\n", j, pre))
		head = fmt.Sprintf("zw%d.q", j)
	case "inhash":
		texts = append(texts, fmt.Sprintf("(def zh%d (hash P: %s))\n", j, pre))
		head = fmt.Sprintf("zh%d.P", j)
	case "inhash2":
		texts = append(texts, fmt.Sprintf("(def zh%d (hash a: (hash P: %s)))\n", j, pre))
		head = fmt.Sprintf("zh%d.a.P", j)
	}
	d := head + "." + rest
	var acc string
	switch rt {
	case "plus":
		acc = fmt.Sprintf("(+ 0 %s)", d)
	case "typeq":
		acc = fmt.Sprintf("(type? %s)", d)
	case "uarg":
		acc = fmt.Sprintf("(zqid %s)", d)
	case "star":
		acc = fmt.Sprintf("(* %s)", d)
	case "call":
		acc = fmt.Sprintf("(%s %d)", d, v)
	case "let":
		acc = fmt.Sprintf("(let [zt %s] zt)", d)
	case "rhs":
		acc = fmt.Sprintf("(begin (def zt%d 0) {zt%d = %s} zt%d)", j, j, d, j)
	case "rhsdef":
		acc = fmt.Sprintf("(begin (def zt%d %s) zt%d)", j, d, j)
	case "rhsset":
		acc = fmt.Sprintf("(begin (def zt%d 0) (set zt%d %s) zt%d)", j, j, d, j)
	case "infix":
		acc = fmt.Sprintf("{%s = %d}", d, v)
	case "prefix":
		acc = fmt.Sprintf("(= %s %d)", d, v)
	case "set":
		acc = fmt.Sprintf("(set %s %d)", d, v)
	case "infixdef":
		acc = fmt.Sprintf("{%s := %d}", d, v)
	case "hset":
		acc = fmt.Sprintf("(hset %s %s: %d)", d, p[len(p)-1], v)
	case "multi1":
		acc = fmt.Sprintf("(begin (def zt%d 0) {%s, zt%d = %d, 0})", j, d, j, v)
	case "multi2":
		acc = fmt.Sprintf("(begin (def zt%d 0) {zt%d, %s = 0, %d})", j, j, d, v)
	}
	switch {
	case wrapLet:
		texts = append(texts, fmt.Sprintf("(let [zq %s] %s)\n", pre, acc))
	case wrapParam:
		texts = append(texts, fmt.Sprintf("(defn zqf%d [zq] %s)\n", j, acc), fmt.Sprintf("(zqf%d %s)\n", j, pre))
	default:
		texts = append(texts, acc+"\n")
	}
	return texts
}

// pkInText renders the call of an accessor defined inside the package at pp.
func pkInText(root *pkNode, ev *pkEvent) []string {
	pk := root.at(ev.pp)
	if pk == nil || pk.kind != "pkg" {
		return nil
	}
	var acc, args string
	switch ev.Mode {
	case "rd":
		acc = fmt.Sprintf("R%d", pk.index(ev.m))
	case "wr":
		acc, args = fmt.Sprintf("W%d", pk.index(ev.m)), fmt.Sprintf(" %d", ev.V)
	case "call":
		acc, args = fmt.Sprintf("C%d", pk.index(ev.m)), fmt.Sprintf(" %d", ev.V)
	case "wrkey":
		acc, args = fmt.Sprintf("S%d", pk.index(ev.m)), fmt.Sprintf(" %d", ev.V)
	case "rdouter":
		acc = "O"
	case "rddot":
		acc = fmt.Sprintf("D%d", pk.index(ev.m))
	case "rdkey":
		acc = fmt.Sprintf("G%d", pk.index(ev.m))
	}
	if ev.Style == "dot" {
		path := "hi"
		if len(ev.pp) > 0 {
			path += "." + strings.Join(ev.pp, ".")
		}
		return []string{fmt.Sprintf("(%s.Zq%s%s)\n", path, acc, args)}
	}
	return []string{fmt.Sprintf("((hget zqreg \"p%d%s\")%s)\n", pk.id, acc, args)}
}

// pkRelText: the dot path that outside code writes for the member at p relative
// to the package at p[:c].
func pkRelText(p []string, c int) string {
	rel := p[c:]
	if len(rel) == 1 {
		return "." + rel[0]
	}
	return strings.Join(rel, ".")
}

var pkRelAcc = map[string]string{"arg": "Id", "apply": "Id", "map": "Id", "cblet": "Let", "cbtail": "Let", "cbdef": "Def",
	"cbplus": "Plus", "cbarg": "Arg", "first": "First", "car": "Car", "hval": "Hv"}

// pkRelTexts renders the program texts of one "rel" event: outside code hands
// the dot path to a function of the package at fp.
func pkRelTexts(j int, root *pkNode, ev *pkEvent) []string {
	pk := root.at(ev.fp)
	if pk == nil || pk.kind != "pkg" {
		return nil
	}
	acc := pkRelAcc[ev.Rt]
	path := "hi"
	if len(ev.fp) > 0 {
		path += "." + strings.Join(ev.fp, ".")
	}
	var texts []string
	var f string
	switch ev.Fs {
	case "dot":
		f = path + ".Zq" + acc
	case "val":
		texts = append(texts, fmt.Sprintf("(def zf%d %s.Zq%s)\n", j, path, acc))
		f = fmt.Sprintf("zf%d", j)
	case "alias":
		texts = append(texts, fmt.Sprintf("(def zq%d %s)\n", j, path))
		f = fmt.Sprintf("zq%d.Zq%s", j, acc)
	default: // reg
		texts = append(texts, fmt.Sprintf("(def zf%d (hget zqreg \"p%d%s\"))\n", j, pk.id, acc))
		f = fmt.Sprintf("zf%d", j)
	}
	d := pkRelText(ev.p, ev.C)
	var t string
	switch ev.Rt {
	case "arg":
		t = fmt.Sprintf("(%s %s)", f, d)
	case "apply":
		t = fmt.Sprintf("(apply %s [%s])", f, d)
	case "map":
		t = fmt.Sprintf("(aget (map %s [%s]) 0)", f, d)
	case "cblet", "cbdef", "cbplus", "cbarg":
		t = fmt.Sprintf("(%s (fn [] (quote %s)))", f, d)
	case "cbtail":
		t = fmt.Sprintf("(%s (fn [] %s))", f, d)
	case "first":
		t = fmt.Sprintf("(%s [%s])", f, d)
	case "car":
		t = fmt.Sprintf("(%s (quote (%s)))", f, d)
	case "hval":
		t = fmt.Sprintf("(%s (hash k: %s))", f, d)
	}
	return append(texts, t+"\n")
}

// lookupFrom: the member that the name nm denotes for code of the package at
// fp (its own member, else the member of the innermost enclosing package that
// defines nm): the path of the package found, or ok = false.
func (g *pkGen) lookupFrom(fp []string, nm string) ([]string, bool) {
	for j := len(fp); j >= 0; j-- {
		if a := g.root.at(fp[:j]); a != nil && a.kind == "pkg" && a.find(nm) != nil {
			return fp[:j], true
		}
	}
	return nil, false
}

func (g *pkGen) rel(fp []string, c int, p []string, rt, fs string) {
	if fs == "dot" || fs == "alias" || fs == "val" {
		if !g.allPkgHops(fp) {
			fs = "reg"
		}
	}
	if (rt == "apply" || rt == "map") && (fs == "dot" || fs == "alias") {
		fs = "val"
	}
	g.evs = append(g.evs, &pkEvent{Op: "rel", FP: pkNames(fp), C: c, P: pkNames(p), Rt: rt, Fs: fs,
		p: append([]string{}, p...), fp: append([]string{}, fp...)})
}

// relTargets: for the package at op, the paths of the members that a dot path
// of at most maxHops names written relative to it can name.
func (g *pkGen) relTargets(op []string, maxHops int) [][]string {
	var out [][]string
	for _, q := range g.root.at(op).allPaths() {
		if len(q) <= maxHops {
			out = append(out, append(append([]string{}, op...), q...))
		}
	}
	return out
}

// relEvents: every package of the tree as the owner of the first name of the
// written path; the code that receives the path belongs to the owner or to a
// package nested in it (as long as that one does not define the name itself);
// routes and function styles rotate (every: all routes).
func (g *pkGen) relEvents(routes []string, every bool, nrot, maxHops int, filter func(idx int) bool) {
	pkgs := [][]string{{}}
	for _, p := range g.root.allPaths() {
		if g.root.at(p).kind == "pkg" {
			pkgs = append(pkgs, p)
		}
	}
	cnt, idx := 0, 0
	for _, op := range pkgs {
		for _, p := range g.relTargets(op, maxHops) {
			idx++
			if filter != nil && !filter(idx) {
				continue
			}
			n := g.root.at(p)
			// where the receiving code may live
			fps := [][]string{op}
			for _, q := range pkgs {
				if len(q) > len(op) && len(fps) < 3 && pkHasPrefix(q, op) {
					if own, ok := g.lookupFrom(q, p[len(op)]); ok && len(own) == len(op) {
						fps = append(fps, q)
					}
				}
			}
			var app []string
			for _, rt := range routes {
				if rt == "cbplus" && n.kind != "val" {
					continue
				}
				app = append(app, rt)
			}
			rts := app
			if !every && len(app) > nrot {
				rts = nil
				for i := 0; i < nrot; i++ {
					rts = append(rts, app[(cnt+i)%len(app)])
				}
			}
			for _, rt := range rts {
				cnt++
				fp := fps[cnt%len(fps)]
				g.rel(fp, len(op), p, rt, pkFuncStyles[cnt%len(pkFuncStyles)])
			}
		}
	}
}

func pkHasPrefix(q, pre []string) bool {
	if len(q) < len(pre) {
		return false
	}
	for i := range pre {
		if q[i] != pre[i] {
			return false
		}
	}
	return true
}

// insideDotEvents: the code of every package uses its own members through dot
// paths -- a value member as .m, a key of a hash member and a capitalised
// member of a nested package as m.k -- as the operand of a builtin, as the
// argument of a function, and as the target of set / prefix / infix
// assignment (each write is read back by plain name).
func (g *pkGen) insideDotEvents() {
	pkgs := [][]string{{}}
	for _, p := range g.root.allPaths() {
		if g.root.at(p).kind == "pkg" {
			pkgs = append(pkgs, p)
		}
	}
	for _, pp := range pkgs {
		pk := g.root.at(pp)
		styles := []string{"reg"}
		if g.allPkgHops(pp) {
			styles = []string{"dot", "reg"}
		}
		for _, st := range styles {
			for i, e := range pk.ents {
				rd, wr := pkDotForm(pk.id, i)
				if e.node.kind == "val" {
					g.inForm(pp, e.name, "rddot", st, rd)
				}
				if pkDotKey(e.node) != "" {
					g.inForm(pp, e.name, "rdkey", st, rd)
				}
				if e.node.kind == "hash" && pkFirstValKey(e.node) != "" {
					g.inForm(pp, e.name, "wrkey", st, wr)
					g.in(pp, e.name, "rd", "reg")
				}
			}
		}
	}
}

func (g *pkGen) inForm(pp []string, m, mode, style, form string) {
	n := len(g.evs)
	g.in(pp, m, mode, style)
	if len(g.evs) > n {
		g.evs[len(g.evs)-1].Form = form
	}
}

func (g *pkGen) out(kind string, k int, p []string, rt string) {
	g.cnt++
	v := 1
	if rt == "call" {
		v = 1 + g.cnt%5
	}
	if pkIsWrite(rt) {
		v = g.fresh()
	}
	g.evs = append(g.evs, &pkEvent{Op: "out", Al: []any{kind, k}, P: pkNames(p), Rt: rt, V: v,
		kind: kind, k: k, p: append([]string{}, p...)})
}

// owner: the innermost package on the path of p and the member of it that
// p passes through: (pp, member name).
func (g *pkGen) owner(p []string) ([]string, string) {
	last := 0
	for i := 1; i < len(p); i++ {
		if n := g.root.at(p[:i]); n != nil && n.kind == "pkg" {
			last = i
		}
	}
	return p[:last], p[last]
}

func (g *pkGen) allPkgHops(pp []string) bool {
	for i := 1; i <= len(pp); i++ {
		if n := g.root.at(pp[:i]); n == nil || n.kind != "pkg" {
			return false
		}
	}
	return true
}

// in: call an accessor defined inside the package at pp.
func (g *pkGen) in(pp []string, m, mode, style string) {
	pk := g.root.at(pp)
	if pk == nil || pk.kind != "pkg" {
		return
	}
	key := ""
	v := 0
	switch mode {
	case "wr":
		v = g.fresh()
	case "call":
		v = 2
	case "wrkey":
		key = pkFirstValKey(pk.find(m))
		v = g.fresh()
	case "rdkey":
		key = pkDotKey(pk.find(m))
	}
	g.evs = append(g.evs, &pkEvent{Op: "in", PP: pkNames(pp), M: pkName(m), Mode: mode, Key: pkName(key), V: v, Style: style,
		pp: append([]string{}, pp...), m: m})
}

// readback: the member that p passes through, read by code inside its package.
func (g *pkGen) readback(p []string) {
	pp, m := g.owner(p)
	g.in(pp, m, "rd", "reg")
}

type pkPlan struct {
	kind string
	k    int
	rt   string
}

// accessEvents: reads of every target first, then writes, deepest paths first
// (a write replaces the member by an integer, so everything below a target is
// exercised before the target itself); each write is followed by a read of the
// owning member from inside and (reread) by a plain read from outside.
func (g *pkGen) accessEvents(targets [][]string, reads, writes func(p []string) []pkPlan, reread bool) {
	for _, p := range targets {
		for _, pl := range reads(p) {
			g.out(pl.kind, pl.k, p, pl.rt)
		}
	}
	ws := append([][]string{}, targets...)
	sort.SliceStable(ws, func(i, j int) bool { return len(ws[i]) > len(ws[j]) })
	for _, p := range ws {
		for _, pl := range writes(p) {
			g.out(pl.kind, pl.k, p, pl.rt)
			g.readback(p)
			if reread {
				g.out("direct", 0, p, "uarg")
			}
		}
	}
}

// insideEvents: code defined inside each package reads, writes and calls the
// members of its own package (and a member of the enclosing package).
func (g *pkGen) insideEvents() {
	pkgs := [][]string{{}}
	for _, p := range g.root.allPaths() {
		if g.root.at(p).kind == "pkg" {
			pkgs = append(pkgs, p)
		}
	}
	for _, pp := range pkgs {
		pk := g.root.at(pp)
		styles := []string{"reg"}
		if g.allPkgHops(pp) {
			styles = []string{"dot", "reg"}
		}
		var parent *pkNode
		if len(pp) > 0 {
			parent = g.root.at(pp[:len(pp)-1])
		}
		for _, st := range styles {
			for _, e := range pk.ents {
				g.in(pp, e.name, "rd", st)
				if e.node.kind == "fn" {
					g.in(pp, e.name, "call", st)
				}
				if e.node.kind == "hash" && pkFirstValKey(e.node) != "" {
					g.in(pp, e.name, "wrkey", st)
					g.in(pp, e.name, "rd", "reg")
				}
			}
			if m := pkOuterMarker(pk, parent); m != "" {
				g.in(pp, m, "rdouter", st)
			}
		}
		// writes last (they turn the member into an integer); packages are kept
		for _, e := range pk.ents {
			if e.node.kind == "pkg" {
				continue
			}
			g.in(pp, e.name, "wr", styles[0])
			g.in(pp, e.name, "rd", "reg")
			if g.allPkgHops(pp) {
				g.out("direct", 0, append(append([]string{}, pp...), e.name), "uarg")
			}
		}
	}
}

// plans: for target p, the (alias kind, prefix, route) combinations.
//
//	every: all routes; else the routes rotate (nrot per target)
//	allK:  every admissible alias prefix; else the prefixes rotate
func (g *pkGen) plans(kinds, routes []string, every, allK bool, nrot int) func(p []string) []pkPlan {
	c := 0
	return func(p []string) []pkPlan {
		n := g.root.at(p)
		parent := g.root.at(p[:len(p)-1])
		var app []string
		for _, rt := range routes {
			if pkRouteApplies(rt, n, parent, len(p)) {
				app = append(app, rt)
			}
		}
		var out []pkPlan
		for _, kind := range kinds {
			rts := []string{}
			for _, rt := range app {
				if pkKindRoute(kind, rt) {
					rts = append(rts, rt)
				}
			}
			app := rts
			if !every && len(app) > nrot {
				rts = nil
				c++
				for i := 0; i < nrot; i++ {
					rts = append(rts, app[(c+i)%len(app)])
				}
			}
			for _, rt := range rts {
				ap := p
				if rt == "hset" {
					ap = p[:len(p)-1]
				}
				ks := g.aliasKs(kind, ap)
				if allK {
					for _, k := range ks {
						out = append(out, pkPlan{kind, k, rt})
					}
				} else {
					c++
					out = append(out, pkPlan{kind, ks[c%len(ks)], rt})
				}
			}
		}
		return out
	}
}

// multiPlans: the dot path as either target of an assignment to two targets,
// through every alias kind (all: every kind for every path; else one kind per
// path, in rotation).
func (g *pkGen) multiPlans(all bool) func(p []string) []pkPlan {
	if all {
		return g.plans(pkAliasKinds, pkMultiRoutes, true, false, 0)
	}
	kc := 0
	return func(p []string) []pkPlan {
		kc++
		return g.plans([]string{pkAliasKinds[kc%len(pkAliasKinds)]}, pkMultiRoutes, true, false, 0)(p)
	}
}

func (g *pkGen) plansRand(r *rng, nr int, routes []string) func(p []string) []pkPlan {
	return func(p []string) []pkPlan {
		n := g.root.at(p)
		parent := g.root.at(p[:len(p)-1])
		var out []pkPlan
		for i := 0; i < nr; i++ {
			kind := pick(r, pkAliasKinds)
			rt := pick(r, routes)
			if !pkRouteApplies(rt, n, parent, len(p)) || !pkKindRoute(kind, rt) {
				continue
			}
			ap := p
			if rt == "hset" {
				ap = p[:len(p)-1]
			}
			out = append(out, pkPlan{kind, pick(r, g.aliasKs(kind, ap)), rt})
		}
		return out
	}
}

// ---------------------------------------------------------------- execution

func pkProj(env *zygo.Zlisp, x zygo.Sexp, depth int) any {
	if depth > 12 {
		return []any{"other", "deep"}
	}
	switch v := x.(type) {
	case *zygo.SexpInt:
		if v.Val >= -(1<<30) && v.Val <= (1<<30) {
			return []any{"int", v.Val}
		}
		return []any{"other", "bigint"}
	case *zygo.SexpFunction:
		return []any{"fn", 0}
	case *zygo.SexpStr:
		return []any{"str", v.S}
	case *zygo.SexpSymbol:
		return []any{"sym", v.Name()}
	case *zygo.Stack:
		if v.IsPackage {
			return []any{"pkg", 0}
		}
		return []any{"other", "stack"}
	case *zygo.SexpHash:
		pairs := []any{}
		for _, k := range v.KeyOrder {
			val, err := v.HashGet(env, k)
			if err != nil {
				continue // a key removed from the hash (C14's business)
			}
			if sym, ok := k.(*zygo.SexpSymbol); ok {
				pairs = append(pairs, []any{pkName(sym.Name()), pkProj(env, val, depth+1)})
			} else {
				pairs = append(pairs, []any{pkName("?"), []any{"other", "key"}})
			}
		}
		return []any{"hash", pairs}
	case nil:
		return []any{"other", "gonil"}
	}
	return []any{"other", fmt.Sprintf("%T", x)}
}

func pkOutcome(env *zygo.Zlisp, o outcome) (any, string) {
	switch o.Kind {
	case "val":
		return []any{"val", pkProj(env, o.Val, 0)}, ""
	case "nilres":
		return []any{"val", []any{"other", "nilres"}}, ""
	case "err":
		cls := "other"
		if strings.Contains(o.Err, "Cannot access private member") {
			cls = "private"
		}
		return []any{"err", cls}, trunc(o.Err, 200)
	case "panic":
		return []any{"panic", trunc(o.Err, 120)}, trunc(o.Err, 200)
	}
	return []any{"budget", "x"}, ""
}

// pkDecoys: global definitions named like the members of the packages (a value
// for a value member, a hash / package with the key that the accessors use for
// a hash / package member), so that a lookup that leaves the package finds
// something instead of failing.
func pkDecoys(root *pkNode) []string {
	var out []string
	seen := map[string]bool{}
	var rec func(n *pkNode)
	rec = func(n *pkNode) {
		for _, e := range n.ents {
			if n.kind == "pkg" && !seen[e.name] {
				switch e.node.kind {
				case "val":
					seen[e.name] = true
					out = append(out, fmt.Sprintf("(def %s -7)\n", e.name))
				case "hash":
					if k := pkFirstValKey(e.node); k != "" {
						seen[e.name] = true
						out = append(out, fmt.Sprintf("(def %s (hash %s: -7))\n", e.name, k))
					}
				case "pkg":
					if k := pkDotKey(e.node); k != "" {
						seen[e.name] = true
						out = append(out, fmt.Sprintf("(def %s (package zqdecoy (def %s -7)))\n", e.name, k))
					}
				}
			}
			rec(e.node)
		}
	}
	rec(root)
	return out
}

// pkRun executes a case on a fresh interpreter: build the tree, then the texts
// of every event (the result of an event is its first failure, else the value
// of its last text).
func pkRun(c *pkCase, verbose bool) {
	env := zygo.NewZlisp()
	env.StandardSetup()
	must := func(text string) {
		o := evalSafe(env, text)
		if o.Kind != "val" && o.Kind != "nilres" {
			fatal("case %s: setup failed: %s: %s", c.ID, trunc(text, 300), o.Err)
		}
	}
	pkAcc = c.Acc
	must("(def zqreg (hash))\n")
	must("(defn zqid [x] x)\n")
	switch c.Mk {
	case "infixdef":
		must("{hi := " + pkRenderPkg(c.root, nil, false) + "}\n")
	case "import", "source":
		path := filepath.Join(os.TempDir(), fmt.Sprintf("zv-c18-%d-%s.zy", os.Getpid(), c.ID))
		if err := os.WriteFile(path, []byte(pkRenderPkg(c.root, nil, true)+"\n"), 0o644); err != nil {
			fatal("write %s: %v", path, err)
		}
		defer os.Remove(path)
		if c.Mk == "import" {
			must(fmt.Sprintf("(import hi %q)\n", path))
		} else {
			must(fmt.Sprintf("(def hi (source %q))\n", path))
		}
	default:
		must("(def hi " + pkRenderPkg(c.root, nil, false) + ")\n")
	}
	if c.Decoy {
		for _, t := range pkDecoys(c.root) {
			must(t)
		}
	}
	for j, ev := range c.Evs {
		var texts []string
		switch ev.Op {
		case "out":
			texts = pkAccessTexts(j+1, ev.kind, ev.k, ev.p, ev.Rt, ev.V)
		case "rel":
			texts = pkRelTexts(j+1, c.root, ev)
		default:
			texts = pkInText(c.root, ev)
		}
		var res any = []any{"err", "notext"}
		msg := ""
		for _, t := range texts {
			o := evalSafe(env, t)
			res, msg = pkOutcome(env, o)
			if o.Kind != "val" && o.Kind != "nilres" {
				break
			}
		}
		ev.Res = res
		if verbose {
			ev.Texts, ev.Err = texts, msg
		}
	}
}

// ---------------------------------------------------------------- replay: parse a case back

func pkParseName(x any) string {
	a, _ := x.([]any)
	if len(a) == 2 {
		s, _ := a[1].(string)
		return s
	}
	return ""
}

func pkParsePath(x []any) []string {
	out := make([]string, 0, len(x))
	for _, e := range x {
		out = append(out, pkParseName(e))
	}
	return out
}

func pkParseNode(x any) *pkNode {
	a, _ := x.([]any)
	if len(a) != 2 {
		fatal("replay: malformed node")
	}
	kind, _ := a[0].(string)
	n := &pkNode{kind: kind}
	switch kind {
	case "val", "fn":
		f, _ := a[1].(float64)
		n.n = int(f)
	default:
		es, _ := a[1].([]any)
		for _, e := range es {
			pair, _ := e.([]any)
			if len(pair) != 2 {
				fatal("replay: malformed entry")
			}
			n.ents = append(n.ents, pkEnt{pkParseName(pair[0]), pkParseNode(pair[1])})
		}
	}
	return n
}

func pkParseCase(line []byte) *pkCase {
	var pc pkCase
	if err := json.Unmarshal(line, &pc); err != nil {
		fatal("replay: %v", err)
	}
	pc.root = pkParseNode(pc.Tree)
	pkRenumber(pc.root)
	for _, ev := range pc.Evs {
		if ev.Op == "out" {
			if len(ev.Al) == 2 {
				ev.kind, _ = ev.Al[0].(string)
				f, _ := ev.Al[1].(float64)
				ev.k = int(f)
			}
			ev.p = pkParsePath(ev.P)
		} else if ev.Op == "rel" {
			ev.p = pkParsePath(ev.P)
			ev.fp = pkParsePath(ev.FP)
		} else {
			ev.pp = pkParsePath(ev.PP)
			ev.m = pkParseName(ev.M)
		}
	}
	return &pc
}

func chunkPaths(ps [][]string, size int) [][][]string {
	var out [][][]string
	for len(ps) > size {
		out = append(out, ps[:size])
		ps = ps[size:]
	}
	if len(ps) > 0 {
		out = append(out, ps)
	}
	return out
}

func init() {
	register("packages", "C18: package member visibility through every route and alias (Packages.tla)", func(args []string) int {
		c := commonFlags("packages", args, nil)
		w := newWriter(c.out)
		defer w.close()
		if c.replay != "" {
			readLines(c.replay, func(line []byte) {
				pc := pkParseCase(line)
				pkRun(pc, true)
				w.write(pc)
			})
			return 0
		}
		idx := 0
		decoy := false
		only := os.Getenv("ZV_C18_ONLY")
		emit := func(id, mk string, root *pkNode, fill func(g *pkGen)) {
			mine := c.mine(idx)
			idx++
			if only != "" { // development aid: ZV_C18_ONLY=substring,substring
				hit := false
				for _, o := range strings.Split(only, ",") {
					hit = hit || strings.Contains(id, o)
				}
				if !hit {
					return
				}
			}
			if !mine {
				return
			}
			pkRenumber(root)
			g := &pkGen{root: root}
			fill(g)
			acc := "r"
			for _, ev := range g.evs {
				if ev.Op == "rel" {
					acc = "recv"
				} else if ev.Op == "in" && ev.Form != "" {
					acc = "dot"
				} else if ev.Op == "in" && ev.Mode != "rd" && acc == "r" {
					acc = ""
				}
			}
			pc := &pkCase{ID: id, Mk: mk, Decoy: decoy, Acc: acc, Tree: root.json(), Evs: g.evs, root: root}
			pkRun(pc, false)
			w.write(pc)
		}
		mks := []string{"def", "infixdef", "import", "source"}
		thorough := c.thorough()

		// (1) the full tree: every member kind x name class, packages nested to depth 3.
		// Through the plain name of the package every read route and every write
		// route is applied to every path; through the other alias kinds every
		// route and every alias prefix in the thorough tier, a rotation of 3 read
		// and 2 write routes per path in the quick tier (the 13 packages of the
		// tree repeat every member kind x name class, so every combination of
		// member, route and alias kind still occurs).
		treeOf := func(build func(b *pkBuilder) *pkNode) *pkNode { return build(&pkBuilder{}) }
		full := func() *pkNode { return treeOf(func(b *pkBuilder) *pkNode { return b.fullPkg(3, 1) }) }
		ftargets := full().allPaths()
		for _, kind := range pkAliasKinds {
			kind := kind
			for ci, ch := range chunkPaths(ftargets, 72) {
				ch := ch
				mk := "def"
				if kind == "direct" {
					mk = mks[ci%len(mks)]
				}
				every := thorough || kind == "direct"
				emit(fmt.Sprintf("full-%s-%d", kind, ci), mk, full(), func(g *pkGen) {
					g.accessEvents(ch, g.plans([]string{kind}, pkReadRoutes, every, thorough, 3),
						g.plans([]string{kind}, pkWriteRoutes, every, false, 2), every)
				})
			}
		}
		for mi, mk := range mks {
			emit(fmt.Sprintf("full-inside-%d", mi), mk, full(), func(g *pkGen) { g.insideEvents() })
		}
		// (1b) the code of the packages uses its own members through dot paths; once
		// more with globals named like the members
		for mi, mk := range []string{"def", "import"} {
			decoy = mi == 1
			emit(fmt.Sprintf("full-insidedot-%d", mi), mk, full(), func(g *pkGen) { g.insideDotEvents() })
		}
		decoy = false
		// (1c) a dot path written outside handed to code of the package as an argument
		// (arg-*) and inside data / from a callback (data-*): every package as the
		// owner, every path of at most 3 names below it; the quick tier rotates 2
		// argument routes and 2 data routes per path, in slices of the targets
		nslice := 3
		relMks := []string{"def", "import", "source"} // (the infix form of the full tree takes long to parse)
		for sl := 0; sl < nslice; sl++ {
			sl := sl
			filter := func(idx int) bool { return idx%nslice == sl }
			emit(fmt.Sprintf("full-relarg-%d", sl), relMks[sl%len(relMks)], full(), func(g *pkGen) {
				g.relEvents(pkArgRoutes, thorough, 2, 3, filter)
			})
			emit(fmt.Sprintf("full-reldata-%d", sl), relMks[(sl+1)%len(relMks)], full(), func(g *pkGen) {
				g.relEvents(pkDataRoutes, thorough, 2, 3, filter)
			})
		}
		// (1d) the dot path as one of several targets of an infix assignment: every
		// path, both positions, the alias kinds rotate (thorough: every alias kind)
		for ci, ch := range chunkPaths(ftargets, 160) {
			ch := ch
			emit(fmt.Sprintf("full-multi-%d", ci), "def", full(), func(g *pkGen) {
				g.accessEvents(ch, func(p []string) []pkPlan { return nil }, g.multiPlans(thorough), false)
			})
		}

		// (2) packages inside hashes inside packages; names shared by members and keys
		special := []struct {
			name  string
			build func(b *pkBuilder) *pkNode
		}{{"mixed", (*pkBuilder).mixedTree}, {"clash", (*pkBuilder).clashTree}}
		for _, sp := range special {
			sp := sp
			targets := treeOf(sp.build).allPaths()
			for _, kind := range pkAliasKinds {
				kind := kind
				for ci, ch := range chunkPaths(targets, 40) {
					ch := ch
					emit(fmt.Sprintf("%s-%s-%d", sp.name, kind, ci), "def", treeOf(sp.build), func(g *pkGen) {
						g.accessEvents(ch, g.plans([]string{kind}, pkReadRoutes, true, true, 0),
							g.plans([]string{kind}, pkWriteRoutes, true, thorough, 0), thorough)
					})
				}
			}
			emit(sp.name+"-inside", "def", treeOf(sp.build), func(g *pkGen) { g.insideEvents() })
			emit(sp.name+"-insidedot", "def", treeOf(sp.build), func(g *pkGen) { g.insideDotEvents() })
			decoy = true
			emit(sp.name+"-insidedot-decoy", "def", treeOf(sp.build), func(g *pkGen) { g.insideDotEvents() })
			decoy = false
			emit(sp.name+"-relarg", "def", treeOf(sp.build), func(g *pkGen) { g.relEvents(pkArgRoutes, true, 0, 4, nil) })
			emit(sp.name+"-reldata", "def", treeOf(sp.build), func(g *pkGen) { g.relEvents(pkDataRoutes, thorough, 3, 4, nil) })
			emit(sp.name+"-multi", "def", treeOf(sp.build), func(g *pkGen) {
				g.accessEvents(targets, func(p []string) []pkPlan { return nil }, g.multiPlans(thorough), false)
			})
		}

		// (3) seeded random trees: random names (also non-ASCII), member subsets,
		// hash shapes, packages inside hashes; random (alias, route) per target
		nrand := c.n
		if nrand == 0 {
			nrand = 120
			if thorough {
				nrand = 2000
			}
		}
		for i := 0; i < nrand; i++ {
			r := newRng(c.seed, uint64(1000+i))
			b := &pkBuilder{}
			root := b.randPkg(r, 1)
			mk := pick(r, mks)
			emit(fmt.Sprintf("rand-%d-%d", c.seed, i), mk, root, func(g *pkGen) {
				if i%4 == 3 {
					g.insideEvents()
				} else {
					g.accessEvents(root.allPaths(), g.plansRand(r, 4, pkReadRoutes), g.plansRand(r, 2, pkWriteRoutes), false)
				}
			})
		}
		// (3b) the same trees (every 8th) for the dot paths handed over as values, the
		// dot paths used by the code of the package, and the assignments to several targets
		for i := 0; i < nrand; i += 8 {
			newRoot := func() (*pkNode, *rng) {
				r := newRng(c.seed, uint64(1000+i))
				return (&pkBuilder{}).randPkg(r, 1), r
			}
			root, _ := newRoot()
			emit(fmt.Sprintf("rand-relarg-%d-%d", c.seed, i), "def", root, func(g *pkGen) { g.relEvents(pkArgRoutes, thorough, 1, 3, nil) })
			root, _ = newRoot()
			emit(fmt.Sprintf("rand-reldata-%d-%d", c.seed, i), "def", root, func(g *pkGen) { g.relEvents(pkDataRoutes, thorough, 1, 3, nil) })
			root, _ = newRoot()
			decoy = i%16 == 8
			emit(fmt.Sprintf("rand-insidedot-%d-%d", c.seed, i), "def", root, func(g *pkGen) { g.insideDotEvents() })
			decoy = false
			root, r := newRoot()
			emit(fmt.Sprintf("rand-multi-%d-%d", c.seed, i), "def", root, func(g *pkGen) {
				g.accessEvents(root.allPaths(), func(p []string) []pkPlan { return nil }, g.plansRand(r, 1, pkMultiRoutes), false)
			})
		}
		return 0
	})
}
