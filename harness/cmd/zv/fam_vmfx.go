package main

// Family "vmfx": the stack effect of every executed VM instruction.
//
// Bytecode.tla executes the real compiler's listings abstractly; what it
// assumes each instruction does to the data stack and to the scope stack is
// the table in VMEffects.tla. This family binds that table to the real VM:
// programs run with the step tracer installed, and for every instruction
// whose successor in the trace is the next instruction of the same function
// (so nothing else ran in between) the observed change of the two depths is
// recorded. The distinct (op, n, change) signatures are checked by TLC against
// VMEffects (EffectTrace.tla).

import (
	"encoding/json"
	"fmt"
	"os"
	"path/filepath"
	"sort"
	"strings"

	zygo "github.com/glycerine/zygomys/v9/zygo"
)

type fxSig struct {
	ID     string `json:"id"`
	Op     string `json:"op"`
	N      int    `json:"n"`
	Next   string `json:"next"`   // "seq" (pc+1) | "jump" (another pc of the same function)
	Before int    `json:"before"` // data depth before, capped at 3 (0 matters: pop tolerates an empty stack)
	DD     int    `json:"dd"`     // change of the data stack depth
	DS     int    `json:"ds"`     // change of the scope stack depth
	Count  int    `json:"count"`
	Text   string `json:"text"`  // the instruction as the VM prints it (first occurrence)
	Src    string `json:"src"`   // program it was first seen in
	Setup  string `json:"setup"` // "" | "tr" | "demo": what the interpreter was given before the program ran
}

type fxStep struct {
	fn   *zygo.SexpFunction
	pc   int
	d, s int
	a    int
	op   string
	n    int
	text string
	last bool // the last instruction of the function as it was then: what follows is a new chunk
}

type fxCollector struct {
	sigs      map[string]*fxSig
	lists     map[*zygo.SexpFunction]*zygo.VerifListing
	prev      *fxStep
	src       string
	nsteps    int
	setupName string
}

func (c *fxCollector) instr(fn *zygo.SexpFunction, pc int) (string, int, string) {
	l := c.lists[fn]
	if l == nil || pc >= len(l.Instrs) {
		l = fn.VerifListing()
		c.lists[fn] = l
	}
	if l == nil || pc < 0 || pc >= len(l.Instrs) {
		return "", 0, ""
	}
	in := l.Instrs[pc]
	return in.Op, in.N, in.Text
}

func (c *fxCollector) step(env *zygo.Zlisp, fn *zygo.SexpFunction, pc int, _ zygo.Instruction) {
	c.nsteps++
	d, s, a, _ := env.VerifDepths()
	op, n, text := c.instr(fn, pc)
	_, size, _ := env.VerifPC()
	cur := &fxStep{fn: fn, pc: pc, d: d, s: s, a: a, op: op, n: n, text: text, last: pc == size-1}
	p := c.prev
	c.prev = cur
	if p == nil || p.op == "" || p.fn != fn || p.a != a || p.last {
		return // another function, or a call/return happened in between
	}
	next := ""
	switch {
	case pc == p.pc+1:
		next = "seq"
	case p.op == "jump" || p.op == "goto" || p.op == "branch" || p.op == "break" || p.op == "continue":
		next = "jump"
	default:
		return
	}
	before := p.d
	if before > 3 {
		before = 3
	}
	nn := p.n
	switch p.op {
	case "jump", "goto", "branch":
		nn = 0 // the offset is not part of the effect
	}
	key := fmt.Sprintf("%s/%d/%s/%d/%d/%d", p.op, nn, next, before, d-p.d, s-p.s)
	if sg, ok := c.sigs[key]; ok {
		sg.Count++
		return
	}
	c.sigs[key] = &fxSig{Op: p.op, N: nn, Next: next, Before: before, DD: d - p.d, DS: s - p.s, Count: 1, Text: trunc(p.text, 80), Src: trunc(c.src, 6000), Setup: c.setupName}
}

func fxSetup(env *zygo.Zlisp, name string) {
	switch name {
	case "tr":
		env.AddFunction("tr", func(env *zygo.Zlisp, name string, a []zygo.Sexp) (zygo.Sexp, error) {
			if len(a) != 2 {
				return zygo.SexpNull, fmt.Errorf("tr: wrong number of arguments")
			}
			return a[1], nil
		})
		env.AddFunction("trace", func(env *zygo.Zlisp, name string, a []zygo.Sexp) (zygo.Sexp, error) { return zygo.SexpNull, nil })
	case "demo":
		env.ImportDemoData()
	}
}

func (c *fxCollector) run(text string, setup string) {
	env := zygo.NewZlisp()
	env.StandardSetup()
	fxSetup(env, setup)
	c.setupName = setup
	defer env.Close()
	c.src = text
	c.prev = nil
	c.lists = map[*zygo.SexpFunction]*zygo.VerifListing{}
	zygo.VerifTracer = c.step
	quiet(func() { evalSafe(env, text) })
	zygo.VerifTracer = nil
	c.prev = nil
}

func init() {
	register("vmfx", "C04/C09: observed stack effect of every executed VM instruction", func(args []string) int {
		c := commonFlags("vmfx", args, nil)
		w := newWriter(c.out)
		defer w.close()
		col := &fxCollector{sigs: map[string]*fxSig{}}
		if c.replay != "" {
			// re-run the program of every given signature; a signature seen again is written under its id
			readLines(c.replay, func(line []byte) {
				var in fxSig
				if err := json.Unmarshal(line, &in); err != nil {
					fatal("bad replay: %v", err)
				}
				one := &fxCollector{sigs: map[string]*fxSig{}}
				one.run(in.Src, in.Setup)
				for _, sg := range one.sigs {
					if sg.Op == in.Op && sg.N == in.N && sg.Next == in.Next && sg.Before == in.Before && sg.DD == in.DD && sg.DS == in.DS {
						sg.ID = in.ID
						w.write(sg)
					}
				}
			})
			return 0
		}
		idx := 0
		mine := func() bool { idx++; return c.mine(idx - 1) }
		// the catalogue of the full surface language
		for i, t := range sessionCatalogue {
			if mine() {
				col.run(asText(inst(t, 700000+i))+"\n", "")
			}
		}
		// generated core-language programs (values do not matter here, paths do)
		n := c.n
		if n == 0 {
			n = 400
			if c.thorough() {
				n = 6000
			}
		}
		slices := []string{"control", "loops", "calls", "data", "scoping", "mixed"}
		for i := 0; i < n; i++ {
			if !mine() {
				continue
			}
			r := newRng(c.seed, uint64(i)+4242)
			var prog []node
			if i%7 == 6 {
				prog = genHeapProgram(r)
			} else {
				prog = genProgram(r, semSlices[slices[i%len(slices)]], 2+r.intn(2))
			}
			text := renderProgram(prog, nil)
			if i%5 == 4 {
				text = renderInfixProgram(prog)
			}
			col.run(text, "tr")
		}
		// the script corpus (files that touch neither files, processes nor time)
		files, _ := filepath.Glob("/repo/tests/*.zy")
		sort.Strings(files)
		for _, f := range files {
			if !mine() {
				continue
			}
			b, err := os.ReadFile(f)
			if err != nil {
				continue
			}
			src := string(b)
			skip := false
			for _, wd := range []string{"system", "source", "slurp", "owrite", "import", "chan", "save", "sleep", "include", "readf", "stdin", "gob", "sys ", "setenv", "getenv", "req ", "timeit"} {
				if strings.Contains(src, wd) {
					skip = true
				}
			}
			if !skip {
				col.run(src, "demo")
			}
		}
		keys := make([]string, 0, len(col.sigs))
		for k := range col.sigs {
			keys = append(keys, k)
		}
		sort.Strings(keys)
		for i, k := range keys {
			sg := col.sigs[k]
			sg.ID = fmt.Sprintf("fx%d-%d", c.shard, i)
			w.write(sg)
		}
		fmt.Fprintf(os.Stderr, "vmfx: %d steps, %d signatures\n", col.nsteps, len(keys))
		return 0
	})
}
