package main

import (
	"bufio"
	"encoding/json"
	"flag"
	"fmt"
	"math"
	"os"
	"strconv"
	"strings"
	"time"

	zygo "github.com/glycerine/zygomys/v9/zygo"
)

// ---------------------------------------------------------------- flags

type common struct {
	out    string
	seed   int64
	tier   string
	shard  int
	nshard int
	replay string
	n      int
	in     string
	fs     *flag.FlagSet
}

func commonFlags(name string, args []string, extra func(fs *flag.FlagSet)) *common {
	c := &common{}
	fs := flag.NewFlagSet(name, flag.ExitOnError)
	fs.StringVar(&c.out, "out", "", "ndjson output file")
	fs.Int64Var(&c.seed, "seed", 1, "seed")
	fs.StringVar(&c.tier, "tier", "quick", "quick|thorough")
	fs.IntVar(&c.shard, "shard", 0, "shard index")
	fs.IntVar(&c.nshard, "nshard", 1, "number of shards")
	fs.StringVar(&c.replay, "replay", "", "replay file (a single case)")
	fs.IntVar(&c.n, "n", 0, "number of random cases (0: tier default)")
	fs.StringVar(&c.in, "in", "", "ndjson input (vectors)")
	if extra != nil {
		extra(fs)
	}
	fs.Parse(args)
	c.fs = fs
	return c
}

func (c *common) thorough() bool { return c.tier == "thorough" }

// mine reports whether case index i belongs to this shard.
func (c *common) mine(i int) bool {
	if c.nshard <= 1 {
		return true
	}
	return i%c.nshard == c.shard
}

// ---------------------------------------------------------------- ndjson

type ndWriter struct {
	f *os.File
	w *bufio.Writer
	n int
}

func newWriter(path string) *ndWriter {
	if path == "" || path == "-" {
		return &ndWriter{f: os.Stdout, w: bufio.NewWriterSize(os.Stdout, 1<<20)}
	}
	f, err := os.Create(path)
	if err != nil {
		fatal("create %s: %v", path, err)
	}
	return &ndWriter{f: f, w: bufio.NewWriterSize(f, 1<<20)}
}

func (w *ndWriter) write(v any) {
	b, err := json.Marshal(v)
	if err != nil {
		fatal("marshal: %v", err)
	}
	w.w.Write(b)
	w.w.WriteByte('\n')
	w.n++
}

func (w *ndWriter) close() {
	w.w.Flush()
	if w.f != os.Stdout {
		w.f.Close()
	}
}

func readLines(path string, fn func(line []byte)) {
	f, err := os.Open(path)
	if err != nil {
		fatal("open %s: %v", path, err)
	}
	defer f.Close()
	sc := bufio.NewScanner(f)
	sc.Buffer(make([]byte, 1<<20), 1<<26)
	for sc.Scan() {
		b := sc.Bytes()
		if len(strings.TrimSpace(string(b))) == 0 {
			continue
		}
		cp := make([]byte, len(b))
		copy(cp, b)
		fn(cp)
	}
}

func fatal(format string, a ...any) {
	fmt.Fprintf(os.Stderr, "zv: "+format+"\n", a...)
	os.Exit(2)
}

// ---------------------------------------------------------------- rng

// rng is splitmix64: deterministic given the seed, independent of Go version.
type rng struct{ s uint64 }

func newRng(seed int64, stream uint64) *rng {
	r := &rng{s: uint64(seed)*0x9E3779B97F4A7C15 + stream*0xD1B54A32D192ED03 + 0x1234567}
	r.next()
	return r
}
func (r *rng) next() uint64 {
	r.s += 0x9E3779B97F4A7C15
	z := r.s
	z = (z ^ (z >> 30)) * 0xBF58476D1CE4E5B9
	z = (z ^ (z >> 27)) * 0x94D049BB133111EB
	return z ^ (z >> 31)
}
func (r *rng) intn(n int) int {
	if n <= 0 {
		return 0
	}
	return int(r.next() % uint64(n))
}
func (r *rng) bool() bool          { return r.next()&1 == 1 }
func pick[T any](r *rng, xs []T) T { return xs[r.intn(len(xs))] }

// hashSel selects index i with probability num/den, deterministically from seed.
func hashSel(seed int64, i int, num, den int) bool {
	r := newRng(seed, uint64(i)+77)
	return int(r.next()%uint64(den)) < num
}

// ---------------------------------------------------------------- interpreter

const defaultBudget = 300000

// outcome of one API call, as observed by the Go caller.
type outcome struct {
	Kind string // "val" | "err" | "panic" | "budget" | "nilres"
	Val  zygo.Sexp
	Err  string
}

// evalSafe evaluates text, recovering panics that escape the library.
// evalSafe evaluates text with the step budget armed and a wall-clock limit: when the limit
// passes, the budget is set to zero so that the evaluation stops at its next VM step.
func evalSafe(env *zygo.Zlisp, text string) outcome {
	done := make(chan outcome, 1)
	go func() { done <- evalSafe1(env, text) }()
	select {
	case o := <-done:
		return o
	case <-time.After(wallLimit):
		zygo.VerifSetBudget(0)
		select {
		case <-done:
		case <-time.After(2 * wallLimit):
		}
		zygo.VerifSetBudget(-1)
		return outcome{Kind: "budget", Err: "verif: step budget exhausted (wall clock)"}
	}
}

const wallLimit = 40 * time.Second

func evalSafe1(env *zygo.Zlisp, text string) (o outcome) {
	zygo.VerifSetBudget(defaultBudget)
	defer zygo.VerifSetBudget(-1)
	defer func() {
		if r := recover(); r != nil {
			o = outcome{Kind: "panic", Err: fmt.Sprint(r)}
		}
	}()
	v, err := env.EvalString(text)
	if err != nil {
		if strings.Contains(err.Error(), "verif: step budget exhausted") {
			return outcome{Kind: "budget", Err: err.Error()}
		}
		return outcome{Kind: "err", Err: err.Error()}
	}
	if v == nil {
		return outcome{Kind: "nilres"}
	}
	return outcome{Kind: "val", Val: v}
}

// errClass maps an error message onto a coarse class by stable substrings.
func errClass(msg string) string {
	switch {
	case strings.Contains(msg, "verif: step budget"):
		return "budget"
	case strings.Contains(msg, "not found") && strings.Contains(msg, "symbol"):
		return "unbound"
	case strings.Contains(msg, "arguments, got") || strings.Contains(msg, "wrong number of arguments") || strings.Contains(msg, "Expected >"):
		return "arity"
	case strings.Contains(msg, "Assertion failed"):
		return "assert"
	case strings.Contains(msg, "Error generating") || strings.Contains(msg, "missing default case"):
		return "compile"
	case strings.Contains(msg, "Error on line"):
		return "parse"
	case strings.Contains(msg, "not a function"):
		return "notfn"
	case strings.Contains(msg, "out of bounds") || strings.Contains(msg, "out of range"):
		return "index"
	case strings.Contains(msg, "invalid type") || strings.Contains(msg, "cannot assign") || strings.Contains(msg, "must be") || strings.Contains(msg, "cannot"):
		return "type"
	}
	return "other"
}

// projOutcome renders an outcome as a tagged value for the trace.
func projOutcome(env *zygo.Zlisp, o outcome) any {
	switch o.Kind {
	case "val":
		return []any{"val", proj(env, o.Val, 0)}
	case "err":
		return []any{"err", errClass(o.Err)}
	case "panic":
		return []any{"panic", trunc(o.Err, 200)}
	case "budget":
		return []any{"budget"}
	}
	return []any{o.Kind}
}

func trunc(s string, n int) string {
	if len(s) > n {
		return s[:n]
	}
	return s
}

// proj projects a zygomys value onto the abstract value domain shared with the
// TLA+ specifications (module ZValues): tagged tuples, so that TLC never
// compares values of different kinds.
func proj(env *zygo.Zlisp, x zygo.Sexp, depth int) any {
	if depth > 12 {
		return []any{"deep"}
	}
	switch v := x.(type) {
	case nil:
		return []any{"gonil"}
	case *zygo.SexpSentinel:
		if v == zygo.SexpNull {
			return []any{"nil"}
		}
		if v == zygo.SexpEnd {
			return []any{"end"}
		}
		return []any{"marker"}
	case *zygo.SexpInt:
		return projInt(v.Val)
	case *zygo.SexpUint64:
		return []any{"uint", strconv.FormatUint(v.Val, 10)}
	case *zygo.SexpBool:
		return []any{"bool", v.Val}
	case *zygo.SexpFloat:
		return []any{"flt", fmtFloat(v.Val)}
	case *zygo.SexpChar:
		return []any{"chr", int64(v.Val)}
	case *zygo.SexpStr:
		return []any{"str", v.S}
	case *zygo.SexpSymbol:
		return []any{"sym", v.Name()}
	case *zygo.SexpPair:
		elems := []any{}
		var cur zygo.Sexp = v
		n := 0
		for {
			p, ok := cur.(*zygo.SexpPair)
			if !ok {
				break
			}
			elems = append(elems, proj(env, p.Head, depth+1))
			cur = p.Tail
			n++
			if n > 10000 {
				break
			}
		}
		if cur != zygo.SexpNull {
			return []any{"dotted", elems, proj(env, cur, depth+1)}
		}
		return []any{"list", elems}
	case *zygo.SexpArray:
		elems := []any{}
		for _, e := range v.Val {
			elems = append(elems, proj(env, e, depth+1))
		}
		return []any{"arr", elems}
	case *zygo.SexpHash:
		return projHash(env, v, depth)
	case *zygo.SexpFunction:
		return []any{"fn", v.VerifName()}
	case *zygo.SexpRaw:
		return []any{"raw", string(v.Val)}
	case *zygo.SexpError:
		return []any{"errval", v.Error()}
	}
	return []any{"other", fmt.Sprintf("%T", x)}
}

func projInt(n int64) any {
	if n >= -(1<<30) && n <= (1<<30) {
		return []any{"int", n}
	}
	return []any{"bigint", strconv.FormatInt(n, 10)}
}

func fmtFloat(f float64) string {
	if math.IsNaN(f) {
		return "NaN"
	}
	return strconv.FormatFloat(f, 'g', -1, 64)
}

// projHash lists the live pairs in KeyOrder order (what range/keys/str present).
func projHash(env *zygo.Zlisp, h *zygo.SexpHash, depth int) any {
	pairs := []any{}
	for _, k := range h.KeyOrder {
		v, err := h.HashGet(env, k)
		if err != nil {
			pairs = append(pairs, []any{proj(env, k, depth+1), []any{"missing"}})
			continue
		}
		pairs = append(pairs, []any{proj(env, k, depth+1), proj(env, v, depth+1)})
	}
	return []any{"hash", h.TypeName, pairs}
}

func depthsOf(env *zygo.Zlisp) []int {
	d, s, a, l := env.VerifDepths()
	return []int{d, s, a, l}
}
