package main

// Family "fault" (C05): programs with (fail) host calls; for every k the k-th
// call fails (script error or Go panic inside the builtin); also a parse error
// or a compile error appended to the text. After the failed evaluation: the
// error, the stack depths, and a battery of follow-up evaluations are recorded
// and validated by TLC against the reference semantics (spec/FaultTrace.tla).

import (
	"encoding/json"
	"fmt"
	"sort"

	zygo "github.com/glycerine/zygomys/v9/zygo"
)

type faultCase struct {
	ID      string `json:"id"`
	Prog    []any  `json:"prog"`
	Text    string `json:"text"`
	Kind    string `json:"kind"` // script | gopanic | parse | compile | none
	FailAt  int    `json:"failAt"`
	Out     any    `json:"out"`
	Fx      []any  `json:"fx"`
	Dep     []int  `json:"depths"`
	Battery []any  `json:"battery"` // the follow-up forms (ASTs)
	BOut    []any  `json:"bout"`    // [out, fx] per follow-up form
	BDep    []int  `json:"bdepths"` // depths after the battery
	NCalls  int    `json:"ncalls"`
	Err     string `json:"errtext,omitempty"`
}

type faultEnv struct {
	*semEnv
	calls  int
	failAt int
	kind   string
}

func newFaultEnv(failAt int, kind string) *faultEnv {
	fe := &faultEnv{semEnv: newSemEnv(), failAt: failAt, kind: kind}
	fe.env.ImportEval()
	fe.env.AddFunction("fail", func(env *zygo.Zlisp, name string, args []zygo.Sexp) (zygo.Sexp, error) {
		fe.calls++
		if fe.calls == fe.failAt {
			fe.failAt = 0 // one failure per case
			if fe.kind == "gopanic" {
				panic("injected Go panic inside a builtin")
			}
			return zygo.SexpNull, fmt.Errorf("injected failure")
		}
		return &zygo.SexpInt{Val: int64(fe.calls)}, nil
	})
	return fe
}

func (fe *faultEnv) eval(text string) (any, []any, string) {
	fe.fx = nil
	o := evalSafe(fe.env, text)
	var out any
	if o.Kind == "val" {
		out = []any{"val", obsProj(fe.env, o.Val)}
	} else {
		out = projOutcome(fe.env, o)
	}
	fx := fe.fx
	if fx == nil {
		fx = []any{}
	}
	return out, fx, trunc(o.Err, 160)
}

// names bound anywhere in the program (def/set/defn/let/params are all candidates)
func boundNames(x any, into map[string]bool, fns map[string]int) {
	v, ok := x.([]any)
	if !ok || len(v) == 0 {
		return
	}
	if h, ok := v[0].(string); ok {
		switch h {
		case "def", "set":
			into[v[1].(string)] = true
		case "defn":
			fns[v[1].(string)] = len(asSeq(v[2]))
		}
	}
	for _, y := range v {
		boundNames(y, into, fns)
	}
}

func battery(prog []node) []node {
	vars, fns := map[string]bool{}, map[string]int{}
	for _, f := range prog {
		boundNames(f, vars, fns)
	}
	var names []string
	for n := range vars {
		names = append(names, n)
	}
	sort.Strings(names)
	var b []node
	for _, n := range names {
		b = append(b, nSym(n))
	}
	var fnames []string
	for n := range fns {
		fnames = append(fnames, n)
	}
	sort.Strings(fnames)
	for _, n := range fnames {
		var args []node
		for i := 0; i < fns[n]; i++ {
			args = append(args, nInt(1))
		}
		b = append(b, nApp("tr", nInt(900), nCall(nSym(n), args...)))
	}
	if vars["th"] {
		// a thunk that survived the failed evaluation: forcing it again evaluates again
		b = append(b, nApp("tr", nInt(903), nCall(nSym("th"))), nApp("tr", nInt(904), nCall(nSym("th"))))
	}
	b = append(b,
		// a jump outside any loop is refused when the text is compiled: nothing of the text runs
		nBegin(nDef("marker", nInt(1)), nBreak("")),
		nSym("marker"),
		nBegin(nDef("marker2", nInt(2)), nContinue("outer")),
		nSym("marker2"),
		nApp("+", nInt(1), nInt(2)),
		nLet("let", []bind{{"bq", nInt(1)}}, nApp("tr", nInt(901), nSym("bq"))),
		nFor("", nDef("bi", nInt(0)), nApp("<", nSym("bi"), nInt(2)), nDef("bi", nApp("+", nSym("bi"), nInt(1))), nApp("tr", nInt(902), nSym("bi"))),
		nDef("bzz", nApp("fail")),
		nSym("bzz"),
		nDefn("bf", strict("a"), "", nApp("+", nSym("a"), nInt(1))),
		nCall(nSym("bf"), nInt(4)),
	)
	return b
}

func runFault(id string, prog []node, text, kind string, failAt int) faultCase {
	fe := newFaultEnv(failAt, kind)
	c := faultCase{ID: id, Text: text, Kind: kind, FailAt: failAt}
	for _, f := range prog {
		c.Prog = append(c.Prog, f)
	}
	c.Out, c.Fx, c.Err = fe.eval(text)
	c.Dep = depthsOf(fe.env)
	c.NCalls = fe.calls
	for _, b := range battery(prog) {
		c.Battery = append(c.Battery, b)
		out, fx, _ := fe.eval(renderProgram([]node{b}, nil))
		c.BOut = append(c.BOut, []any{out, fx})
	}
	c.BDep = depthsOf(fe.env)
	return c
}

// contexts in which a failure can be raised
func faultContexts(r *rng, c *genCtx, d int) []node {
	e := func() node { return nApp("+", nApp("fail"), c.arg().intExpr(d)) }
	return []node{
		nDefn("cf", strict("a"), "", nApp("tr", nInt(800), nSym("a")), e()),
		nCall(nSym("cf"), nApp("fail")),
		nFor("", nDef("ci", nInt(0)), nApp("<", nSym("ci"), nInt(2)), nDef("ci", nApp("+", nSym("ci"), nInt(1))), nDef("inloop", e())),
		nLet("let", []bind{{"lq", e()}}, nDef("inlet", nSym("lq"))),
		nDef("viamap", nApp("map", nFn(strict("a"), "", e()), nArr(nInt(1), nInt(2)))),
		nDef("viaapply", nApp("apply", nFn(strict("a", "b"), "", e()), nArr(nInt(1), nInt(2)))),
		nDefn("lz", []param{{"#x", true}}, "", nApp("tr", nInt(801), nInt(0)), nApp("force", nSym("#x"))),
		nDef("vialazy", nCall(nSym("lz"), e())),
		nDef("viaeval", nEval(e())),
		nScope(nDef("inscope", e()), nSet("inscope", nApp("fail"))),
		nDefn("mkth", []param{{"#x", true}}, "", nFn(nil, "", nApp("force", nSym("#x")))),
		nDef("th", nCall(nSym("mkth"), e())),
		nDef("forced", nCall(nSym("th"))),
		nDef("after", nInt(7)),
	}
}

func init() {
	register("fault", "C05: every failure point of programs with (fail) host calls; follow-up battery", func(args []string) int {
		c := commonFlags("fault", args, nil)
		w := newWriter(c.out)
		defer w.close()
		if c.replay != "" {
			readLines(c.replay, func(line []byte) {
				var in faultCase
				if err := json.Unmarshal(line, &in); err != nil {
					fatal("bad replay: %v", err)
				}
				prog := make([]node, len(in.Prog))
				for i := range in.Prog {
					prog[i] = asNode(in.Prog[i])
				}
				w.write(runFault(in.ID, prog, in.Text, in.Kind, in.FailAt))
			})
			return 0
		}
		n := c.n
		if n == 0 {
			n = 160
			if c.thorough() {
				n = 4000
			}
		}
		idx := 0
		for i := 0; i < n; i++ {
			r := newRng(c.seed, uint64(i)+4242)
			prog := genProgramF(r, semSlices["mixed"], 1+r.intn(2), true)
			// splice in some of the failure contexts
			k, ns := 1000, 1000
			gc := &genCtx{r: r, k: &k, nameSeq: &ns, w: semSlices["control"], faults: true, vars: []string{}}
			ctxs := faultContexts(r, gc, 1)
			nctx := 2 + r.intn(4)
			for j := 0; j < nctx; j++ {
				pos := r.intn(len(prog) + 1)
				cx := ctxs[r.intn(len(ctxs))]
				if cx[0] == "call" && asNode(cx[1])[1] == "cf" {
					prog = append(prog, ctxs[0])
					pos = len(prog)
				}
				if cx[0] == "def" && cx[1] == "vialazy" {
					prog = append([]node{ctxs[6]}, prog...)
					pos++
				}
				if cx[0] == "def" && (cx[1] == "th" || cx[1] == "forced") {
					// mkth, th and the first force, in this order
					prog = append(prog[:pos], append([]node{ctxs[10], ctxs[11], ctxs[12]}, prog[pos:]...)...)
					continue
				}
				if cx[0] == "defn" && cx[1] == "mkth" {
					continue
				}
				prog = append(prog[:pos], append([]node{cx}, prog[pos:]...)...)
			}
			text := renderProgram(prog, nil)
			// unarmed run: how many failure points are there?
			base := runFault("probe", prog, text, "none", 0)
			ncalls := base.NCalls
			if ncalls > 14 {
				ncalls = 14
			}
			emit := func(kind string, k int, txt string) {
				if c.mine(idx) {
					w.write(runFault(fmt.Sprintf("f%d-%d-%s-%d", c.seed, i, kind, k), prog, txt, kind, k))
				}
				idx++
			}
			emit("none", 0, text)
			for k := 1; k <= ncalls; k++ {
				kind := "script"
				if (k+i)%2 == 0 {
					kind = "gopanic"
				}
				emit(kind, k, text)
			}
			emit("parse", 0, text+"(def late 1) (((\n")
			emit("parse", 0, text+")\n")
			emit("compile", 0, text+"(cond 1 2)\n")
			emit("compile", 0, "(def early 1)\n(fn [])\n"+text)
			// a compile error inside a loop (a labelled one, too): the loop record must not survive
			emit("compile", 0, text+"(for [(def ci 0) (< ci 1) (def ci (+ ci 1))] (cond 1 2))\n")
			emit("compile", 0, text+"(for outer: [(def ci 0) (< ci 1) (def ci (+ ci 1))] (let [q 1] (fn [])))\n")
		}
		return 0
	})
}
