package main

// Family "tail" (C09): self-recursive function shapes over every tail-position
// context. mode=sem: small depths with traced effects, validated against the
// reference semantics (which has no tail-call optimisation); mode=space: large
// depths, high-water marks of the VM stacks sampled at every VM step.

import (
	"encoding/json"
	"flag"
	"fmt"

	zygo "github.com/glycerine/zygomys/v9/zygo"
)

// tail contexts: each wraps an expression e that stays in tail position
type tailWrap struct {
	name string
	mk   func(e node, pre node) node
}

var tailWraps = []tailWrap{
	{"cond-arm", func(e, pre node) node { return nCond([]clause{{nInt(1), e}}, nInt(77)) }},
	{"cond-default", func(e, pre node) node { return nCond([]clause{{nInt(0), nInt(77)}}, e) }},
	{"begin", func(e, pre node) node { return nBegin(pre, e) }},
	{"let", func(e, pre node) node { return nLet("let", []bind{{"m", pre}}, e) }},
	{"letseq", func(e, pre node) node { return nLet("letseq", []bind{{"m", pre}, {"m2", nSym("m")}}, e) }},
	{"scope", func(e, pre node) node { return nScope(pre, e) }},
	{"cond-selftest", func(e, pre node) node { return nCond([]clause{{nCall(nSym("f"), nInt(0), nInt(1)), e}}, nInt(77)) }},
	{"and", func(e, pre node) node { return nAnd(nInt(1), e) }},
	{"or", func(e, pre node) node { return nOr(nNil(), e) }},
}

// features of the body before the tail call (pre is an expression evaluated for effect/value)
type tailFeat struct {
	name    string
	pre     func(traced bool, k *int) node
	closure bool        // acc collects closures
	next    func() node // the accumulator argument of the tail call (default: (+ acc 1))
}

func trOr(traced bool, k *int, e node) node {
	if !traced {
		return e
	}
	*k++
	return nApp("tr", nInt(*k), e)
}

var tailFeats = []tailFeat{
	{"plain", func(t bool, k *int) node { return trOr(t, k, nSym("n")) }, false, nil},
	{"local", func(t bool, k *int) node { return nDef("loc", trOr(t, k, nApp("+", nSym("n"), nInt(1)))) }, false, nil},
	{"scope", func(t bool, k *int) node { return nScope(nDef("inner", nSym("n")), trOr(t, k, nSym("inner"))) }, false, nil},
	{"nontail-self", func(t bool, k *int) node {
		return trOr(t, k, nApp("+", nInt(1), nCall(nSym("f"), nInt(0), nSym("acc"))))
	}, false, nil},
	{"closure", func(t bool, k *int) node { return nDef("c", nFn(nil, "", nSym("n"))) }, true, nil},
	// a self call that is (part of) an ARGUMENT of the tail self call is not itself in tail position:
	// (f 0 x) returns x, so the value is that of the plain shape
	{"selfarg", func(t bool, k *int) node { return trOr(t, k, nSym("n")) }, false,
		func() node { return nCall(nSym("f"), nInt(0), nApp("+", nSym("acc"), nInt(1))) }},
	{"selfarg-let", func(t bool, k *int) node { return trOr(t, k, nSym("n")) }, false,
		func() node {
			return nLet("let", []bind{{"z", nInt(1)}}, nCall(nSym("f"), nInt(0), nApp("+", nSym("acc"), nSym("z"))))
		}},
	{"selfarg-cond", func(t bool, k *int) node { return trOr(t, k, nSym("n")) }, false,
		func() node {
			return nCond([]clause{{nApp("==", nSym("n"), nInt(1)), nCall(nSym("f"), nInt(0), nApp("+", nSym("acc"), nInt(1)))}},
				nBegin(nInt(5), nCall(nSym("f"), nInt(0), nApp("+", nSym("acc"), nInt(1)))))
		}},
	{"selfarg-and", func(t bool, k *int) node { return trOr(t, k, nSym("n")) }, false,
		func() node { return nAnd(nInt(1), nCall(nSym("f"), nInt(0), nApp("+", nSym("acc"), nInt(1)))) }},
}

type tailShape struct {
	id    string
	wraps []int
	feat  int
}

func enumTailShapes(maxDepth int) []tailShape {
	var out []tailShape
	var rec func(prefix []int)
	rec = func(prefix []int) {
		if len(prefix) > 0 {
			for f := range tailFeats {
				id := ""
				for _, w := range prefix {
					id += tailWraps[w].name + "/"
				}
				out = append(out, tailShape{id + tailFeats[f].name, append([]int(nil), prefix...), f})
			}
		}
		if len(prefix) == maxDepth {
			return
		}
		for w := range tailWraps {
			rec(append(append([]int(nil), prefix...), w))
		}
	}
	rec(nil)
	return out
}

// build: (defn f [n acc] (cond (<= n 0) acc WRAPS(call)))
func (s tailShape) build(traced bool) node {
	k := 0
	feat := tailFeats[s.feat]
	var next node
	if feat.closure {
		next = nApp("append", nSym("acc"), nFn(nil, "", nSym("n")))
	} else if feat.next != nil {
		next = feat.next()
	} else {
		next = nApp("+", nSym("acc"), nInt(1))
	}
	e := nCall(nSym("f"), nApp("-", nSym("n"), nInt(1)), next)
	for i := len(s.wraps) - 1; i >= 0; i-- {
		e = tailWraps[s.wraps[i]].mk(e, feat.pre(traced, &k))
	}
	return nDefn("f", strict("n", "acc"), "", nCond([]clause{{nApp("<=", nSym("n"), nInt(0)), nSym("acc")}}, e))
}

type spaceRun struct {
	N   int   `json:"n"`
	Out any   `json:"out"`
	HW  []int `json:"hw"` // high-water marks: data, scope, addr
}

type spaceCase struct {
	ID      string     `json:"id"`
	Text    string     `json:"text"`
	Shape   string     `json:"shape"`
	Runs    []spaceRun `json:"runs"`
	Prelude int        `json:"prelude"`
}

// What the interpreter has seen under the name f before the function under test is defined:
// 0 nothing; 1 a one-parameter f earlier in the same text; 2 a three-parameter helper f local to another
// function of the same text; 3 an f with a lazy parameter in an earlier evaluation (a reload);
// 4 a variadic f earlier in the same text
const nPreludes = 5

func tailPrelude(kind int) (sameText []node, earlier string) {
	switch kind {
	case 1:
		return []node{nDefn("f", strict("a"), "", nSym("a"))}, ""
	case 2:
		return []node{nDefn("other", nil, "", nDefn("f", strict("a", "b", "c"), "", nCond([]clause{{nApp("<=", nSym("a"), nInt(0)), nSym("b")}},
			nCall(nSym("f"), nApp("-", nSym("a"), nInt(1)), nSym("b"), nSym("c")))), nCall(nSym("f"), nInt(1), nInt(2), nInt(3))),
			nCall(nSym("other"))}, ""
	case 3:
		return nil, "(defn f [#a b] b)\n(f 1 2)\n"
	case 4:
		return []node{nDefn("f", strict("n"), "acc", nSym("n"))}, ""
	}
	return nil, ""
}

func runSpace(id string, sh tailShape, ns []int, prelude int) spaceCase {
	def := sh.build(false)
	pre, earlier := tailPrelude(prelude)
	text := renderProgram(append(pre, def), nil)
	c := spaceCase{ID: id, Text: earlier + text, Shape: sh.id, Prelude: prelude}
	for _, n := range ns {
		se := newSemEnv()
		if earlier != "" {
			evalSafe(se.env, earlier)
		}
		o := evalSafe(se.env, text)
		if o.Kind != "val" {
			c.Runs = append(c.Runs, spaceRun{N: n, Out: projOutcome(se.env, o)})
			continue
		}
		hw := []int{0, 0, 0}
		zygo.VerifTracer = func(env *zygo.Zlisp, fn *zygo.SexpFunction, pc int, instr zygo.Instruction) {
			d, s, a, _ := env.VerifDepths()
			if d > hw[0] {
				hw[0] = d
			}
			if s > hw[1] {
				hw[1] = s
			}
			if a > hw[2] {
				hw[2] = a
			}
		}
		call := fmt.Sprintf("(f %d 0)\n", n)
		if tailFeats[sh.feat].closure {
			call = fmt.Sprintf("(len (f %d []))\n", n)
		}
		zygo.VerifSetBudget(int64(n)*400 + 100000)
		var out outcome
		func() {
			defer func() {
				if r := recover(); r != nil {
					out = outcome{Kind: "panic", Err: fmt.Sprint(r)}
				}
			}()
			v, err := se.env.EvalString(call)
			if err != nil {
				out = outcome{Kind: "err", Err: err.Error()}
				if err.Error() == zygo.ErrVerifBudget.Error() {
					out.Kind = "budget"
				}
			} else {
				out = outcome{Kind: "val", Val: v}
			}
		}()
		zygo.VerifSetBudget(-1)
		zygo.VerifTracer = nil
		var po any
		if out.Kind == "val" {
			po = []any{"val", obsProj(se.env, out.Val)}
		} else {
			po = projOutcome(se.env, out)
		}
		c.Runs = append(c.Runs, spaceRun{N: n, Out: po, HW: hw})
	}
	return c
}

func init() {
	register("tail", "C09: tail-call shapes (mode sem: vs reference semantics; mode space: high-water marks)", func(args []string) int {
		var mode string
		c := commonFlags("tail", args, func(fs *flag.FlagSet) { fs.StringVar(&mode, "mode", "sem", "sem|space") })
		w := newWriter(c.out)
		defer w.close()
		depth := 2
		if c.thorough() {
			depth = 3
		}
		if c.replay != "" {
			readLines(c.replay, func(line []byte) {
				if mode == "sem" {
					var in semCase
					if err := json.Unmarshal(line, &in); err != nil {
						fatal("bad replay: %v", err)
					}
					prog := make([]node, len(in.Prog))
					for i := range in.Prog {
						prog[i] = asNode(in.Prog[i])
					}
					w.write(runSem(in.ID, in.Slice, prog, in.Text))
					return
				}
				var in spaceCase
				if err := json.Unmarshal(line, &in); err != nil {
					fatal("bad replay: %v", err)
				}
				for _, sh := range enumTailShapes(3) {
					if sh.id == in.Shape {
						var ns []int
						for _, r := range in.Runs {
							ns = append(ns, r.N)
						}
						w.write(runSpace(in.ID, sh, ns, in.Prelude))
					}
				}
			})
			return 0
		}
		shapes := enumTailShapes(depth)
		idx := 0
		if mode == "sem" {
			// the name of the running function re-bound to ANOTHER closure made from the same definition:
			// the call in tail position is then not a self call (the two closures captured different k)
			ctxs := []func(e node) node{
				func(e node) node { return e },
				func(e node) node { return nLet("let", []bind{{"z", nInt(1)}}, e) },
				func(e node) node { return nBegin(nApp("tr", nInt(7), nSym("n")), e) },
				func(e node) node { return nScope(e) },
				func(e node) node { return nAnd(nInt(1), e) },
			}
			for ci, ctx := range ctxs {
				for rb := 0; rb < 2; rb++ {
					for n := 0; n <= 3; n += 3 {
						if !c.mine(idx) {
							idx++
							continue
						}
						inner := nDefn("f", strict("n"), "", nCond([]clause{{nApp("==", nSym("n"), nInt(0)), nApp("tr", nInt(1), nSym("k"))}},
							ctx(nCall(nSym("f"), nApp("-", nSym("n"), nInt(1))))))
						rebind := nSet("f", nSym("other"))
						if rb == 1 {
							rebind = nDef("f", nSym("other"))
						}
						mk := nDefn("mk", strict("k", "other"), "", inner,
							nLet("let", []bind{{"me", nSym("f")}}, nCond([]clause{{nApp("not", nApp("null?", nSym("other"))), rebind}}, nNil()), nSym("me")))
						if rb == 1 {
							// def inside the let would bind the let's own scope: re-bind before the let instead
							mk = nDefn("mk", strict("k", "other"), "", inner, nDef("me", nSym("f")),
								nCond([]clause{{nApp("not", nApp("null?", nSym("other"))), rebind}}, nNil()), nSym("me"))
						}
						prog := []node{mk, nDef("f1", nCall(nSym("mk"), nInt(1), nNil())), nDef("f2", nCall(nSym("mk"), nInt(2), nSym("f1"))),
							nApp("list", nCall(nSym("f2"), nInt(n)), nCall(nSym("f1"), nInt(n)))}
						w.write(runSem(fmt.Sprintf("tail-instance-%d-%d-%d", ci, rb, n), "tail:instance", prog, renderProgram(prog, nil)))
						idx++
					}
				}
			}
		}
		for si, sh := range shapes {
			if mode == "sem" {
				for n := 0; n <= 3; n++ {
					if !c.mine(idx) {
						idx++
						continue
					}
					def := sh.build(true)
					var call node
					if tailFeats[sh.feat].closure {
						// what closures created in earlier iterations observe afterwards
						call = nApp("map", nFn(strict("g"), "", nCall(nSym("g"))), nCall(nSym("f"), nInt(n), nArr()))
					} else {
						call = nCall(nSym("f"), nInt(n), nInt(0))
					}
					prog := []node{def, call}
					w.write(runSem(fmt.Sprintf("tail-%d-%d", si, n), "tail:"+sh.id, prog, renderProgram(prog, nil)))
					idx++
					if n == 2 && len(sh.wraps) == 1 && tailFeats[sh.feat].next == nil {
						for _, pk := range []int{1, 2, 4} {
							pre, _ := tailPrelude(pk)
							prog := append(append([]node{}, pre...), def, call)
							w.write(runSem(fmt.Sprintf("tail-%d-%d-p%d", si, n, pk), "tail:"+sh.id, prog, renderProgram(prog, nil)))
						}
					}
				}
				continue
			}
			if !c.thorough() && tailFeats[sh.feat].next != nil && len(sh.wraps) > 1 {
				continue // quick tier: the self-call-in-argument features under one wrap only (the value half has them all)
			}
			if c.thorough() && len(sh.wraps) > 2 && sh.feat != 0 && !tailFeats[sh.feat].closure && !hashSel(c.seed, si, 1, 6) {
				continue // thorough tier: three wraps deep for the plain and the closure feature, a seeded sixth of the others
			}
			ns := []int{10, 100, 1000}
			if c.thorough() {
				ns = []int{10, 100, 1000, 10000}
				if si%50 == 0 {
					ns = append(ns, 100000)
				}
			} else if si%40 == 0 {
				ns = append(ns, 10000)
			}
			if tailFeats[sh.feat].closure {
				ns = []int{10, 100, 1000} // acc grows with n by design
			}
			if c.mine(idx) {
				w.write(runSpace(fmt.Sprintf("space-%d", si), sh, ns, 0))
			}
			idx++
			// the same function defined after the name f was used for something else
			if tailFeats[sh.feat].next == nil && ((c.thorough() && len(sh.wraps) <= 2) || (len(sh.wraps) == 1 && sh.feat == 0)) {
				for pk := 1; pk < nPreludes; pk++ {
					if c.mine(idx) {
						w.write(runSpace(fmt.Sprintf("space-%d-p%d", si, pk), sh, []int{10, 100, 1000}, pk))
					}
					idx++
				}
			}
		}
		return 0
	})
}
