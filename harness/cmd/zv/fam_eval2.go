package main

import (
	"fmt"
)

// zv eval2 TEXT1 -- TEXT2: evaluate TEXT1.. on a first interpreter, then TEXT2.. on a second one (debug aid).
func init() {
	register("eval2", "evaluate texts on two successive interpreters of one process (debug aid)", func(args []string) int {
		env := newSessEnv()
		for _, t := range args {
			if t == "--" {
				env = newSessEnv()
				fmt.Println("---- new interpreter")
				continue
			}
			o := evalSafe(env, t+"\n")
			fmt.Printf("%s\n  => %v %s\n", t, printedOutcome(env, o), trunc(o.Err, 200))
		}
		return 0
	})
}
