package main

// Family "records" (C17): histories of struct declarations, constructions,
// decodings, round trips through the encodings, pointers kept in variables and
// field writes through every write route of the language on the real
// interpreter.  After every step the result (ok / err / panic) and, for
// every instance bound to a variable, its keys and the type of each value are
// recorded; TLC validates every case against spec/Records.tla through
// spec/RecordsTrace.tla.
//
// The struct registry of the library is process-global and a process can use
// only one interpreter for struct declarations (see theRecDriver): every case
// uses its own struct and variable names (abstract name + a per-case suffix).
// Events carry the abstract operation; the script text is rendered from it,
// so a replay renders fresh names.

import (
	"encoding/json"
	"fmt"
	"sort"
	"strings"

	zygo "github.com/glycerine/zygomys/v9/zygo"
)

// ---------------------------------------------------------------- abstract operations

// rval is an abstract value (only its type matters): base/slice carry a type
// name in S, inst/ptr a slot in N, anon/aptr a struct name in S.
type rval struct {
	K string
	S string
	N int
}

func (v rval) js() any {
	switch v.K {
	case "base", "slice", "anon", "aptr":
		return []any{v.K, v.S}
	case "inst", "ptr":
		return []any{v.K, v.N}
	}
	return []any{v.K}
}

func rvalFromJS(x any) rval {
	a, _ := x.([]any)
	v := rval{}
	if len(a) > 0 {
		v.K, _ = a[0].(string)
	}
	if len(a) > 1 {
		switch t := a[1].(type) {
		case string:
			v.S = t
		case float64:
			v.N = int(t)
		}
	}
	return v
}

var (
	vI64  = rval{K: "base", S: "int64"}
	vStr  = rval{K: "base", S: "string"}
	vF64  = rval{K: "base", S: "float64"}
	vSI   = rval{K: "slice", S: "int64"}
	vSS   = rval{K: "slice", S: "string"}
	vSF   = rval{K: "slice", S: "float64"}
	vES   = rval{K: "eslice"}
	vNil  = rval{K: "nil"}
	vNilS = rval{K: "nilslice"}
)

func vInst(k int) rval    { return rval{K: "inst", N: k} }
func vPtr(k int) rval     { return rval{K: "ptr", N: k} }
func vAnon(n string) rval { return rval{K: "anon", S: n} }
func vAptr(n string) rval { return rval{K: "aptr", S: n} }

// rtype is a declared field type: base/slice carry a type name, struct/ptr a struct name.
type rtype struct{ K, S string }

func (t rtype) js() any { return []any{t.K, t.S} }

var (
	tI64 = rtype{"base", "int64"}
	tStr = rtype{"base", "string"}
	tF64 = rtype{"base", "float64"}
	tSI  = rtype{"slice", "int64"}
	tSS  = rtype{"slice", "string"}
)

func tStruct(n string) rtype { return rtype{"struct", n} }
func tPtr(n string) rtype    { return rtype{"ptr", n} }

type rfield struct {
	Name string
	T    rtype
}
type rarg struct {
	Name string
	V    rval
}

type rop struct {
	Op     string // declare | construct | decode | roundtrip | write | elem | takeptr | derefset
	Name   string
	Fields []rfield
	Args   []rarg
	Ko     []string // decode: zKeyOrder member (nil: absent)
	Codec  string   // decode, roundtrip: json | msgpack
	Route  string
	Slot   int // an instance variable; for the routes through a pointer variable (pvar, pvhset, pvderef) a pointer variable
	Hop    string
	KeyK   string // sym | str | int
	KeyS   string
	KeyN   int
	V      rval
	Field  string // elem: the slice valued field
	Idx    int    // elem: the index assigned
}

func argsJS(a []rarg) []any {
	r := []any{}
	for _, x := range a {
		r = append(r, []any{x.Name, x.V.js()})
	}
	return r
}

func (o rop) js() map[string]any {
	ev := map[string]any{"op": o.Op}
	switch o.Op {
	case "declare":
		fs := []any{}
		for _, f := range o.Fields {
			fs = append(fs, []any{f.Name, f.T.js()})
		}
		ev["name"], ev["fields"] = o.Name, fs
	case "construct":
		ev["route"], ev["name"], ev["args"] = o.Route, o.Name, argsJS(o.Args)
	case "decode":
		ko := []any{}
		for _, k := range o.Ko {
			ko = append(ko, k)
		}
		ev["codec"], ev["name"], ev["args"], ev["ko"] = o.Codec, o.Name, argsJS(o.Args), ko
	case "write":
		var key any
		if o.KeyK == "int" {
			key = []any{"int", o.KeyN}
		} else {
			key = []any{o.KeyK, o.KeyS}
		}
		ev["route"], ev["slot"], ev["hop"], ev["key"], ev["v"] = o.Route, o.Slot, o.Hop, key, o.V.js()
	case "derefset":
		ev["route"], ev["slot"], ev["hop"], ev["name"], ev["args"] = o.Route, o.Slot, o.Hop, o.Name, argsJS(o.Args)
	case "elem":
		ev["route"], ev["slot"], ev["field"], ev["idx"], ev["v"] = o.Route, o.Slot, o.Field, o.Idx, o.V.js()
	case "takeptr":
		ev["slot"] = o.Slot
	case "roundtrip":
		ev["codec"], ev["slot"] = o.Codec, o.Slot
	}
	return ev
}

func argsFromJS(x any) []rarg {
	r := []rarg{}
	a, _ := x.([]any)
	for _, e := range a {
		p, _ := e.([]any)
		if len(p) == 2 {
			n, _ := p[0].(string)
			r = append(r, rarg{n, rvalFromJS(p[1])})
		}
	}
	return r
}

func ropFromJS(e map[string]any) rop {
	o := rop{}
	o.Op, _ = e["op"].(string)
	o.Name, _ = e["name"].(string)
	o.Route, _ = e["route"].(string)
	o.Hop, _ = e["hop"].(string)
	o.Codec, _ = e["codec"].(string)
	if s, ok := e["slot"].(float64); ok {
		o.Slot = int(s)
	}
	o.Field, _ = e["field"].(string)
	if s, ok := e["idx"].(float64); ok {
		o.Idx = int(s)
	}
	if fs, ok := e["fields"].([]any); ok {
		for _, f := range fs {
			p, _ := f.([]any)
			if len(p) == 2 {
				n, _ := p[0].(string)
				t, _ := p[1].([]any)
				if len(t) == 2 {
					k, _ := t[0].(string)
					s, _ := t[1].(string)
					o.Fields = append(o.Fields, rfield{n, rtype{k, s}})
				}
			}
		}
	}
	o.Args = argsFromJS(e["args"])
	if ko, ok := e["ko"].([]any); ok && len(ko) > 0 {
		for _, k := range ko {
			s, _ := k.(string)
			o.Ko = append(o.Ko, s)
		}
	}
	if k, ok := e["key"].([]any); ok && len(k) == 2 {
		o.KeyK, _ = k[0].(string)
		switch t := k[1].(type) {
		case string:
			o.KeyS = t
		case float64:
			o.KeyN = int(t)
		}
	}
	if v, ok := e["v"]; ok {
		o.V = rvalFromJS(v)
	}
	return o
}

// constructors of operations
func opDeclare(name string, fs ...rfield) rop { return rop{Op: "declare", Name: name, Fields: fs} }
func opCtor(route, name string, args ...rarg) rop {
	return rop{Op: "construct", Route: route, Name: name, Args: args}
}
func opDecode(codec, name string, ko []string, args ...rarg) rop {
	a := append([]rarg(nil), args...)
	// the decoder presents the members in lexicographic order of their names
	sort.SliceStable(a, func(i, j int) bool { return a[i].Name < a[j].Name })
	return rop{Op: "decode", Codec: codec, Name: name, Ko: ko, Args: a}
}
func opWrite(rt route, slot int, key string, v rval) rop {
	o := rop{Op: "write", Route: rt.name, Slot: slot, Hop: rt.hop, KeyK: rt.keyK, KeyS: key, V: v}
	if rt.keyK == "int" {
		o.KeyS, o.KeyN = "", 7
	}
	return o
}
func opElem(route string, slot int, field string, idx int, v rval) rop {
	return rop{Op: "elem", Route: route, Slot: slot, Field: field, Idx: idx, V: v}
}
func opDerefset(route string, slot int, hop, name string, args ...rarg) rop {
	return rop{Op: "derefset", Route: route, Slot: slot, Hop: hop, Name: name, Args: args}
}

// (def pJ (& iK)): the J-th pointer variable of the case
func opTakeptr(slot int) rop { return rop{Op: "takeptr", Slot: slot} }

// (def iN (unjson (json iK))): encode the instance and decode the document again
func opRoundtrip(codec string, slot int) rop { return rop{Op: "roundtrip", Codec: codec, Slot: slot} }

// ---------------------------------------------------------------- write routes

// route: a way the language offers to store a value in a field.  X is the
// variable, H the hop field, K the field name, V the value text.
type route struct {
	name string
	hop  string // "" direct, otherwise the field of the holder the write goes through
	keyK string
	tmpl string
}

func directRoutes() []route {
	return []route{
		{"hset", "", "sym", "(hset X K: V)"},
		{"hsetarr", "", "sym", "(hset X [K:] V)"},
		{"set", "", "sym", "(set X.K V)"},
		{"eq", "", "sym", "(= X.K V)"},
		{"infix", "", "sym", "{X.K = V}"},
		{"sel", "", "sym", "(= (hashidx X .K) V)"},
		{"ptrhset", "", "sym", "(hset (* (& X)) K: V)"},
		{"derefhset", "", "sym", "(hset (deref (& X)) K: V)"},
		{"quotekey", "", "sym", "(hset X (quote K) V)"},
		{"strkey", "", "str", `(hset X "K" V)`},
		{"selstr", "", "str", `(= (hashidx X "K") V)`},
		{"infixstr", "", "str", `{X["K"] = V}`},
		{"intkey", "", "int", "(hset X 7 V)"},
	}
}

// hop routes: the holder X has a struct valued field H (fh) or a pointer valued one (fp)
func hopRoutes(fh, fp string) []route {
	return []route{
		{"nestinfix", fh, "sym", "{X.H.K = V}"},
		{"nestset", fh, "sym", "(set X.H.K V)"},
		{"nesteq", fh, "sym", "(= X.H.K V)"},
		{"nestsel", fh, "sym", "(= (hashidx X .H.K) V)"},
		{"arrow", fh, "sym", "(hset (-> X H:) K: V)"},
		{"colon", fh, "sym", "(hset (:H X) K: V)"},
		{"dotarg", fh, "sym", "(hset X.H K: V)"},
		{"arrowstr", fh, "str", `(hset (-> X H:) "K" V)`},
		{"pfhset", fp, "sym", "(hset (* (:H X)) K: V)"},
		{"pfderef", fp, "sym", "(hset (deref (:H X)) K: V)"},
	}
}

// element routes: assignment to one element of the slice the field F of X holds (I the index)
func elemRoutes() []route {
	return []route{
		{"idxinfix", "", "sym", "{X.F[I] = V}"},
		{"arrayidx", "", "sym", "(= (arrayidx X.F [I]) V)"},
		{"aset", "", "sym", "(aset (:F X) I V)"},
		{"asetarrow", "", "sym", "(aset (-> X F:) I V)"},
	}
}

// routes through a pointer taken earlier and kept in a variable P (the slot of the operation is the pointer's index)
func pvarRoutes() []route {
	return []route{
		{"pvhset", "", "sym", "(hset (* P) K: V)"},
		{"pvderef", "", "sym", "(hset (deref P) K: V)"},
	}
}

func routeTemplate(name string) string {
	for _, r := range pvarRoutes() {
		if r.name == name {
			return r.tmpl
		}
	}
	for _, r := range elemRoutes() {
		if r.name == name {
			return r.tmpl
		}
	}
	for _, r := range directRoutes() {
		if r.name == name {
			return r.tmpl
		}
	}
	for _, r := range hopRoutes("", "") {
		if r.name == name {
			return r.tmpl
		}
	}
	return ""
}

// ---------------------------------------------------------------- driver

type recCase struct {
	ID  string `json:"id"`
	Evs []any  `json:"evs"`
}

type recDriver struct {
	env    *zygo.Zlisp
	suffix string
	nslots int
	nptrs  int
	last   map[int]string // slot -> last recorded observation (JSON), for the delta encoding
	texts  bool           // record script text and error message with every event
}

// One interpreter per process: in a second interpreter of the same process
// (field ...) yields a plain hash (the first struct declaration registers
// "field" as a record type in the process-global registry), so no struct can
// be declared there.  Cases are kept apart by their names instead.
var theRecDriver *recDriver

func recDriverFor(suffix string) *recDriver {
	if theRecDriver == nil {
		theRecDriver = newRecDriver()
	}
	theRecDriver.suffix = suffix
	theRecDriver.nslots = 0
	theRecDriver.nptrs = 0
	theRecDriver.last = map[int]string{}
	return theRecDriver
}

func newRecDriver() *recDriver {
	d := &recDriver{}
	d.env = zygo.NewZlisp()
	d.env.StandardSetup()
	// (zvmsgpack "json text"): the msgpack encoding of that JSON document
	d.env.AddFunction("zvmsgpack", func(env *zygo.Zlisp, name string, args []zygo.Sexp) (r zygo.Sexp, err error) {
		defer func() {
			if p := recover(); p != nil {
				r, err = zygo.SexpNull, fmt.Errorf("zvmsgpack: %v", p)
			}
		}()
		if len(args) != 1 {
			return zygo.SexpNull, fmt.Errorf("zvmsgpack: one string")
		}
		s, ok := args[0].(*zygo.SexpStr)
		if !ok {
			return zygo.SexpNull, fmt.Errorf("zvmsgpack: one string")
		}
		iface, err := zygo.JsonToGo([]byte(s.S))
		if err != nil {
			return zygo.SexpNull, err
		}
		by, err := zygo.GoToMsgpack(iface)
		if err != nil {
			return zygo.SexpNull, err
		}
		return &zygo.SexpRaw{Val: by}, nil
	})
	return d
}

func (d *recDriver) sname(abs string) string { return abs + d.suffix }
func (d *recDriver) absName(real string) string {
	if strings.HasSuffix(real, d.suffix) {
		return strings.TrimSuffix(real, d.suffix)
	}
	return real
}
func (d *recDriver) ivar(k int) string { return fmt.Sprintf("i%d%s", k, d.suffix) }
func (d *recDriver) pvar(k int) string { return fmt.Sprintf("p%d%s", k, d.suffix) }

func (d *recDriver) ttext(t rtype) string {
	switch t.K {
	case "base":
		return t.S
	case "slice":
		return "([]" + t.S + ")"
	case "struct":
		return d.sname(t.S)
	case "ptr":
		return "(* " + d.sname(t.S) + ")"
	}
	fatal("records: unknown type %v", t)
	return ""
}

func (d *recDriver) vtext(v rval) string {
	switch v.K {
	case "base":
		switch v.S {
		case "int64":
			return "7"
		case "string":
			return `"s"`
		case "float64":
			return "2.5"
		}
	case "slice":
		switch v.S {
		case "int64":
			return "[1 2]"
		case "string":
			return `["a" "b"]`
		case "float64":
			return "[1.5 2.5]"
		}
	case "eslice":
		return "[]"
	case "nil":
		return "nil"
	case "nilslice":
		return "[nil]"
	case "inst":
		return d.ivar(v.N)
	case "ptr":
		return "(& " + d.ivar(v.N) + ")"
	case "anon":
		return "(" + d.sname(v.S) + ")"
	case "aptr":
		return "(& (" + d.sname(v.S) + "))"
	}
	fatal("records: unknown value %v", v)
	return ""
}

func (d *recDriver) vjson(v rval) string {
	switch v.K {
	case "base":
		switch v.S {
		case "int64":
			return "7"
		case "string":
			return `"s"`
		case "float64":
			return "2.5"
		}
	case "slice":
		switch v.S {
		case "int64":
			return "[1,2]"
		case "string":
			return `["a","b"]`
		case "float64":
			return "[1.5,2.5]"
		}
	case "eslice":
		return "[]"
	case "nil":
		return "null"
	case "nilslice":
		return "[null]"
	case "anon":
		return `{"Atype":"` + d.sname(v.S) + `"}`
	}
	fatal("records: value %v has no JSON form", v)
	return ""
}

func (d *recDriver) argtext(args []rarg) string {
	s := ""
	for _, a := range args {
		s += " " + a.Name + ": " + d.vtext(a.V)
	}
	return s
}

func (d *recDriver) render(o rop, slot int) string {
	switch o.Op {
	case "declare":
		s := "(struct " + d.sname(o.Name) + " ["
		for i, f := range o.Fields {
			if i > 0 {
				s += " "
			}
			s += "(field " + f.Name + ": " + d.ttext(f.T) + ")"
		}
		return s + "])\n"
	case "construct":
		switch o.Route {
		case "ctor":
			return "(def " + d.ivar(slot) + " (" + d.sname(o.Name) + d.argtext(o.Args) + "))\n"
		case "msgmap":
			if len(o.Args) == 0 {
				return "(def " + d.ivar(slot) + ` (msgmap "` + d.sname(o.Name) + `"))` + "\n"
			}
			return "(def " + d.ivar(slot) + ` (msgmap "` + d.sname(o.Name) + `" (list` + d.argtext(o.Args) + ")))\n"
		}
	case "decode":
		j := `{"Atype":"` + d.sname(o.Name) + `"`
		for _, a := range o.Args {
			j += `,"` + a.Name + `":` + d.vjson(a.V)
		}
		if len(o.Ko) > 0 {
			j += `,"zKeyOrder":[`
			for i, k := range o.Ko {
				if i > 0 {
					j += ","
				}
				j += `"` + k + `"`
			}
			j += "]"
		}
		j += "}"
		if o.Codec == "json" {
			return "(def " + d.ivar(slot) + " (unjson (raw `" + j + "`)))\n"
		}
		return "(def " + d.ivar(slot) + " (unmsgpack (zvmsgpack `" + j + "`)))\n"
	case "roundtrip":
		if o.Codec == "json" {
			return "(def " + d.ivar(slot) + " (unjson (json " + d.ivar(o.Slot) + ")))\n"
		}
		return "(def " + d.ivar(slot) + " (unmsgpack (msgpack " + d.ivar(o.Slot) + ")))\n"
	case "takeptr":
		return "(def " + d.pvar(slot) + " (& " + d.ivar(o.Slot) + "))\n"
	case "write":
		t := routeTemplate(o.Route)
		if t == "" {
			fatal("records: unknown route %q", o.Route)
		}
		r := strings.NewReplacer("X", d.ivar(o.Slot), "P", d.pvar(o.Slot), "H", o.Hop, "K", o.KeyS, "V", d.vtext(o.V))
		return r.Replace(t) + "\n"
	case "elem":
		t := routeTemplate(o.Route)
		if t == "" {
			fatal("records: unknown route %q", o.Route)
		}
		r := strings.NewReplacer("X", d.ivar(o.Slot), "F", o.Field, "I", fmt.Sprint(o.Idx), "V", d.vtext(o.V))
		return r.Replace(t) + "\n"
	case "derefset":
		payload := "(" + d.sname(o.Name) + d.argtext(o.Args) + ")"
		switch o.Route {
		case "addr":
			return "(derefSet (& " + d.ivar(o.Slot) + ") " + payload + ")\n"
		case "pfield":
			return "(derefSet (:" + o.Hop + " " + d.ivar(o.Slot) + ") " + payload + ")\n"
		case "pvar":
			return "(derefSet " + d.pvar(o.Slot) + " " + payload + ")\n"
		}
	}
	fatal("records: cannot render %+v", o)
	return ""
}

// kind of a stored value, read off the Go value
func (d *recDriver) kind(v zygo.Sexp, live map[*zygo.SexpHash]int) any {
	base := func(x zygo.Sexp) string {
		switch x.(type) {
		case *zygo.SexpInt:
			return "int64"
		case *zygo.SexpStr:
			return "string"
		case *zygo.SexpFloat:
			return "float64"
		case *zygo.SexpBool:
			return "bool"
		case *zygo.SexpSentinel:
			return "nil"
		}
		return fmt.Sprintf("%T", x)
	}
	switch x := v.(type) {
	case *zygo.SexpSentinel:
		if x == zygo.SexpNull {
			return []any{"nil"}
		}
		return []any{"other", "sentinel"}
	case *zygo.SexpInt, *zygo.SexpStr, *zygo.SexpFloat, *zygo.SexpBool:
		return []any{"base", base(v)}
	case *zygo.SexpArray:
		if len(x.Val) == 0 {
			return []any{"eslice"}
		}
		if x.Val[0] == zygo.SexpNull {
			return []any{"nilslice"} // the language takes a slice's type from its first element
		}
		same := true
		for _, e := range x.Val {
			if base(e) != base(x.Val[0]) {
				same = false
			}
		}
		switch {
		case same:
			return []any{"slice", base(x.Val[0])}
		case len(x.Val) == 2:
			return []any{"mslice", base(x.Val[0]), base(x.Val[1])}
		}
		return []any{"slice", "mixed"}
	case *zygo.SexpHash:
		if k, ok := live[x]; ok {
			return []any{"inst", k}
		}
		return []any{"anon", d.absName(x.TypeName)}
	case *zygo.SexpPointer:
		if h, ok := x.Target.(*zygo.SexpHash); ok {
			if k, ok := live[h]; ok {
				return []any{"ptr", k}
			}
			return []any{"aptr", d.absName(h.TypeName)}
		}
		return []any{"other", "pointer"}
	}
	return []any{"other", fmt.Sprintf("%T", v)}
}

// observe: every slot variable bound to a record: its type, keys and value kinds
func (d *recDriver) observe() []any {
	live := map[*zygo.SexpHash]int{}
	hs := map[int]*zygo.SexpHash{}
	for k := 1; k <= d.nslots; k++ {
		obj, ok := d.env.FindObject(d.ivar(k))
		if !ok {
			continue
		}
		if h, isHash := obj.(*zygo.SexpHash); isHash {
			if _, dup := live[h]; !dup {
				live[h] = k
			}
			hs[k] = h
		}
	}
	obs := []any{}
	for k := 1; k <= d.nslots; k++ {
		h, ok := hs[k]
		if !ok {
			continue
		}
		fields := []any{}
		for _, key := range h.KeyOrder {
			var kj any
			switch kk := key.(type) {
			case *zygo.SexpSymbol:
				kj = []any{"sym", kk.Name()}
			case *zygo.SexpStr:
				kj = []any{"str", kk.S}
			case *zygo.SexpInt:
				kj = []any{"int", kk.Val}
			default:
				kj = []any{"other", fmt.Sprintf("%T", key)}
			}
			v, err := h.HashGet(d.env, key)
			if err != nil {
				fields = append(fields, []any{kj, []any{"missing"}})
				continue
			}
			fields = append(fields, []any{kj, d.kind(v, live)})
		}
		obs = append(obs, []any{k, d.absName(h.TypeName), fields})
	}
	return obs
}

// delta keeps only the slots whose observation differs from the one recorded
// last (a lossless encoding: the trace specification rebuilds the full view);
// a slot that is no longer bound to a record is reported with the type "".
func (d *recDriver) delta(obs []any) []any {
	out := []any{}
	seen := map[int]bool{}
	for _, o := range obs {
		rec := o.([]any)
		k := rec[0].(int)
		seen[k] = true
		b, _ := json.Marshal(rec[1:])
		if d.last[k] != string(b) {
			d.last[k] = string(b)
			out = append(out, o)
		}
	}
	for k := 1; k <= d.nslots; k++ {
		if _, had := d.last[k]; had && !seen[k] {
			delete(d.last, k)
			out = append(out, []any{k, "", []any{}})
		}
	}
	return out
}

func (d *recDriver) run(o rop) map[string]any {
	ev := o.js()
	slot := 0
	switch o.Op {
	case "construct", "decode", "roundtrip":
		d.nslots++
		slot = d.nslots
	case "takeptr":
		d.nptrs++
		slot = d.nptrs
	}
	text := d.render(o, slot)
	if d.texts {
		ev["text"] = text
	}
	out := evalSafe(d.env, text)
	switch out.Kind {
	case "val", "nilres":
		ev["res"] = "ok"
	case "err":
		ev["res"] = "err"
		if d.texts {
			ev["msg"] = trunc(out.Err, 120)
		}
		d.env.Clear() // what an embedding program (the repl) does after an error
	case "panic":
		ev["res"] = "panic"
		if d.texts {
			ev["msg"] = trunc(out.Err, 120)
		}
		d.env.Clear()
	default:
		fatal("records: step budget exhausted on %q", text)
	}
	ev["obs"] = d.delta(d.observe())
	return ev
}

// runPlan executes one case.  The script text (rendered from the abstract
// operation, which is what TLC reads) and the error messages are recorded for
// every 40th case and for replays only: they are for the human reader.
func runPlan(w *ndWriter, id, suffix string, ops []rop, texts bool) {
	d := recDriverFor(suffix)
	d.texts = texts
	evs := []any{}
	for _, o := range ops {
		evs = append(evs, d.run(o))
	}
	w.write(recCase{ID: id, Evs: evs})
}

// ---------------------------------------------------------------- generators

type recGen struct {
	c   *common
	w   *ndWriter
	idx int
}

func (g *recGen) emit(tag string, ops []rop) {
	i := g.idx
	g.idx++
	if !g.c.mine(i) {
		return
	}
	runPlan(g.w, fmt.Sprintf("%s%d", tag, i), fmt.Sprintf("x%d", i), ops, i%40 == 0)
}

func fld(n string, t rtype) rfield { return rfield{n, t} }
func arg(n string, v rval) rarg    { return rarg{n, v} }

// the field types of the matrix: base types, slices, other struct, pointer to
// the other struct, pointer to the struct itself
func matrixTypes() []rtype {
	return []rtype{tI64, tStr, tF64, tSI, tSS, tStruct("C"), tPtr("C"), tPtr("B")}
}

// matrix prelude: C{fa:int64}; B{fa:T, fb:int64}; A{fh:B, fp:(* B)};
// i1=(C) i2=(B) [the target] i3=(A fh:i2 fp:(& i2)) [the holder] i4=(B) i5=(A).
// Only i1, i4, i5 are written into the target by value: none of them refers to
// the target, so even a library that wrongly accepted every write could not
// build a record containing itself (its printer would not survive that and
// would take the harness process with it).
func matrixPrelude(t rtype) []rop {
	return []rop{
		opDeclare("C", fld("fa", tI64)),
		opDeclare("B", fld("fa", t), fld("fb", tI64)),
		opDeclare("A", fld("fh", tStruct("B")), fld("fp", tPtr("B"))),
		opCtor("ctor", "C"),
		opCtor("ctor", "B"),
		opCtor("ctor", "A", arg("fh", vInst(2)), arg("fp", vPtr(2))),
		opCtor("ctor", "B"),
		opCtor("ctor", "A"),
	}
}

func matrixVals() []rval {
	return []rval{vI64, vStr, vF64, vSI, vSS, vSF, vES, vNil, vNilS,
		vInst(1), vInst(4), vInst(5), vPtr(1), vPtr(4), vPtr(2), vPtr(3), vPtr(5),
		vAnon("C"), vAnon("B"), vAptr("C"), vAptr("B")}
}

func jsonVals() []rval {
	return []rval{vI64, vStr, vF64, vSI, vSS, vSF, vES, vNil, vNilS, vAnon("C"), vAnon("B")}
}

// (a) every route x every field type x every value kind x declared/undeclared field
func (g *recGen) matrix() {
	routes := append(directRoutes(), hopRoutes("fh", "fp")...)
	for _, t := range matrixTypes() {
		for _, rt := range routes {
			ops := matrixPrelude(t)
			slot := 2
			if rt.hop != "" {
				slot = 3
			}
			vals := matrixVals()
			for _, v := range vals {
				for _, k := range []string{"fa", "zz"} {
					ops = append(ops, opWrite(rt, slot, k, v))
				}
			}
			for i := len(vals) - 1; i >= 0; i-- {
				for _, k := range []string{"zz", "fa", "fb"} {
					ops = append(ops, opWrite(rt, slot, k, vals[i]))
				}
			}
			g.emit("m", ops)
		}
	}
}

type ctorRoute struct {
	kind  string // construct | decode
	route string
	ko    int // 0 none, 1 in order, 2 reversed
}

func ctorRoutes() []ctorRoute {
	return []ctorRoute{
		{"construct", "ctor", 0}, {"construct", "msgmap", 0},
		{"decode", "json", 0}, {"decode", "json", 1}, {"decode", "json", 2},
		{"decode", "msgpack", 0}, {"decode", "msgpack", 1}, {"decode", "msgpack", 2},
	}
}

func (cr ctorRoute) op(name string, args ...rarg) rop {
	if cr.kind == "construct" {
		return opCtor(cr.route, name, args...)
	}
	var ko []string
	if cr.ko > 0 {
		for _, a := range args {
			ko = append(ko, a.Name)
		}
		sort.Strings(ko)
		if cr.ko == 2 {
			for i, j := 0, len(ko)-1; i < j; i, j = i+1, j-1 {
				ko[i], ko[j] = ko[j], ko[i]
			}
		}
	}
	return opDecode(cr.route, name, ko, args...)
}

// (b) construction and decoding: every construction route x field type x argument shape x value kind
func (g *recGen) constructs() {
	for _, t := range matrixTypes() {
		for _, cr := range ctorRoutes() {
			vals := matrixVals()
			if cr.kind == "decode" {
				vals = jsonVals()
			}
			for shape := 0; shape < 6; shape++ {
				ops := matrixPrelude(t)
				ops = append(ops, cr.op("B"))
				for _, v := range vals {
					switch shape {
					case 0:
						ops = append(ops, cr.op("B", arg("fa", v)))
					case 1:
						ops = append(ops, cr.op("B", arg("fa", v), arg("fb", vI64)))
					case 2:
						ops = append(ops, cr.op("B", arg("fb", vI64), arg("fa", v)))
					case 3:
						ops = append(ops, cr.op("B", arg("zz", v)), cr.op("B", arg("fb", vI64), arg("zz", v)))
					case 4:
						ops = append(ops, cr.op("B", arg("fb", vStr), arg("fa", v)), cr.op("B", arg("fa", v), arg("fb", vStr)))
					case 5:
						// the holder: struct and pointer typed fields
						ops = append(ops, cr.op("A", arg("fh", v)), cr.op("A", arg("fp", v)))
					}
				}
				g.emit("k", ops)
			}
		}
	}
}

// field names on both sides (in byte order, which is the order the decoder sorts the members of a
// document by) of the two members the encoders add, "Atype" and "zKeyOrder"; "fa" is the control
func namePalette() []string {
	return []string{"Age", "A1", "Addr", "Zed", "zip", "zone", "été", "fa"}
}

// member names no struct declares; the digit-leading ones and "~t" can only be written in a document
func undeclaredNames(inDocument bool) []string {
	p := []string{"A0", "Zz", "zz", "ñ"}
	if inDocument {
		p = append(p, "0x", "7", "~t")
	}
	return p
}

func slotsOf(ops []rop) int {
	n := 0
	for _, o := range ops {
		if o.Op == "construct" || o.Op == "decode" || o.Op == "roundtrip" {
			n++
		}
	}
	return n
}

// (b2) field names: every construction / decoding route x field name x field type: a valid instance, the
// writes it must accept and refuse afterwards, instances with a wrong-typed and with an undeclared member,
// and the round trips of the valid instance through both encodings (the result is an instance of the
// struct again: same type, same fields, same enforcement on later writes)
func (g *recGen) names() {
	dr := directRoutes()
	var symRoutes []route
	for _, r := range dr {
		if r.keyK == "sym" {
			symRoutes = append(symRoutes, r)
		}
	}
	n := 0
	for _, nm := range namePalette() {
		for _, t := range []rtype{tI64, tStr, tSI, tStruct("C")} {
			right, wrong := vI64, vStr
			switch t {
			case tStr:
				right, wrong = vStr, vI64
			case tSI:
				right, wrong = vSI, vSS
			case tStruct("C"):
				right, wrong = vAnon("C"), vAnon("B")
			}
			for _, cr := range ctorRoutes() {
				n++
				ops := []rop{
					opDeclare("C", fld("fa", tI64)),
					opDeclare("B", fld(nm, t), fld("fb", tI64)),
				}
				und := undeclaredNames(false)
				probe := func(slot int) {
					rt := symRoutes[(n+slot)%len(symRoutes)]
					ops = append(ops, opWrite(rt, slot, nm, wrong), opWrite(rt, slot, und[(n+slot)%len(und)], right),
						opWrite(rt, slot, "fb", vStr), opWrite(rt, slot, nm, right), opWrite(rt, slot, nm, vNil),
						opWrite(dr[0], slot, nm, right))
				}
				ops = append(ops, cr.op("B", arg(nm, right), arg("fb", vI64))) // 1: valid
				probe(1)
				ops = append(ops, cr.op("B", arg(nm, wrong)), cr.op("B", arg("fb", vStr), arg(nm, right)),
					cr.op("B", arg(nm, wrong), arg("fb", vI64)), cr.op("B", arg(nm, right)))
				for _, u := range undeclaredNames(cr.kind == "decode") {
					ops = append(ops, cr.op("B", arg(u, vI64)), cr.op("B", arg(nm, right), arg(u, vI64)), cr.op("B", arg("fb", vI64), arg(u, vNil)))
				}
				for _, codec := range []string{"json", "msgpack"} {
					ops = append(ops, opRoundtrip(codec, 1))
					back := slotsOf(ops)
					probe(back)
					ops = append(ops, opRoundtrip(codec, back))
					probe(back + 1)
				}
				g.emit("n", ops)
			}
		}
	}
}

func redeclDefs() [][]rfield {
	return [][]rfield{
		{},
		{fld("fa", tI64)},
		{fld("fa", tStr)},
		{fld("fa", tI64), fld("fb", tStr)},
		{fld("fb", tI64)},
		{fld("fa", tSI)},
		{fld("fa", tStruct("B"))},
		{fld("fa", tPtr("B"))},
		{fld("fa", tPtr("A")), fld("fb", tF64)},
	}
}

// (c) redeclaration: instances made under two definitions of A, written through every direct
// route, constructed through every construction route, assigned as a whole
func (g *recGen) redecl() {
	defs := redeclDefs()
	routes := directRoutes()
	crs := ctorRoutes()
	n := 0
	for i1, d1 := range defs {
		for i2, d2 := range defs {
			for ri, rt := range routes {
				n++
				if !g.c.thorough() && (i1+2*i2+ri)%4 != 0 {
					g.idx++ // keep the numbering independent of the tier
					continue
				}
				cr := crs[n%len(crs)]
				ops := []rop{
					opDeclare("B", fld("fa", tI64)),
					opCtor("ctor", "B"),
					opDeclare("A", d1...),
					opCtor("ctor", "A"),
					opTakeptr(2), // p1: taken before the redeclaration
					opDeclare("A", d2...),
					opCtor("ctor", "A"),
					opTakeptr(2), // p2: to the old instance, taken after the redeclaration
					opTakeptr(3), // p3
				}
				pvr := pvarRoutes()[n%2]
				vals := []rval{vI64, vStr, vSI, vES, vNil, vInst(1), vPtr(1), vPtr(2), vPtr(3)}
				for _, tgt := range []int{2, 3} {
					for _, k := range []string{"fa", "fb"} {
						for _, v := range vals {
							ops = append(ops, opWrite(rt, tgt, k, v))
						}
					}
				}
				// new instances obey the current definition, through every construction route
				jv := []rval{vI64, vStr}
				for _, v := range jv {
					ops = append(ops, cr.op("A", arg("fa", v)), cr.op("A", arg("fb", v)), cr.op("A", arg("fa", v), arg("fb", v)))
				}
				// whole-instance assignment through the pointer taken before the redeclaration: the old
				// instance keeps its definition, whatever the payload; then through the later pointers
				probe := func() {
					ops = append(ops, opWrite(rt, 2, "fa", vI64), opWrite(pvr, 1, "fa", vStr), opWrite(pvr, 1, "fb", vI64), opWrite(rt, 2, "fb", vStr))
				}
				for _, v := range []rval{vI64, vStr, vNil} {
					ops = append(ops, opDerefset("pvar", 1, "", "A", arg("fa", v)), opDerefset("pvar", 1, "", "A", arg("fb", v)))
				}
				ops = append(ops, opDerefset("pvar", 1, "", "A"))
				probe()
				ops = append(ops, opDerefset("pvar", 3, "", "A"), opDerefset("pvar", 1, "", "B"), opDerefset("pvar", 3, "", "A", arg("fa", vI64)),
					opRoundtrip("json", 2), opRoundtrip("msgpack", 3), opRoundtrip("msgpack", 2))
				ops = append(ops, opDerefset("pvar", 2, "", "A", arg("fa", vI64)), opDerefset("pvar", 2, "", "A", arg("fb", vStr)), opDerefset("pvar", 2, "", "A"))
				probe()
				ops = append(ops, opDerefset("pvar", 1, "", "A"))
				// whole-instance assignment: old instance <- current-version value, then writes again
				ops = append(ops, opDerefset("addr", 2, "", "A"))
				for _, k := range []string{"fa", "fb"} {
					for _, v := range []rval{vI64, vStr} {
						ops = append(ops, opWrite(rt, 2, k, v))
					}
				}
				for _, v := range []rval{vI64, vStr, vNil} {
					ops = append(ops, opDerefset("addr", 3, "", "A", arg("fa", v)), opDerefset("addr", 3, "", "A", arg("fb", v)))
				}
				ops = append(ops, opDerefset("addr", 3, "", "B"), opDerefset("addr", 1, "", "A"), opDerefset("addr", 1, "", "B", arg("fa", vI64)),
					opDerefset("addr", 1, "", "B", arg("fa", vStr)), opDerefset("addr", 1, "", "B", arg("zz", vI64)))
				g.emit("r", ops)
			}
		}
	}
}

// (d) the struct named by a field type is redeclared: values made under the old and the new
// version of B written into fields declared before and after the redeclaration
func (g *recGen) crossver() {
	routes := directRoutes()
	for _, b2 := range [][]rfield{{fld("fa", tI64)}, {fld("fa", tStr)}} {
		for _, rt := range routes {
			ops := []rop{
				opDeclare("B", fld("fa", tI64)),
				opCtor("ctor", "B"), // 1: B v1
				opDeclare("A", fld("fa", tStruct("B")), fld("fp", tPtr("B"))),
				opCtor("ctor", "A"), // 2: A v1, target
				opCtor("ctor", "A"), // 3: A v1, only ever a value (the wrong struct)
			}
			w := func(slots ...int) {
				for _, s := range slots {
					for _, k := range []string{"fa", "fp"} {
						for _, v := range []rval{vInst(1), vInst(4), vAnon("B"), vPtr(1), vPtr(4), vAptr("B"), vInst(3), vPtr(3), vPtr(2), vNil, vI64} {
							ops = append(ops, opWrite(rt, s, k, v))
						}
					}
				}
			}
			w(2)
			ops = append(ops, opDeclare("B", b2...), opCtor("ctor", "B")) // 4: B v2
			w(2)
			ops = append(ops, opDeclare("A", fld("fa", tStruct("B")), fld("fp", tPtr("B"))), opCtor("ctor", "A")) // 5: A v2, target
			w(2, 5)
			ops = append(ops, opCtor("ctor", "A", arg("fa", vInst(1))), opCtor("ctor", "A", arg("fa", vInst(4))),
				opCtor("ctor", "A", arg("fp", vPtr(1))), opCtor("ctor", "A", arg("fp", vPtr(4))),
				opDerefset("addr", 1, "", "B"), opDerefset("addr", 4, "", "B"), opDerefset("addr", 2, "", "A"))
			w(2, 5)
			g.emit("v", ops)
		}
	}
}

// (e) element assignment into the slice a field holds: every element route x slice type x
// element kind x index, on a filled, an unset, an empty and a non-slice field
func (g *recGen) elements() {
	for _, t := range []rtype{tSI, tSS, {"slice", "float64"}} {
		right := rval{K: "slice", S: t.S}
		for _, rt := range elemRoutes() {
			ops := []rop{
				opDeclare("B", fld("fa", t), fld("fb", tI64), fld("fc", tStr)),
				opCtor("ctor", "B", arg("fa", right), arg("fb", vI64)), // 1
				opCtor("ctor", "B"), // 2: fa unset
				opCtor("ctor", "B", arg("fa", vES), arg("fc", vNil)), // 3: fa empty
			}
			for _, slot := range []int{1, 2, 3} {
				for _, f := range []string{"fa", "fb", "fc", "zz"} {
					for idx := 0; idx < 2; idx++ {
						for _, v := range []rval{vI64, vStr, vF64} {
							ops = append(ops, opElem(rt.name, slot, f, idx, v))
						}
					}
				}
			}
			// refill and go through the elements in the other order
			ops = append(ops, opWrite(directRoutes()[0], 1, "fa", right))
			for idx := 1; idx >= 0; idx-- {
				for _, v := range []rval{vF64, vStr, vI64} {
					ops = append(ops, opElem(rt.name, 1, "fa", idx, v))
				}
			}
			// whole-field writes after element writes
			for _, v := range []rval{vSI, vSS, vES, vNil, right} {
				ops = append(ops, opWrite(directRoutes()[0], 1, "fa", v), opElem(rt.name, 1, "fa", 0, vI64), opElem(rt.name, 1, "fa", 1, vStr))
			}
			g.emit("e", ops)
		}
	}
}

// alphabet of the exhaustive short histories; writes rotate through the routes
func histAlphabet(rot int) []rop {
	dr := directRoutes()
	hr := hopRoutes("fb", "fp")
	pick := func(i int) route { return dr[(rot+i)%len(dr)] }
	pickSym := func(i int) route {
		for j := 0; ; j++ {
			r := dr[(rot+i+j)%len(dr)]
			if r.keyK == "sym" {
				return r
			}
		}
	}
	var structHop, ptrHop []route
	for _, r := range hr {
		if r.keyK != "sym" {
			continue
		}
		if r.hop == "fb" {
			structHop = append(structHop, r)
		} else {
			ptrHop = append(ptrHop, r)
		}
	}
	sh := structHop[rot%len(structHop)]
	ph := ptrHop[rot%len(ptrHop)]
	strk := route{"strkey", "", "str", ""}
	return []rop{
		opDeclare("A", fld("fa", tStr), fld("fb", tStruct("B")), fld("fp", tPtr("B"))),
		opDeclare("A", fld("fa", tI64), fld("fc", tSI)),
		opDeclare("B", fld("fa", tStr)),
		opDeclare("B", fld("fa", tI64), fld("fb", tI64)),
		opCtor("ctor", "A"),
		opCtor("ctor", "A", arg("fa", vI64)),
		opCtor("msgmap", "A", arg("fa", vStr)),
		opCtor("ctor", "B", arg("fa", vI64)),
		opCtor("msgmap", "B", arg("fa", vStr)),
		opDecode("json", "A", []string{"fa", "fb"}, arg("fa", vI64), arg("fb", vAnon("B"))),
		opDecode("json", "A", []string{"fa"}, arg("fa", vStr)),
		opDecode("msgpack", "B", []string{"fa"}, arg("fa", vI64)),
		opDecode("json", "A", nil, arg("fc", vSI)),
		opWrite(pickSym(0), 2, "fa", vI64),
		opWrite(pickSym(1), 2, "fa", vStr),
		opWrite(pickSym(2), 2, "fa", vNil),
		opWrite(pickSym(3), 2, "fc", vSI),
		opWrite(pickSym(4), 2, "fc", vES),
		opWrite(pick(5), 2, "zz", vI64),
		opWrite(pickSym(6), 2, "fb", vInst(1)),
		opWrite(pickSym(7), 2, "fb", vNil),
		opWrite(pickSym(8), 2, "fp", vPtr(1)),
		opWrite(pickSym(9), 2, "fb", vInst(3)),
		opWrite(sh, 2, "fa", vI64),
		opWrite(sh, 2, "fa", vStr),
		opWrite(ph, 2, "fa", vI64),
		opWrite(ph, 2, "fa", vStr),
		opWrite(pickSym(10), 1, "fa", vI64),
		opWrite(pickSym(11), 1, "fa", vStr),
		opWrite(pickSym(12), 3, "fa", vI64),
		opWrite(pickSym(13), 3, "fa", vStr),
		opWrite(strk, 2, "fa", vI64),
		opElem(elemRoutes()[rot%4].name, 2, "fc", 0, vI64),
		opElem(elemRoutes()[(rot+1)%4].name, 2, "fc", 1, vStr),
		opDerefset("addr", 2, "", "A"),
		opDerefset("addr", 2, "", "A", arg("fa", vStr)),
		opDerefset("addr", 1, "", "B", arg("fa", vStr)),
		opDerefset("pfield", 2, "fp", "B", arg("fa", vI64)),
		opDerefset("addr", 3, "", "A", arg("fa", vI64)),
		opTakeptr(3),
		opDerefset("pvar", 1, "", "A"),
		opDerefset("pvar", 1, "", "A", arg("fa", vStr)),
		opDerefset("pvar", 2, "", "A", arg("fa", vI64)),
		opWrite(pvarRoutes()[rot%2], 1, "fa", vStr),
		opRoundtrip([]string{"json", "msgpack"}[rot%2], 1),
		opRoundtrip([]string{"msgpack", "json"}[rot%2], 3),
	}
}

func histPrelude() []rop {
	return []rop{
		opDeclare("B", fld("fa", tI64)),
		opDeclare("A", fld("fa", tI64), fld("fb", tStruct("B")), fld("fp", tPtr("B"))),
		opCtor("ctor", "B"),
		opCtor("ctor", "A", arg("fb", vInst(1)), arg("fp", vPtr(1))),
		opTakeptr(2),
	}
}

// (f) every history of length <= L over the alphabet (longer ones sampled)
func (g *recGen) histories() {
	full, sampledLen, num, den := 2, 3, 1, 48
	if g.c.thorough() {
		full, sampledLen, num, den = 3, 4, 1, 192
	}
	nA := len(histAlphabet(0))
	var rec func(prefix []int)
	rec = func(prefix []int) {
		if len(prefix) > 0 {
			take := len(prefix) <= full || hashSel(g.c.seed, g.idx, num, den)
			if take {
				alpha := histAlphabet(g.idx)
				ops := histPrelude()
				for _, a := range prefix {
					ops = append(ops, alpha[a])
				}
				g.emit("h", ops)
			} else {
				g.idx++
			}
		}
		if len(prefix) == sampledLen {
			return
		}
		for a := 0; a < nA; a++ {
			rec(append(append([]int(nil), prefix...), a))
		}
	}
	rec(nil)
}

// (g) seeded random long histories
func (g *recGen) random() {
	n := g.c.n
	if n == 0 {
		n = 300
		if g.c.thorough() {
			n = 4000
		}
	}
	names := []string{"A", "B", "C"}
	// declared field names on both sides of the members the encoders add ("Atype", "zKeyOrder")
	fnames := []string{"Age", "fa", "fb", "fp", "zone"}
	for i := 0; i < n; i++ {
		if !g.c.mine(g.idx) {
			g.idx++
			continue
		}
		r := newRng(g.c.seed, uint64(i)+1000)
		declared := map[string]bool{}
		nslots, nptrs := 0, 0
		slotType := map[int]string{}
		randType := func(self string) rtype {
			for {
				switch r.intn(8) {
				case 0:
					return tI64
				case 1:
					return tStr
				case 2:
					return tF64
				case 3:
					return tSI
				case 4:
					return tSS
				case 5:
					// struct valued fields only point "downwards" (A > B > C): a cycle of
					// records by value makes the library's printer recurse without end
					n := pick(r, names)
					if n > self && declared[n] {
						return tStruct(n)
					}
				default:
					n := pick(r, names)
					if n == self || declared[n] {
						return tPtr(n)
					}
				}
			}
		}
		randDecl := func(n string) rop {
			var fs []rfield
			for _, f := range fnames {
				if r.intn(3) > 0 {
					fs = append(fs, fld(f, randType(n)))
				}
			}
			declared[n] = true
			return opDeclare(n, fs...)
		}
		randVal := func(jsonOnly bool) rval {
			for {
				switch r.intn(14) {
				case 0, 1:
					return vI64
				case 2:
					return vStr
				case 3:
					return vF64
				case 4:
					return vSI
				case 5:
					return vSS
				case 6:
					return vES
				case 7:
					return vNil
				case 8:
					return vNilS
				case 9:
					if !jsonOnly && nslots > 0 {
						return vInst(1 + r.intn(nslots))
					}
				case 10:
					if !jsonOnly && nslots > 0 {
						return vPtr(1 + r.intn(nslots))
					}
				case 11:
					n := pick(r, names)
					if declared[n] {
						return vAnon(n)
					}
				case 12:
					n := pick(r, names)
					if !jsonOnly && declared[n] {
						return vAptr(n)
					}
				default:
					return vStr
				}
			}
		}
		randArgs := func(jsonOnly bool) []rarg {
			var as []rarg
			fs := append([]string(nil), fnames...)
			fs = append(fs, "zz", "A0")
			for _, f := range fs {
				if r.intn(4) == 0 {
					as = append(as, arg(f, randVal(jsonOnly)))
				}
			}
			return as
		}
		declaredName := func() string {
			for {
				n := pick(r, names)
				if declared[n] {
					return n
				}
			}
		}
		ops := []rop{randDecl("A"), randDecl("B")}
		dr := directRoutes()
		hr := hopRoutes("", "")
		crs := ctorRoutes()
		for s := 0; s < 40; s++ {
			switch x := r.intn(25); {
			case x == 20 && nslots > 0:
				ops = append(ops, opTakeptr(1+r.intn(nslots)))
				nptrs++
			case x == 21 && nptrs > 0:
				ops = append(ops, opDerefset("pvar", 1+r.intn(nptrs), "", declaredName(), randArgs(false)...))
			case x == 22 && nptrs > 0:
				v := randVal(false)
				if v.K == "inst" {
					v = vAnon(slotType[v.N])
				}
				ops = append(ops, opWrite(pick(r, pvarRoutes()), 1+r.intn(nptrs), pick(r, fnames), v))
			case x >= 23 && nslots > 0 && nslots < 8:
				src := 1 + r.intn(nslots)
				ops = append(ops, opRoundtrip(pick(r, []string{"json", "msgpack"}), src))
				nslots++
				slotType[nslots] = slotType[src]
			case x < 2:
				ops = append(ops, randDecl(pick(r, names)))
			case x < 5 && nslots < 8:
				cr := pick(r, crs)
				n := declaredName()
				ops = append(ops, cr.op(n, randArgs(cr.kind == "decode")...))
				nslots++
				slotType[nslots] = n
			case x < 7 && x >= 6 && nslots > 0:
				ops = append(ops, opElem(pick(r, elemRoutes()).name, 1+r.intn(nslots), pick(r, fnames), r.intn(2), pick(r, []rval{vI64, vStr, vF64})))
			case x < 6 && nslots > 0:
				rtn := pick(r, []string{"addr", "pfield"})
				hop := ""
				if rtn == "pfield" {
					hop = pick(r, fnames)
				}
				ops = append(ops, opDerefset(rtn, 1+r.intn(nslots), hop, declaredName(), randArgs(false)...))
			case nslots > 0:
				var rt route
				if r.intn(3) == 0 {
					rt = pick(r, hr)
					rt.hop = pick(r, fnames)
				} else {
					rt = pick(r, dr)
				}
				k := pick(r, []string{"fa", "fa", "fb", "Age", "fp", "zone", "zz", "A0"})
				v := randVal(false)
				tgt := 1 + r.intn(nslots)
				// an instance is stored by value only in an instance of a "higher" struct
				// (A > B > C), otherwise a fresh one of the same struct is written: no
				// record can come to contain itself, whatever the library accepts
				if v.K == "inst" && (rt.keyK != "sym" || rt.hop != "" || !(slotType[v.N] > slotType[tgt])) {
					v = vAnon(slotType[v.N])
				}
				ops = append(ops, opWrite(rt, tgt, k, v))
			default:
				cr := pick(r, crs)
				n := declaredName()
				ops = append(ops, cr.op(n, randArgs(cr.kind == "decode")...))
				nslots++
				slotType[nslots] = n
			}
		}
		i0 := g.idx
		g.idx++
		runPlan(g.w, fmt.Sprintf("z%d-%d", g.c.seed, i), fmt.Sprintf("x%d", i0), ops, i%40 == 0)
	}
}

func init() {
	register("records", "C17: struct declaration / construction / write histories", func(args []string) int {
		c := commonFlags("records", args, nil)
		w := newWriter(c.out)
		defer w.close()
		if c.replay != "" {
			return recReplay(c, w)
		}
		g := &recGen{c: c, w: w}
		g.matrix()
		g.constructs()
	g.names()
		g.redecl()
		g.crossver()
		g.elements()
		g.histories()
		g.random()
		return 0
	})
}

// recReplay re-executes the abstract operations of recorded cases (fresh
// struct names, fresh interpreter) and writes fresh observations.
func recReplay(c *common, w *ndWriter) int {
	n := 0
	readLines(c.replay, func(line []byte) {
		var in struct {
			ID  string           `json:"id"`
			Evs []map[string]any `json:"evs"`
		}
		if err := json.Unmarshal(line, &in); err != nil {
			fatal("bad replay file: %v", err)
		}
		ops := []rop{}
		for _, e := range in.Evs {
			ops = append(ops, ropFromJS(e))
		}
		runPlan(w, in.ID, fmt.Sprintf("y%d", n), ops, true)
		n++
	})
	return 0
}
