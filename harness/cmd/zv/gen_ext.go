package main

// Further dimensions of the sem family's programs (genCtx.ext), each one a place where the
// meaning of a program is fixed by the reference semantics and the code generator has a
// path of its own:
//
//   - break/continue inside an expression: in an arm or in the predicate of a cond (through
//     and/or/let/newScope/begin), also when that expression is an argument of a call;
//   - an argument that re-binds the name of the function being called (the callee is
//     evaluated before the arguments, also for a self call in tail position);
//   - forms with nothing to evaluate, (begin) and (newScope), where a value is needed;
//   - elements and fields read through a variable, (aget a i) / (hget h 'k) / the dot path
//     h.k, in the positions that test or compute with them (the infix spelling a[i], h.k
//     is a reference that the consumer has to follow);
//   - the empty list as operand of map, apply, concat and ==; == on hashes; integer power;
//   - closures written in the right-hand side of a let/letseq binding, next to a binding of
//     a name they use; dot paths and eval inside closures, with the variable shadowed at
//     every level (global, parameter, let).

type arrVar struct {
	name string
	n    int
	ints bool // all elements are integers (else: false / nil / 0 / integers, for tests)
}

type hashVar struct {
	name string
	keys []string
	ints bool
}

var dotHashNames = []string{"p", "r"}
var dotHashKeys = []string{"v", "w"}

func (c *genCtx) jumpNode() node {
	lbl := ""
	if len(c.labels) > 0 && c.r.intn(2) == 0 {
		lbl = pick(c.r, c.labels)
	}
	return node{pick(c.r, []string{"break", "continue"}), lbl}
}

// jumpExpr: an integer expression that may leave the enclosing loop from the inside of a cond
func (c *genCtx) jumpExpr(d int) node {
	j := c.jumpNode()
	t := c.boolExpr(d - 1)
	var e node
	switch c.r.intn(7) {
	case 0:
		e = nCond([]clause{{t, j}}, c.intExpr(d-1))
	case 1:
		e = nCond([]clause{{nAnd(t, j), c.intLeaf()}}, c.intExpr(d-1))
	case 2:
		e = nCond([]clause{{nLet("let", []bind{{c.fresh(), c.intLeaf()}}, nCond([]clause{{t, j}}, nBool(c.r.bool()))), c.intLeaf()}}, c.intExpr(d-1))
	case 3:
		e = nCond([]clause{{nScope(c.tr(c.intLeaf()), nCond([]clause{{t, j}}, nBool(c.r.bool()))), c.intLeaf()}}, c.intExpr(d-1))
	case 4:
		e = nCond([]clause{{nBegin(nCond([]clause{{t, j}}, nInt(0)), nBool(c.r.bool())), c.intLeaf()}}, c.intExpr(d-1))
	case 5:
		e = nCond([]clause{{nOr(nApp("not", t), j), c.intLeaf()}}, c.intExpr(d-1))
	default:
		e = nCond([]clause{{nBool(false), c.intLeaf()}, {nAnd(t, j), c.intLeaf()}}, c.intExpr(d-1))
	}
	if c.r.intn(2) == 0 {
		// a scope of its own between the loop and the cond: the jump has it to remove
		x := c.fresh()
		if c.r.bool() {
			return nLet("let", []bind{{x, c.intLeaf()}}, e)
		}
		return nScope(nDef(x, c.intLeaf()), e)
	}
	return e
}

// emptyValue: (begin) / (newScope) with nothing inside, in a position that needs their value (nil)
func (c *genCtx) emptyValue(d int) node {
	em := nBegin()
	if c.r.bool() {
		em = nScope()
	}
	switch c.r.intn(6) {
	case 0:
		a := c.fresh()
		return nLet(pick(c.r, []string{"let", "letseq"}), []bind{{a, em}, {"b9", c.intExpr(d - 1)}}, c.tr(nSym(a)), nSym("b9"))
	case 1:
		return nCond([]clause{{em, c.intExpr(d - 1)}}, c.intExpr(d-1))
	case 2:
		return nApp("len", nApp("list", c.arg().intExpr(d-1), em, c.arg().intExpr(d-1)))
	case 3:
		return nBegin(c.tr(em), c.intExpr(d-1))
	case 4:
		return nOr(em, c.intExpr(d-1))
	}
	return nApp("len", nArr(em, c.arg().intExpr(d-1)))
}

func (c *genCtx) arrIdx(a arrVar) node {
	if a.n <= 0 {
		return nInt(0)
	}
	return nInt(c.r.intn(a.n))
}

func (c *genCtx) pickArr(ints bool) (arrVar, bool) {
	var cand []arrVar
	for _, a := range c.arrs {
		if a.ints == ints && a.n > 0 {
			cand = append(cand, a)
		}
	}
	if len(cand) == 0 {
		return arrVar{}, false
	}
	return cand[c.r.intn(len(cand))], true
}

func (c *genCtx) pickHash(ints bool) (hashVar, bool) {
	var cand []hashVar
	for _, h := range c.hashes {
		if h.ints == ints {
			cand = append(cand, h)
		}
	}
	if len(cand) == 0 {
		return hashVar{}, false
	}
	return cand[c.r.intn(len(cand))], true
}

// selectorTest: an element or a field as a condition (false, nil and 0 are the falsy ones)
func (c *genCtx) selectorTest() node {
	var sel node
	if a, ok := c.pickArr(false); ok && c.r.intn(3) > 0 {
		sel = nApp("aget", nSym(a.name), c.arrIdx(a))
	} else if h, ok := c.pickHash(false); ok {
		if c.r.bool() {
			sel = nApp("hget", nSym(h.name), nQuote(nSym(pick(c.r, h.keys))))
		} else {
			sel = nDot(h.name, pick(c.r, h.keys))
		}
	} else if a, ok := c.pickArr(true); ok {
		sel = nApp("aget", nSym(a.name), c.arrIdx(a))
	} else {
		return nil
	}
	switch c.r.intn(5) {
	case 0:
		return nApp("not", sel)
	case 1:
		return nAnd(sel, c.lit())
	case 2:
		return nOr(sel, c.lit())
	}
	return sel
}

// selectorExpr: integer arithmetic over elements and fields
func (c *genCtx) selectorExpr(d int) node {
	if t := c.selectorTest(); t != nil && c.r.intn(2) == 0 {
		return nCond([]clause{{t, c.intExpr(d - 1)}}, c.intExpr(d-1))
	}
	a, ok := c.pickArr(true)
	if !ok {
		return c.dotExpr(d)
	}
	x := nApp("aget", nSym(a.name), c.arrIdx(a))
	y := nApp("aget", nSym(a.name), c.arrIdx(a))
	switch c.r.intn(4) {
	case 0:
		return nApp("mod", x, y)
	case 1:
		return nApp(pick(c.r, []string{"+", "-", "*"}), x, c.intLeaf())
	case 2:
		return nCond([]clause{{nApp(pick(c.r, []string{"==", "<", ">="}), x, y), c.intExpr(d - 1)}}, c.intExpr(d-1))
	}
	return nApp("+", x, y)
}

// dotExpr: a field read through a dot path, consumed by an operator
func (c *genCtx) dotExpr(d int) node {
	h, ok := c.pickHash(true)
	if !ok {
		return nil
	}
	key := pick(c.r, h.keys)
	if c.r.intn(10) == 0 {
		key = pick(c.r, dotHashKeys) // may be a key the hash does not have
	}
	dot := nDot(h.name, key)
	switch c.r.intn(4) {
	case 0:
		return nApp("*", dot, nInt(1))
	case 1:
		return nCond([]clause{{nApp(pick(c.r, []string{"==", "<", ">"}), dot, c.intLeaf()), c.intExpr(d - 1)}}, c.intExpr(d-1))
	}
	return nApp(pick(c.r, []string{"+", "-"}), dot, c.intLeaf())
}

func (c *genCtx) extExpr(d int) node {
	switch c.r.intn(12) {
	case 0, 1, 2:
		if c.inLoop == 0 {
			return nil
		}
		return c.jumpExpr(d)
	case 3:
		return c.emptyValue(d)
	case 4, 5, 6:
		return c.selectorExpr(d)
	case 7, 8:
		return c.dotExpr(d)
	case 9:
		return nApp("**", nInt(pick(c.r, []int{0, 1, 2, 3, -1, -2, 10})), nInt(c.r.intn(5)))
	}
	// a script function called with a field: the dot path is written here, in the caller
	if h, ok := c.pickHash(true); ok && len(c.clos) > 0 {
		if f := pick(c.r, c.clos); f.nparams == 1 {
			return nCall(nSym(f.name), nDot(h.name, pick(c.r, h.keys)))
		}
	}
	return nil
}

func (c *genCtx) listLit(n int) node {
	var es []node
	for i := 0; i < n; i++ {
		es = append(es, nInt(pick(c.r, intPalette)))
	}
	return nApp("list", es...)
}

// extTest: conditions over elements, fields, and equality of lists and hashes
func (c *genCtx) extTest(d int) node {
	switch c.r.intn(9) {
	case 0, 1, 6, 7:
		return c.selectorTest()
	case 2: // lists of different lengths, the empty list on either side
		op := pick(c.r, []string{"==", "!="})
		return nApp(op, c.listLit(c.r.intn(3)), c.listLit(c.r.intn(3)))
	case 3: // two hashes
		mk := func() node {
			var args []node
			for _, k := range dotHashKeys[:1+c.r.intn(2)] {
				args = append(args, nQuote(nSym(k)), nInt(c.r.intn(2)))
			}
			if c.r.intn(4) == 0 {
				args = nil
			}
			return nApp("hash", args...)
		}
		l, r := mk(), mk()
		if h, ok := c.pickHash(true); ok && c.r.bool() {
			l = nSym(h.name)
		}
		return nApp(pick(c.r, []string{"==", "!="}), l, r)
	case 4:
		if c.r.bool() {
			return nBegin()
		}
		return nScope()
	}
	if h, ok := c.pickHash(true); ok {
		return nApp(pick(c.r, []string{"==", "<", ">"}), nDot(h.name, pick(c.r, h.keys)), c.intLeaf())
	}
	return nil
}

func (c *genCtx) extStmt(d int) node {
	if c.inLoop > 0 && d > 0 && c.r.intn(3) == 0 {
		// a jump from inside an expression of the loop body: as a statement, or as the argument of a call
		if c.r.bool() {
			return c.jumpExpr(d)
		}
		if len(c.vars) > 0 && c.r.bool() {
			v := pick(c.r, c.vars)
			return nSet(v, nApp("+", nSym(v), c.arg().jumpExpr(d)))
		}
		return c.tr(c.arg().jumpExpr(d))
	}
	switch c.r.intn(5) {
	case 0: // an array of integers
		*c.nameSeq++
		name := fmtName("a", *c.nameSeq)
		n := 1 + c.r.intn(3)
		var es []node
		for i := 0; i < n; i++ {
			es = append(es, nInt(pick(c.r, []int{1, 2, 3, 5, 0})))
		}
		c.arrs = append(c.arrs, arrVar{name, n, true})
		return nDef(name, nArr(es...))
	case 1: // an array to test: false, nil, 0 and others
		*c.nameSeq++
		name := fmtName("t", *c.nameSeq)
		n := 1 + c.r.intn(3)
		var es []node
		for i := 0; i < n; i++ {
			es = append(es, pick(c.r, []node{nBool(false), nNil(), nInt(0), nInt(1), nBool(true), nStr("")}))
		}
		c.arrs = append(c.arrs, arrVar{name, n, false})
		return nDef(name, nArr(es...))
	case 2, 3: // a hash with symbol keys
		name := pick(c.r, dotHashNames)
		for _, h := range c.hashes {
			if h.name == name {
				// written through the dot path
				if h.ints {
					return nSetDot(name, []string{pick(c.r, dotHashKeys)}, c.intExpr(d-1))
				}
				return nil
			}
		}
		ints := c.r.intn(3) > 0
		keys := append([]string(nil), dotHashKeys[:1+c.r.intn(2)]...)
		var args []node
		for _, k := range keys {
			v := nInt(pick(c.r, intPalette))
			if !ints {
				v = pick(c.r, []node{nBool(false), nNil(), nInt(0), nInt(1), nBool(true)})
			}
			args = append(args, nQuote(nSym(k)), v)
		}
		c.hashes = append(c.hashes, hashVar{name, keys, ints})
		return nDef(name, nApp("hash", args...))
	}
	if h, ok := c.pickHash(true); ok {
		return nSetDot(h.name, []string{pick(c.r, h.keys)}, c.intExpr(d-1))
	}
	return nil
}

func fmtName(prefix string, n int) string {
	return prefix + itoa(n)
}

func itoa(n int) string {
	if n == 0 {
		return "0"
	}
	s := ""
	for n > 0 {
		s = string(rune('0'+n%10)) + s
		n /= 10
	}
	return s
}

// rebindCallee makes one of the arguments re-bind the name that is being called, before it yields
// its value: the call still goes to the function the name had when the callee was evaluated.
func (c *genCtx) rebindCallee(f fnInfo, args []node) {
	if len(args) == 0 {
		return
	}
	var ps []string
	for i := 0; i < f.nparams; i++ {
		ps = append(ps, fmtName("m", i))
	}
	rest := ""
	if f.variadic {
		rest = "more"
	}
	body := c.tr(nInt(pick(c.r, intPalette)))
	if f.nparams > 0 && c.r.bool() {
		body = c.tr(nSym(ps[0]))
	}
	i := c.r.intn(len(args))
	args[i] = nBegin(nSet(f.name, nFn(strict(ps...), rest, body)), args[i])
}

// extData: the empty list as an operand
func (c *genCtx) extData(d int, mk func(n int) []node) node {
	lst := func(n int) node { return nApp("list", mk(n)...) }
	switch c.r.intn(7) {
	case 0, 1: // map over a list of 0..2 elements (also the rest of a one-element list)
		cc := c.child()
		p := c.fresh()
		cc.vars = append(cc.vars, p)
		cc.self, cc.labels, cc.inLoop = nil, nil, 0
		coll := lst(c.r.intn(3))
		if c.r.intn(3) == 0 {
			coll = nApp("rest", lst(1))
		}
		m := nApp("map", nFn(strict(p), "", cc.tr(cc.intExpr(d-1))), coll)
		if c.r.bool() {
			return nBegin(c.tr(m), c.intLeaf())
		}
		return nApp("len", m)
	case 2, 3: // apply to a list of 0..2 arguments
		n := c.r.intn(3)
		if c.r.bool() {
			return nApp("apply", nFn(nil, "more", nApp("len", nSym("more"))), lst(n))
		}
		return nApp("apply", nSym(pick(c.r, []string{"+", "*"})), lst(1+n))
	case 4, 5: // concat of lists, some of them empty
		k := 2 + c.r.intn(2)
		var ls []node
		for i := 0; i < k; i++ {
			ls = append(ls, lst(c.r.intn(3)))
		}
		return nApp("len", nApp("concat", ls...))
	}
	return nCond([]clause{{nApp("==", lst(c.r.intn(3)), lst(c.r.intn(3))), c.intLeaf()}}, c.intLeaf())
}

// extClosureStmt: where a closure is written decides what its free variables mean
func (c *genCtx) extClosureStmt(d int) node {
	a := pick(c.r, namePool)
	kind := pick(c.r, []string{"let", "letseq"})
	v1, v2 := nInt(1+c.r.intn(3)), nInt(5+c.r.intn(3))
	hv := func(n int) node { return nApp("hash", nQuote(nSym("v")), nInt(n)) }
	hn := pick(c.r, dotHashNames)
	global := func(n int) []node {
		// sometimes a global of the same name, sometimes none (the variable is then found or not at all)
		if c.r.intn(3) == 0 {
			return nil
		}
		for i := range c.hashes {
			if c.hashes[i].name == hn {
				c.hashes[i] = hashVar{hn, []string{"v"}, true}
				return []node{nDef(hn, hv(n))}
			}
		}
		c.hashes = append(c.hashes, hashVar{hn, []string{"v"}, true})
		return []node{nDef(hn, hv(n))}
	}
	switch c.r.intn(12) {
	case 0: // the closure is written before a binding of the name it uses, in the same let
		return c.tr(nLet(kind, []bind{{"f1", nFn(nil, "", nSym(a))}, {a, v2}}, nApp("+", nCall(nSym("f1")), nSym(a))))
	case 1: // ... and after one
		return c.tr(nLet(kind, []bind{{a, v2}, {"y1", nSym(a)}, {"f1", nFn(nil, "", nSym(a))}}, nApp("+", nApp("*", nInt(10), nSym("y1")), nCall(nSym("f1")))))
	case 2: // the same inside a function
		name := pick(c.r, []string{"gb", "gb2"})
		return nBegin(nDefn(name, nil, "", nLet(kind, []bind{{"f1", nFn(nil, "", nSym(a))}, {a, v2}}, nCall(nSym("f1")))), c.tr(nCall(nSym(name))))
	case 3: // a name bound twice by letseq: the closure between the two keeps the first
		return c.tr(nLet("letseq", []bind{{a, v1}, {"f1", nFn(nil, "", nSym(a))}, {a, v2}}, nApp("+", nApp("*", nInt(10), nCall(nSym("f1"))), nSym(a))))
	case 4: // the closure updates the name it sees
		return nLet(kind, []bind{{"f1", nFn(nil, "", nSet(a, nApp("+", nSym(a), nInt(1))))}, {a, v2}}, c.tr(nCall(nSym("f1"))), c.tr(nSym(a)))
	case 5: // the closure escapes from the let and is called later
		name := pick(c.r, []string{"c1", "c2"})
		c.clos = append(c.clos, fnInfo{name, 0, false})
		return nDef(name, nLet(kind, []bind{{"f1", nFn(nil, "", c.tr(nSym(a)))}, {a, v2}}, nSym("f1")))
	case 6: // a dot path inside a closure: the variable is the maker's parameter, not the global
		pre := global(1)
		inner := nFn(nil, "", nApp("+", nDot(hn, "v"), nInt(1)))
		if c.r.intn(3) == 0 {
			inner = nFn(nil, "", nCond([]clause{{nApp("==", nInt(3), nDot(hn, "v")), nInt(30)}}, nInt(40)))
		}
		return nBegin(append(pre, nDefn("mkd", strict(hn), "", inner), c.tr(nCall(nCall(nSym("mkd"), hv(3)))))...)
	case 7: // shadowed by a let around a defn
		pre := global(1)
		return nBegin(append(pre, nLet("let", []bind{{hn, hv(3)}}, nDefn("hd", nil, "", nApp("+", nDot(hn, "v"), nInt(1))), c.tr(nCall(nSym("hd")))))...)
	case 8: // a dot path as the argument of a script function is read where it is written
		pre := global(1)
		if c.r.bool() {
			return nBegin(append(pre, nDefn("fa", strict("x9", hn), "", nApp("+", nSym("x9"), nInt(1))),
				nDefn("ga", strict(hn), "", nCall(nSym("fa"), nDot(hn, "v"), hv(5))), c.tr(nCall(nSym("ga"), hv(99))))...)
		}
		return nBegin(append(pre, nDefn("fa", strict("x9"), "", nApp("+", nSym("x9"), nInt(1))),
			nDefn("ga", strict(hn), "", nCall(nSym("fa"), nDot(hn, "v"))), c.tr(nCall(nSym("ga"), hv(99))))...)
	case 9: // a closure that updates a field of the hash it captured
		return nBegin(append(global(1), nDefn("mku", strict(hn), "", nFn(strict("n9"), "", nSetDot(hn, []string{"v"}, nApp("+", nDot(hn, "v"), nSym("n9"))))),
			nDef("u1", nCall(nSym("mku"), hv(10))), c.tr(nCall(nSym("u1"), nInt(1))), c.tr(nCall(nSym("u1"), nInt(2))))...)
	case 10: // eval inside a closure runs in the closure's scope
		var pre []node
		if c.r.intn(3) > 0 {
			pre = append(pre, nDef(a, v1))
		}
		return nBegin(append(pre, nDefn("mke", strict(a), "", nFn(nil, "", nEval(nSym(a)))), c.tr(nCall(nCall(nSym("mke"), v2))))...)
	}
	// a let inside the closure body shadows, the right-hand side still sees the captured one
	return nBegin(nDefn("mkl", strict(a), "", nFn(nil, "", nLet(kind, []bind{{a, nApp("+", nSym(a), nInt(1))}}, nSym(a)))), c.tr(nCall(nCall(nSym("mkl"), v2))))
}

// ---------------------------------------------------------------- small exhaustive families

type namedProg struct {
	id   string
	prog []node
}

// enumJumpPrograms: break / continue (plain and to the label of an outer loop) at every position of a
// cond inside a loop body -- arm or predicate, through and / let / newScope / begin, directly or inside
// a call argument -- with nothing, a let or a newScope between the loop and the cond, at top level and
// inside a function. The forms after the loop show which scopes are still there: x is bound outside,
// by the wrap and by the function's parameter; the loop variable is bound by nobody afterwards.
func enumJumpPrograms() []namedProg {
	var out []namedProg
	for _, jk := range []string{"break", "continue"} {
		for _, lbl := range []string{"", "outer"} {
			for pos := 0; pos < 8; pos++ {
				for wrap := 0; wrap < 3; wrap++ {
					for ctx := 0; ctx < 2; ctx++ {
						j := node{jk, lbl}
						hit := nApp("==", nSym("i"), nInt(1))
						var e node
						switch pos {
						case 0:
							e = nCond([]clause{{hit, j}}, nInt(0))
						case 1:
							e = nApp("tr", nInt(4), nCond([]clause{{hit, j}}, nSym("i")))
						case 2:
							e = nCond([]clause{{nAnd(hit, j), nInt(1)}}, nInt(2))
						case 3:
							e = nCond([]clause{{nLet("let", []bind{{"q", nInt(1)}}, nCond([]clause{{hit, j}}, nBool(false))), nInt(1)}}, nInt(2))
						case 4:
							e = nCond([]clause{{nScope(nCond([]clause{{hit, j}}, nBool(false))), nInt(1)}}, nInt(2))
						case 5:
							e = nCond([]clause{{nBegin(nCond([]clause{{hit, j}}, nInt(0)), nBool(false)), nInt(1)}}, nInt(2))
						case 6:
							e = nApp("tr", nInt(4), nApp("+", nInt(1), nCond([]clause{{nAnd(hit, j), nInt(1)}}, nInt(2))))
						default:
							e = nCond([]clause{{nBool(false), nInt(1)}, {nOr(nApp("not", hit), j), nInt(2)}}, nInt(3))
						}
						switch wrap {
						case 1:
							e = nLet("let", []bind{{"x", nInt(9)}}, e)
						case 2:
							e = nScope(nDef("x", nInt(9)), e)
						}
						inner := nFor("", nDef("i", nInt(0)), nApp("<", nSym("i"), nInt(3)), nSet("i", nApp("+", nSym("i"), nInt(1))),
							nApp("tr", nInt(1), nSym("i")), e, nApp("tr", nInt(2), nSym("i")))
						loop := inner
						if lbl != "" {
							loop = nFor("outer", nDef("k", nInt(0)), nApp("<", nSym("k"), nInt(2)), nSet("k", nApp("+", nSym("k"), nInt(1))),
								nApp("tr", nInt(5), nSym("k")), nLet("let", []bind{{"y", nInt(8)}}, inner), nApp("tr", nInt(6), nSym("k")))
						}
						prog := []node{nDef("x", nInt(7)), nDef("y", nInt(6))}
						if ctx == 0 {
							prog = append(prog, loop)
						} else {
							prog = append(prog, nDefn("g", strict("x"), "", loop, nApp("tr", nInt(90), nApp("list", nSym("x"), nSym("y")))), nCall(nSym("g"), nInt(5)))
						}
						prog = append(prog, nApp("tr", nInt(91), nApp("list", nSym("x"), nSym("y"))), nSym("i"))
						out = append(out, namedProg{"jump-" + jk + "-" + lbl + "-" + itoa(pos) + "-" + itoa(wrap) + "-" + itoa(ctx), prog})
					}
				}
			}
		}
	}
	return out
}

// enumDataPrograms: the empty list and lists of different lengths under map / apply / concat / ==,
// == between hashes, the empty hash literal evaluated twice, integer power, forms without anything to
// evaluate in the positions that need their value.
func enumDataPrograms() []namedProg {
	var out []namedProg
	add := func(id string, prog ...node) { out = append(out, namedProg{"data-" + id, prog}) }
	// truth of boundary values where a value is taken as a condition: only false, nil, the integer zero and
	// the character zero are false; every float -- zero, negative zero -- is true, as every string, array, list.
	for i, v := range []node{{"flt", "0.0"}, {"flt", "-0.0"}, {"flt", "1.5"}, {"flt", "0e0"}, nInt(0), nInt(-1), nStr(""), nArr(), nNil(), nBool(false)} {
		id := itoa(i)
		add("truth-cond-"+id, nApp("tr", nInt(1), nCond([]clause{{v, nInt(10)}}, nInt(20))))
		add("truth-not-"+id, nApp("tr", nInt(1), nApp("not", v)))
		add("truth-and-"+id, nApp("tr", nInt(1), nCond([]clause{{nAnd(v, nInt(7)), nInt(10)}}, nInt(20))))
		add("truth-or-"+id, nApp("tr", nInt(1), nCond([]clause{{nOr(v, nBool(false)), nInt(10)}}, nInt(20))))
		add("truth-var-"+id, nDef("c", v), nApp("tr", nInt(1), nCond([]clause{{nSym("c"), nInt(10)}}, nInt(20))))
		add("truth-for-"+id, nDef("k", nInt(0)), nFor("", nDef("i", nInt(0)), nAnd(nApp("<", nSym("i"), nInt(2)), v), nSet("i", nApp("+", nSym("i"), nInt(1))), nSet("k", nApp("+", nSym("k"), nInt(1)))), nApp("tr", nInt(1), nSym("k")))
	}
	lst := func(n int) node {
		var es []node
		for i := 0; i < n; i++ {
			es = append(es, nInt(i+1))
		}
		return nApp("list", es...)
	}
	arr := func(n int) node {
		var es []node
		for i := 0; i < n; i++ {
			es = append(es, nInt(i+1))
		}
		return nArr(es...)
	}
	sq := nFn(strict("x"), "", nApp("tr", nInt(2), nApp("*", nSym("x"), nSym("x"))))
	for n := 0; n < 3; n++ {
		add("map-list-"+itoa(n), nApp("tr", nInt(1), nApp("map", sq, lst(n))))
		add("map-arr-"+itoa(n), nApp("tr", nInt(1), nApp("map", sq, arr(n))))
		add("map-rest-"+itoa(n), nApp("tr", nInt(1), nApp("map", sq, nApp("rest", lst(n+1)))))
		add("apply-list-"+itoa(n), nApp("tr", nInt(1), nApp("apply", nFn(nil, "r", nApp("len", nSym("r"))), lst(n))))
		add("apply-arr-"+itoa(n), nApp("tr", nInt(1), nApp("apply", nFn(nil, "r", nApp("len", nSym("r"))), arr(n))))
		for m := 0; m < 3; m++ {
			add("concat-"+itoa(n)+"-"+itoa(m), nApp("tr", nInt(1), nApp("concat", lst(n), lst(m))))
			add("concat3-"+itoa(n)+"-"+itoa(m), nApp("tr", nInt(1), nApp("concat", lst(n), lst(0), lst(m))))
			for _, op := range []string{"==", "!="} {
				add("listeq-"+op+"-"+itoa(n)+"-"+itoa(m), nApp("tr", nInt(1), nApp(op, lst(n), lst(m))))
				add("arreq-"+op+"-"+itoa(n)+"-"+itoa(m), nApp("tr", nInt(1), nApp(op, arr(n), arr(m))))
			}
		}
	}
	hs := []node{nApp("hash"), nApp("hash", nQuote(nSym("a")), nInt(1)), nApp("hash", nQuote(nSym("a")), nInt(2)),
		nApp("hash", nQuote(nSym("a")), nInt(1), nQuote(nSym("b")), nInt(2)), nApp("hash", nQuote(nSym("b")), nInt(2), nQuote(nSym("a")), nInt(1)),
		nApp("hash", nQuote(nSym("b")), nInt(1)), nEHash()}
	for i, a := range hs {
		for k, b := range hs {
			add("hasheq-"+itoa(i)+"-"+itoa(k), nApp("tr", nInt(1), nApp("==", a, b)), nApp("tr", nInt(2), nApp("!=", nArr(a), nArr(b))))
		}
	}
	for pos := 0; pos < 4; pos++ {
		var body node = nEHash()
		switch pos {
		case 1:
			body = nLet("let", []bind{{"t", nEHash()}}, nSym("t"))
		case 2:
			body = nCond([]clause{{nBool(true), nEHash()}}, nNil())
		case 3:
			body = nBegin(nInt(1), nEHash())
		}
		add("ehash-fn-"+itoa(pos), nDefn("mk", nil, "", body), nDef("h1", nCall(nSym("mk"))), nDef("h2", nCall(nSym("mk"))),
			nApp("hset", nSym("h1"), nQuote(nSym("a")), nInt(1)), nApp("tr", nInt(1), nApp("list", nSym("h1"), nSym("h2"))))
	}
	add("ehash-loop", nDef("r", nArr()),
		nFor("", nDef("i", nInt(0)), nApp("<", nSym("i"), nInt(3)), nSet("i", nApp("+", nSym("i"), nInt(1))),
			nLet("let", []bind{{"h", nEHash()}}, nApp("hset", nSym("h"), nSym("i"), nSym("i")), nSet("r", nApp("append", nSym("r"), nApp("len", nSym("h")))))),
		nApp("tr", nInt(1), nSym("r")))
	for _, b := range []int{-2, -1, 0, 1, 2, 3, 10} {
		for e := 0; e < 5; e++ {
			add("pow-"+itoa(b+2)+"-"+itoa(e), nApp("tr", nInt(1), nApp("**", nInt(b), nInt(e))))
		}
	}
	for i, em := range []node{nBegin(), nScope()} {
		id := itoa(i)
		add("empty-let-"+id, nApp("tr", nInt(1), nLet("let", []bind{{"a", em}}, nSym("a"))))
		add("empty-letseq-"+id, nApp("tr", nInt(1), nLet("letseq", []bind{{"a", em}, {"b", nInt(2)}}, nApp("list", nSym("a"), nSym("b")))))
		add("empty-pred-"+id, nApp("tr", nInt(1), nCond([]clause{{em, nInt(1)}}, nInt(2))))
		add("empty-arm-"+id, nApp("tr", nInt(1), nApp("list", nInt(4), nCond([]clause{{nBool(true), em}}, nInt(5)))))
		add("empty-arg-"+id, nApp("tr", nInt(1), nApp("list", nInt(7), nInt(8), nLet("let", []bind{{"a", em}, {"b", nInt(2)}}, nApp("list", nSym("a"), nSym("b"))))))
		add("empty-arr-"+id, nApp("tr", nInt(1), nArr(nInt(7), em)))
		add("empty-and-"+id, nApp("tr", nInt(1), nAnd(nInt(1), em)), nApp("tr", nInt(2), nOr(em, nInt(3))))
		add("empty-fn-"+id, nDefn("f", nil, "", em), nApp("tr", nInt(1), nApp("list", nInt(5), nCall(nSym("f")))))
		add("empty-def-"+id, nDef("d", em), nApp("tr", nInt(1), nSym("d")))
	}
	return out
}

// enumScopePrograms: a closure written in a right-hand side of let / letseq next to a binding of the name
// it uses (before or after it, read or updated, called inside the let or after it, at top level or in a
// function); a dot path, eval and a plain variable inside a closure whose variable is a maker's parameter
// or a let variable, with or without a global of that name; a dot path as the argument of a script
// function whose parameter has the same name.
func enumScopePrograms() []namedProg {
	var out []namedProg
	add := func(id string, prog ...node) { out = append(out, namedProg{"scope-" + id, prog}) }
	hv := func(n int) node { return nApp("hash", nQuote(nSym("v")), nInt(n)) }
	for _, kind := range []string{"let", "letseq"} {
		for g := 0; g < 2; g++ { // with / without a global x
			for ctx := 0; ctx < 2; ctx++ {
				pre := []node{}
				if g == 1 {
					pre = append(pre, nDef("x", nInt(1)))
				}
				id := kind + "-" + itoa(g) + "-" + itoa(ctx)
				wrap := func(name string, body node) {
					prog := append([]node{}, pre...)
					if ctx == 1 {
						prog = append(prog, nDefn("g", nil, "", body), nApp("tr", nInt(9), nCall(nSym("g"))))
					} else {
						prog = append(prog, nApp("tr", nInt(9), body))
					}
					if g == 1 {
						prog = append(prog, nApp("tr", nInt(8), nSym("x")))
					}
					add(name+"-"+id, prog...)
				}
				f := nFn(nil, "", nSym("x"))
				wrap("before", nLet(kind, []bind{{"f", f}, {"x", nInt(2)}}, nArr(nCall(nSym("f")), nSym("x"))))
				wrap("after", nLet(kind, []bind{{"x", nInt(2)}, {"y", nSym("x")}, {"f", f}}, nArr(nSym("y"), nCall(nSym("f")))))
				wrap("between", nLet(kind, []bind{{"x", nInt(2)}, {"f", f}, {"x", nInt(3)}}, nArr(nCall(nSym("f")), nSym("x"))))
				wrap("update", nLet(kind, []bind{{"f", nFn(nil, "", nSet("x", nApp("+", nSym("x"), nInt(10))))}, {"x", nInt(2)}}, nCall(nSym("f")), nArr(nCall(nSym("f")), nSym("x"))))
				wrap("def-in-rhs", nLet(kind, []bind{{"a", nBegin(nDef("z", nInt(4)), nInt(5))}, {"b", nFn(nil, "", nSym("z"))}}, nArr(nSym("a"), nCall(nSym("b")))))
				wrap("escapes", nCall(nLet(kind, []bind{{"f", f}, {"x", nInt(2)}}, nSym("f"))))
				wrap("nested", nLet(kind, []bind{{"x", nInt(2)}}, nLet(kind, []bind{{"f", f}, {"x", nInt(3)}}, nArr(nCall(nSym("f")), nSym("x")))))
				wrap("param", nCall(nFn(strict("x"), "", nLet(kind, []bind{{"f", f}, {"x", nInt(3)}}, nArr(nCall(nSym("f")), nSym("x")))), nInt(2)))
			}
		}
	}
	for g := 0; g < 2; g++ {
		pre := []node{}
		if g == 1 {
			pre = append(pre, nDef("p", hv(1)), nDef("a", nInt(1)))
		}
		id := itoa(g)
		addp := func(name string, prog ...node) { add(name+"-"+id, append(append([]node{}, pre...), prog...)...) }
		addp("dot-maker", nDefn("mk", strict("p"), "", nFn(nil, "", nApp("+", nDot("p", "v"), nInt(1)))), nApp("tr", nInt(1), nCall(nCall(nSym("mk"), hv(3)))))
		addp("dot-maker-test", nDefn("mk", strict("p"), "", nFn(nil, "", nCond([]clause{{nApp("==", nInt(3), nDot("p", "v")), nInt(30)}}, nInt(40)))), nApp("tr", nInt(1), nCall(nCall(nSym("mk"), hv(3)))))
		addp("dot-let-defn", nLet("let", []bind{{"p", hv(3)}}, nDefn("h", nil, "", nApp("+", nDot("p", "v"), nInt(1))), nApp("tr", nInt(1), nCall(nSym("h")))))
		addp("dot-arg-2", nDefn("f", strict("x", "p"), "", nApp("+", nSym("x"), nInt(1))), nDefn("g", strict("p"), "", nCall(nSym("f"), nDot("p", "v"), hv(5))), nApp("tr", nInt(1), nCall(nSym("g"), hv(99))))
		addp("dot-arg-1", nDefn("f", strict("x"), "", nApp("+", nSym("x"), nInt(1))), nDefn("g", strict("p"), "", nCall(nSym("f"), nDot("p", "v"))), nApp("tr", nInt(1), nCall(nSym("g"), hv(99))))
		addp("dot-arg-closure", nDefn("mk", strict("p"), "", nFn(nil, "", nCall(nFn(strict("x"), "", nApp("+", nSym("x"), nInt(1))), nDot("p", "v")))), nApp("tr", nInt(1), nCall(nCall(nSym("mk"), hv(3)))))
		addp("dot-set", nDefn("mk", strict("p"), "", nFn(strict("n"), "", nSetDot("p", []string{"v"}, nApp("+", nDot("p", "v"), nSym("n"))))),
			nDef("u", nCall(nSym("mk"), hv(10))), nApp("tr", nInt(1), nCall(nSym("u"), nInt(1))), nApp("tr", nInt(2), nCall(nSym("u"), nInt(2))))
		addp("dot-def", nDefn("mk", strict("p"), "", nFn(nil, "", nDef("y", nDot("p", "v")), nSym("y"))), nApp("tr", nInt(1), nCall(nCall(nSym("mk"), hv(3)))))
		addp("eval-maker", nDefn("mk", strict("a"), "", nFn(nil, "", nEval(nSym("a")))), nApp("tr", nInt(1), nCall(nCall(nSym("mk"), nInt(5)))))
		addp("eval-let", nLet("let", []bind{{"a", nInt(5)}}, nDefn("h", nil, "", nEval(nApp("+", nSym("a"), nInt(1)))), nApp("tr", nInt(1), nCall(nSym("h")))))
		addp("plain-maker", nDefn("mk", strict("a"), "", nFn(nil, "", nApp("+", nSym("a"), nInt(1)))), nApp("tr", nInt(1), nCall(nCall(nSym("mk"), nInt(5)))))
	}
	// closures made in the iterations of a (tail-)recursive function: each captures the parameters and the
	// definitions of ITS activation, whatever later activations do; called after the recursion has ended,
	// reading and updating what they captured.
	callAll := func(k int) []node { // (tr 1 [((aget fs 0)) ...]) twice: updates must persist per closure
		var cs []node
		for i := 0; i < k; i++ {
			cs = append(cs, nCall(nApp("aget", nSym("fs"), nInt(i))))
		}
		return []node{nApp("tr", nInt(1), nArr(cs...)), nApp("tr", nInt(2), nArr(cs...))}
	}
	for g := 0; g < 2; g++ {
		pre := []node{}
		if g == 1 {
			pre = append(pre, nDef("k", nInt(50)), nDef("c", nInt(60)))
		}
		id := itoa(g)
		addp := func(name string, prog ...node) { add(name+"-"+id, append(append([]node{}, pre...), prog...)...) }
		rec := func(last node) node { return nCond([]clause{{nApp("==", nSym("k"), nInt(0)), nSym("acc")}}, last) }
		selfcall := func(extra node) node {
			return nCall(nSym("mk"), nApp("-", nSym("k"), nInt(1)), nApp("append", nSym("acc"), extra))
		}
		// reads the parameter
		addp("iter-param", append([]node{nDefn("mk", strict("k", "acc"), "", rec(selfcall(nFn(nil, "", nSym("k"))))),
			nDef("fs", nCall(nSym("mk"), nInt(3), nArr()))}, callAll(3)...)...)
		// updates the parameter: a counter per activation
		addp("iter-counter", append([]node{nDefn("mk", strict("k", "acc"), "", rec(selfcall(nFn(nil, "", nSet("k", nApp("+", nSym("k"), nInt(100))), nSym("k"))))),
			nDef("fs", nCall(nSym("mk"), nInt(3), nArr()))}, callAll(3)...)...)
		// a definition in the function's own scope
		addp("iter-def", append([]node{nDefn("mk", strict("k", "acc"), "", nDef("c", nApp("*", nSym("k"), nInt(10))), rec(selfcall(nFn(nil, "", nSet("c", nApp("+", nSym("c"), nInt(1))), nSym("c"))))),
			nDef("fs", nCall(nSym("mk"), nInt(3), nArr()))}, callAll(3)...)...)
		// the self call under let / newScope (their scopes are popped by a tail call, the function's is not theirs)
		addp("iter-let", append([]node{nDefn("mk", strict("k", "acc"), "", rec(nLet("let", []bind{{"c", nApp("*", nSym("k"), nInt(10))}}, selfcall(nFn(nil, "", nArr(nSym("k"), nSym("c"))))))),
			nDef("fs", nCall(nSym("mk"), nInt(3), nArr()))}, callAll(3)...)...)
		// not in tail position (control): the same closures through ordinary recursion
		addp("iter-nontail", append([]node{nDefn("mk", strict("k"), "", nCond([]clause{{nApp("==", nSym("k"), nInt(0)), nArr()}},
			nApp("append", nCall(nSym("mk"), nApp("-", nSym("k"), nInt(1))), nFn(nil, "", nSet("k", nApp("+", nSym("k"), nInt(100))), nSym("k"))))),
			nDef("fs", nCall(nSym("mk"), nInt(3)))}, callAll(3)...)...)
	}
	// a closure made as the FIRST thing in a block that is still empty (newScope, let without bindings, a
	// function body, a loop body): names the block defines afterwards -- also the closure's own name -- are
	// the block's, for the closure as for the rest of the block.
	for g := 0; g < 2; g++ {
		pre := []node{}
		if g == 1 {
			pre = append(pre, nDef("v", nInt(1)), nDef("x", nInt(1)))
		}
		id := itoa(g)
		addp := func(name string, prog ...node) { add(name+"-"+id, append(append([]node{}, pre...), prog...)...) }
		get := nFn(nil, "", nSym("v"))
		setter := nFn(strict("n"), "", nSet("v", nSym("n")))
		blocks := map[string]func(body ...node) node{
			"scope":  func(body ...node) node { return nScope(body...) },
			"let0":   func(body ...node) node { return nLet("let", nil, body...) },
			"fnbody": func(body ...node) node { return nCall(nFn(nil, "", body...)) },
			"inlet":  func(body ...node) node { return nLet("let", []bind{{"x", nInt(2)}}, nScope(body...)) },
		}
		for bn, blk := range blocks {
			addp("first-get-"+bn, nApp("tr", nInt(1), blk(nDef("get", get), nDef("v", nInt(10)), nCall(nSym("get")))))
			addp("first-escape-"+bn, nDef("h", blk(nDef("get", get), nDef("v", nInt(10)), nSym("get"))), nApp("tr", nInt(1), nCall(nSym("h"))))
			addp("first-setget-"+bn, nApp("tr", nInt(1), blk(nDef("put", setter), nDef("get", get), nDef("v", nInt(10)), nCall(nSym("put"), nInt(7)), nArr(nCall(nSym("get")), nSym("v")))))
			addp("first-rec-"+bn, nApp("tr", nInt(1), blk(nDefn("down", strict("n"), "", nCond([]clause{{nApp("==", nSym("n"), nInt(0)), nInt(0)}}, nApp("+", nInt(1), nCall(nSym("down"), nApp("-", nSym("n"), nInt(1)))))), nCall(nSym("down"), nInt(3)))))
		}
		addp("first-get-for", nDef("r", nInt(0)), nFor("", nDef("i", nInt(0)), nApp("<", nSym("i"), nInt(2)), nSet("i", nApp("+", nSym("i"), nInt(1))),
			nDef("get", get), nDef("v", nApp("+", nInt(10), nSym("i"))), nSet("r", nApp("+", nSym("r"), nCall(nSym("get"))))), nApp("tr", nInt(1), nSym("r")))
	}
	return out
}

// enumSelectorPrograms: an element a[i] or a field h.k of a variable where its value is consumed -- the test
// of a cond, under not / and / or, as operand of mod, + and == -- for elements false, 0, 1, nil and "".
// Rendered in the infix syntax (a[i], h.k are references there that the consumer has to follow) and, as the
// control, in the prefix syntax.
func enumSelectorPrograms() []namedProg {
	var out []namedProg
	elems := []node{nBool(false), nInt(0), nInt(1), nNil(), nStr("")}
	keys := []string{"k", "j", "m", "n", "s"}
	var hargs []node
	for i, e := range elems {
		hargs = append(hargs, nQuote(nSym(keys[i])), e)
	}
	pre := []node{nDef("a", nArr(elems...)), nDef("h", nApp("hash", hargs...)), nDef("b", nArr(nInt(5), nInt(2))), nDef("x", nInt(0))}
	add := func(id string, forms ...node) {
		out = append(out, namedProg{"sel-" + id, append(append([]node{}, pre...), forms...)})
	}
	yes, no := nApp("tr", nInt(1), nInt(1)), nApp("tr", nInt(1), nInt(2))
	for i := range elems {
		sels := map[string]node{
			"aget": nApp("aget", nSym("a"), nInt(i)),
			"hget": nApp("hget", nSym("h"), nQuote(nSym(keys[i]))),
			"dot":  nDot("h", keys[i]),
		}
		for name, sel := range sels {
			id := name + "-" + itoa(i)
			add("if-"+id, nCond([]clause{{sel, yes}}, no))
			add("not-"+id, nSet("x", nApp("not", sel)), nApp("tr", nInt(2), nSym("x")))
			add("and-"+id, nCond([]clause{{nAnd(sel, nInt(5)), yes}}, no))
			add("or-"+id, nCond([]clause{{nOr(sel, nBool(false)), yes}}, no))
			add("ifnot-"+id, nCond([]clause{{nApp("not", sel), yes}}, no))
		}
	}
	b0, b1 := nApp("aget", nSym("b"), nInt(0)), nApp("aget", nSym("b"), nInt(1))
	add("mod", nSet("x", nApp("mod", b0, b1)), nApp("tr", nInt(2), nSym("x")))
	add("plus", nSet("x", nApp("+", b0, b1)), nApp("tr", nInt(2), nSym("x")))
	add("pow", nSet("x", nApp("**", b1, b1)), nApp("tr", nInt(2), nSym("x")))
	add("eq", nCond([]clause{{nApp("==", b0, nInt(5)), yes}}, no))
	add("lt", nCond([]clause{{nApp("<", b0, b1), yes}}, no))
	add("mod-if", nCond([]clause{{nApp("mod", b0, nInt(5)), yes}}, no))
	return out
}
