package main

// Family "num" (C07): the numeric tower.  A case is one pair of typed numbers
// {a, b}; its events are (op a b) and (op b a) on the real interpreter, for
// the comparisons < <= > >= == !=, the arithmetic operators + - * / and mod.
// Validated by TLC against spec/NumTower.tla (spec/NumTrace.tla).
//
// Every case has a route by which its 22 operations are reached: "text"
// (EvalString of the program text), "apply" (Zlisp.Apply on the builtin
// function object, as an embedding program calls a script function) or "go"
// (the exported Go functions that do the work: NumericDo, IntegerDo,
// CompareFunction).  The statement ("an error rather than a crash") holds for
// the library, not only for what the script evaluator happens to recover, so
// the expected result is the same on every route.
//
// 64-bit quantities travel as 4 little-endian 16-bit limbs (TLC integers are 32-bit);
// a float64 is its IEEE bit pattern, a rune its sign-extended value.
//
// The only primitive the specification delegates is the value of a float64
// + - * / on two float64 operands (and the correctly rounded quotient of two
// integers).  The harness supplies its graph per event ("prim"), computed with
// math/big (exact rationals, one rounding) and cross-checked against the
// machine's float64 arithmetic; it never calls the library for it.  Which
// operands the primitive is applied to is decided by the specification: it
// looks the entry up at the operands it derives itself from a and b.

import (
	"encoding/json"
	"fmt"
	"math"
	"math/big"
	"strconv"

	zygo "github.com/glycerine/zygomys/v9/zygo"
)

type ntNum struct {
	T    string // int | uint | chr | flt
	Bits uint64
}

func numI(v int64) ntNum   { return ntNum{"int", uint64(v)} }
func numU(v uint64) ntNum  { return ntNum{"uint", v} }
func numC(v int32) ntNum   { return ntNum{"chr", uint64(int64(v))} }
func numF(v float64) ntNum { return ntNum{"flt", math.Float64bits(v)} }
func numFB(b uint64) ntNum { return ntNum{"flt", b} }

func numLimbs(b uint64) []int {
	out := make([]int, 4)
	for i := 0; i < 4; i++ {
		out[i] = int(b >> (16 * uint(i)) & 0xffff)
	}
	return out
}

func numUnlimbs(xs []int) uint64 {
	var b uint64
	for i := 0; i < 4 && i < len(xs); i++ {
		b |= uint64(xs[i]&0xffff) << (16 * uint(i))
	}
	return b
}

func (n ntNum) tagged() any { return []any{n.T, numLimbs(n.Bits)} }

func (n ntNum) sexp() zygo.Sexp {
	switch n.T {
	case "int":
		return &zygo.SexpInt{Val: int64(n.Bits)}
	case "uint":
		return &zygo.SexpUint64{Val: n.Bits}
	case "chr":
		return &zygo.SexpChar{Val: rune(int32(int64(n.Bits)))}
	}
	return &zygo.SexpFloat{Val: math.Float64frombits(n.Bits)}
}

// human readable form (for reports only)
func (n ntNum) String() string {
	switch n.T {
	case "int":
		return strconv.FormatInt(int64(n.Bits), 10)
	case "uint":
		return strconv.FormatUint(n.Bits, 10) + "ULL"
	case "chr":
		return fmt.Sprintf("chr(%d)", int64(n.Bits))
	}
	f := math.Float64frombits(n.Bits)
	if math.IsNaN(f) {
		return fmt.Sprintf("NaN(%#x)", n.Bits)
	}
	return strconv.FormatFloat(f, 'g', -1, 64)
}

// same reports whether a value of the interpreter is exactly the number n.
func (n ntNum) same(x zygo.Sexp) bool {
	switch v := x.(type) {
	case *zygo.SexpInt:
		return n.T == "int" && uint64(v.Val) == n.Bits
	case *zygo.SexpUint64:
		return n.T == "uint" && v.Val == n.Bits
	case *zygo.SexpChar:
		return n.T == "chr" && uint64(int64(v.Val)) == n.Bits
	case *zygo.SexpFloat:
		return n.T == "flt" && math.Float64bits(v.Val) == n.Bits
	}
	return false
}

// ---------------------------------------------------------------- driver

type numDriver struct {
	env   *zygo.Zlisp
	spell map[ntNum]string
	nsym  int
}

func newNumDriver() *numDriver {
	d := &numDriver{spell: map[ntNum]string{}}
	d.env = zygo.NewZlisp()
	d.env.StandardSetup()
	// identity, to read a literal back in operand position
	d.env.AddFunction("zvid", func(env *zygo.Zlisp, name string, args []zygo.Sexp) (zygo.Sexp, error) {
		if len(args) != 1 {
			return zygo.SexpNull, zygo.WrongNargs
		}
		return args[0], nil
	})
	return d
}

// numLiteral proposes the source spelling of n, "" if there is none.
func numLiteral(n ntNum) string {
	switch n.T {
	case "int":
		return strconv.FormatInt(int64(n.Bits), 10)
	case "uint":
		return strconv.FormatUint(n.Bits, 10) + "ULL"
	case "chr":
		c := int64(n.Bits)
		if (c >= '0' && c <= '9') || (c >= 'a' && c <= 'z') || (c >= 'A' && c <= 'Z') {
			return "'" + string(rune(c)) + "'"
		}
		return ""
	}
	f := math.Float64frombits(n.Bits)
	switch {
	case math.IsNaN(f):
		if n.Bits == math.Float64bits(math.NaN()) {
			return "NaN"
		}
		return ""
	case math.IsInf(f, 1):
		return "+Inf"
	case math.IsInf(f, -1):
		return "-Inf"
	}
	s := strconv.FormatFloat(f, 'e', -1, 64)
	return s
}

// text returns how the operand is written in the program: its numLiteral when the
// real reader turns that numLiteral into exactly this number (type and bits),
// otherwise a global symbol bound to the value from Go (no numLiteral exists for
// most runes, NaN payloads, ...; what literals denote is C12's statement).
func (d *numDriver) text(n ntNum) string {
	if s, ok := d.spell[n]; ok {
		return s
	}
	s := numLiteral(n)
	if s != "" {
		o := evalSafe(d.env, "(zvid "+s+")\n")
		if o.Kind != "val" || !n.same(o.Val) {
			s = ""
			if o.Kind != "val" {
				d.env.Clear()
			}
		}
	}
	if s == "" {
		d.nsym++
		s = fmt.Sprintf("zvn%d", d.nsym)
		d.env.AddGlobal(s, n.sexp())
	}
	d.spell[n] = s
	return s
}

func projNum(o outcome) any {
	switch o.Kind {
	case "val":
		switch v := o.Val.(type) {
		case *zygo.SexpBool:
			if v.Val {
				return []any{"bool", []int{1}}
			}
			return []any{"bool", []int{0}}
		case *zygo.SexpInt:
			return []any{"int", numLimbs(uint64(v.Val))}
		case *zygo.SexpUint64:
			return []any{"uint", numLimbs(v.Val)}
		case *zygo.SexpChar:
			return []any{"chr", numLimbs(uint64(int64(v.Val)))}
		case *zygo.SexpFloat:
			return []any{"flt", numLimbs(math.Float64bits(v.Val))}
		}
		return []any{"other", []int{}}
	case "err":
		return []any{"err", []int{}}
	case "panic":
		return []any{"panic", []int{}}
	}
	return []any{o.Kind, []int{}}
}

// One case, compact (TLC parses JSON slowly): words are 4 little-endian 16-bit
// limbs; r[sw][k] is the result of (numOps[k] a b) for sw = 0 and of
// (numOps[k] b a) for sw = 1; fa, fb are the float64 conversions of a and b as
// the harness computed them (math/big); p[sw] = the float results of + - * /
// on (fa, fb) resp. (fb, fa), then the correctly rounded quotient of the two
// integers, qn[sw] naming its reading ("sq" signed, "uq" unsigned, "" none).
type numCase struct {
	ID   string   `json:"id"`
	RT   string   `json:"rt"` // route: text | apply | go
	A    any      `json:"a"`
	B    any      `json:"b"`
	TA   string   `json:"ta"`
	TB   string   `json:"tb"`
	SA   string   `json:"sa"` // how a, b are written in the program texts
	SB   string   `json:"sb"`
	FA   []int    `json:"fa"`
	FB   []int    `json:"fb"`
	R    [][]any  `json:"r"`
	P    [][]any  `json:"p"`
	QN   []string `json:"qn"`
	Note string   `json:"note,omitempty"`
}

var numOps = []string{"<", "<=", ">", ">=", "==", "!=", "+", "-", "*", "/", "mod"}

func numEvText(op, l, r string) string { return "(" + op + " " + l + " " + r + ")\n" }

var numRoutes = []string{"text", "apply", "go"}

// goCall runs one call into the library from Go, recovering a panic that
// escapes it (the crash the statement excludes).
func numGoCall(f func() (zygo.Sexp, error)) (o outcome) {
	defer func() {
		if r := recover(); r != nil {
			o = outcome{Kind: "panic", Err: fmt.Sprint(r)}
		}
	}()
	v, err := f()
	if err != nil {
		return outcome{Kind: "err", Err: err.Error()}
	}
	if v == nil {
		return outcome{Kind: "nilres"}
	}
	return outcome{Kind: "val", Val: v}
}

// evalRoute evaluates (op l r) by the given route.
func (d *numDriver) evalRoute(route, op string, l, r ntNum) outcome {
	switch route {
	case "apply":
		obj, ok := d.env.FindObject(op)
		fn, isFn := obj.(*zygo.SexpFunction)
		if !ok || !isFn {
			fatal("num: no builtin function %q", op)
		}
		return numGoCall(func() (zygo.Sexp, error) { return d.env.Apply(fn, []zygo.Sexp{l.sexp(), r.sexp()}) })
	case "go":
		args := []zygo.Sexp{l.sexp(), r.sexp()}
		switch op {
		case "+":
			return numGoCall(func() (zygo.Sexp, error) { return zygo.NumericDo(zygo.Add, args[0], args[1]) })
		case "-":
			return numGoCall(func() (zygo.Sexp, error) { return zygo.NumericDo(zygo.Sub, args[0], args[1]) })
		case "*":
			return numGoCall(func() (zygo.Sexp, error) { return zygo.NumericDo(zygo.Mult, args[0], args[1]) })
		case "/":
			return numGoCall(func() (zygo.Sexp, error) { return zygo.NumericDo(zygo.Div, args[0], args[1]) })
		case "mod":
			return numGoCall(func() (zygo.Sexp, error) { return zygo.IntegerDo(zygo.Modulo, args[0], args[1]) })
		}
		return numGoCall(func() (zygo.Sexp, error) { return zygo.CompareFunction(op)(d.env, op, args) })
	}
	return evalSafe(d.env, numEvText(op, d.text(l), d.text(r)))
}

func (d *numDriver) runCase(id, route string, a, b ntNum) numCase {
	c := numCase{ID: id, RT: route, A: a.tagged(), B: b.tagged(), TA: a.String(), TB: b.String(), SA: d.text(a), SB: d.text(b),
		FA: numFbits(numToFloat(a)), FB: numFbits(numToFloat(b))}
	for sw := 0; sw < 2; sw++ {
		l, r := a, b
		if sw == 1 {
			l, r = b, a
		}
		var res []any
		for _, op := range numOps {
			o := d.evalRoute(route, op, l, r)
			if o.Kind != "val" {
				d.env.Clear()
			}
			if (o.Kind == "err" || o.Kind == "panic") && c.Note == "" {
				c.Note = op + ": " + trunc(o.Err, 80)
			}
			res = append(res, projNum(o))
		}
		c.R = append(c.R, res)
		p, qn := numPrimFor(l, r)
		c.P = append(c.P, p)
		c.QN = append(c.QN, qn)
	}
	return c
}

// ---------------------------------------------------------------- the delegated primitive

// numToFloat converts an integer-typed number to float64 by math/big (nearest,
// ties to even); cross-checked against the machine conversion.
func numToFloat(n ntNum) float64 {
	if n.T == "flt" {
		return math.Float64frombits(n.Bits)
	}
	var z big.Int
	var native float64
	if n.T == "uint" {
		z.SetUint64(n.Bits)
		native = float64(n.Bits)
	} else {
		z.SetInt64(int64(n.Bits))
		native = float64(int64(n.Bits))
	}
	f, _ := new(big.Float).SetPrec(0).SetMode(big.ToNearestEven).SetInt(&z).Float64() // exact big.Float, one rounding
	if math.Float64bits(f) != math.Float64bits(native) {
		fatal("oracle self-check: conversion of %v: big %v, machine %v", n, f, native)
	}
	return f
}

func numRatRound(r *big.Rat) float64 {
	f, _ := r.Float64() // nearest float64, +-Inf beyond the range
	return f
}

func numSigned(neg bool, f float64) float64 {
	if neg {
		return -f
	}
	return f
}

// numIeee computes x op y for float64 operands from exact rational arithmetic
// and one rounding, plus the IEEE-754 rules for zeros, infinities and NaN.
func numIeee(op byte, x, y float64) float64 {
	if math.IsNaN(x) || math.IsNaN(y) {
		return math.NaN()
	}
	sx, sy := math.Signbit(x), math.Signbit(y)
	ix, iy := math.IsInf(x, 0), math.IsInf(y, 0)
	switch op {
	case '-':
		return numIeee('+', x, -y)
	case '+':
		switch {
		case ix && iy:
			if sx == sy {
				return x
			}
			return math.NaN()
		case ix:
			return x
		case iy:
			return y
		case x == 0 && y == 0:
			return numSigned(sx && sy, 0)
		}
		e := new(big.Rat).Add(new(big.Rat).SetFloat64(x), new(big.Rat).SetFloat64(y))
		if e.Sign() == 0 {
			return 0 // +0 under round to nearest
		}
		return numRatRound(e)
	case '*':
		neg := sx != sy
		switch {
		case (ix && y == 0) || (iy && x == 0):
			return math.NaN()
		case ix || iy:
			return numSigned(neg, math.Inf(1))
		case x == 0 || y == 0:
			return numSigned(neg, 0)
		}
		e := new(big.Rat).Mul(new(big.Rat).SetFloat64(math.Abs(x)), new(big.Rat).SetFloat64(math.Abs(y)))
		return numSigned(neg, numRatRound(e))
	case '/':
		neg := sx != sy
		switch {
		case (ix && iy) || (x == 0 && y == 0):
			return math.NaN()
		case ix:
			return numSigned(neg, math.Inf(1))
		case iy:
			return numSigned(neg, 0)
		case y == 0:
			return numSigned(neg, math.Inf(1))
		case x == 0:
			return numSigned(neg, 0)
		}
		e := new(big.Rat).Quo(new(big.Rat).SetFloat64(math.Abs(x)), new(big.Rat).SetFloat64(math.Abs(y)))
		return numSigned(neg, numRatRound(e))
	}
	fatal("numIeee: op %c", op)
	return 0
}

func numMachine(op byte, x, y float64) float64 {
	switch op {
	case '+':
		return x + y
	case '-':
		return x - y
	case '*':
		return x * y
	}
	return x / y
}

func numSameFloat(p, q float64) bool {
	if math.IsNaN(p) || math.IsNaN(q) {
		return math.IsNaN(p) && math.IsNaN(q)
	}
	return math.Float64bits(p) == math.Float64bits(q)
}

func numFbits(f float64) []int { return numLimbs(math.Float64bits(f)) }

// numPrimFor gives the graph points of the float primitive the specification
// may need for l op r: the four float operations on the converted operands and,
// for two integers, the correctly rounded exact quotient of their VALUES, named
// after the reading of the two words: "sq" signed/signed, "uq" unsigned/unsigned,
// "suq" signed/unsigned, "usq" unsigned/signed (a uint64 is read as unsigned,
// an int64 and a rune as signed).
func numPrimFor(l, r ntNum) ([]any, string) {
	x, y := numToFloat(l), numToFloat(r)
	var out []any
	for _, op := range []byte("+-*/") {
		z := numIeee(op, x, y)
		if m := numMachine(op, x, y); !numSameFloat(z, m) {
			fatal("oracle self-check: %v %c %v: big %v, machine %v", x, op, y, z, m)
		}
		out = append(out, numFbits(z))
	}
	name := ""
	q := 0.0
	if l.T != "flt" && r.T != "flt" && r.Bits != 0 {
		var a, b big.Int
		name = "q"
		for _, x := range []struct {
			n ntNum
			z *big.Int
		}{{r, &b}, {l, &a}} {
			if x.n.T == "uint" {
				name = "u" + name
				x.z.SetUint64(x.n.Bits)
			} else {
				name = "s" + name
				x.z.SetInt64(int64(x.n.Bits))
			}
		}
		switch name {
		case "ssq":
			name = "sq"
		case "uuq":
			name = "uq"
		}
		q = numRatRound(new(big.Rat).SetFrac(&a, &b))
	}
	return append(out, numFbits(q)), name
}

// ---------------------------------------------------------------- inputs

const (
	numMinI = math.MinInt64
	numMaxI = math.MaxInt64
	numP53  = int64(1) << 53
)

func numGrid() []ntNum {
	var g []ntNum
	for _, v := range []int64{numMinI, numMinI + 1, -(1 << 62), -numP53 - 1, -numP53, -(1 << 32), -10, -6, -3, -2, -1, 0, 1, 2, 3, 4, 6, 10, 12, 97,
		1 << 31, 1 << 32, numP53 - 1, numP53, numP53 + 1, 1 << 62, numMaxI - 1024, numMaxI - 512, numMaxI - 511, numMaxI - 1, numMaxI} {
		g = append(g, numI(v))
	}
	for _, v := range []uint64{0, 1, 2, 3, 6, 10, 1 << 32, 1<<53 + 1, 1<<63 - 1, 1 << 63, 1<<63 + 1, 1<<63 + 1024, 1<<63 + 1025,
		math.MaxUint64 - 2048, math.MaxUint64 - 1024, math.MaxUint64 - 1023, math.MaxUint64 - 1, math.MaxUint64} {
		g = append(g, numU(v))
	}
	for _, v := range []int32{0, 1, 2, 'a', 0xFFFF, 0x10FFFF, math.MaxInt32} {
		g = append(g, numC(v))
	}
	sub := math.SmallestNonzeroFloat64
	for _, v := range []float64{math.Inf(-1), -math.MaxFloat64, -18446744073709551616.0, -9223372036854775808.0, -9007199254740992.0,
		-97, -1.5, -1, -2.2250738585072014e-308, -sub, math.Copysign(0, -1), 0, sub, 2.2250738585072014e-308, 0.1, 0.5, 1, 1.5, 2, 3, 97,
		4294967296.0, 9007199254740991.0, 9007199254740992.0, 9007199254740994.0, 9223372036854774784.0, 9223372036854775808.0,
		9223372036854777856.0, 18446744073709549568.0, 18446744073709551616.0, 1e300, math.MaxFloat64, math.Inf(1), math.NaN()} {
		g = append(g, numF(v))
	}
	g = append(g, numFB(0xFFF8000000000000), numFB(0x7FF0000000000001)) // a negative quiet NaN, a signalling NaN pattern
	return g
}

// numRouteGrid is the part of the boundary grid on which the routes other
// than the program text are exercised exhaustively (every pair, both orders).
func numRouteGrid() []ntNum {
	return []ntNum{numI(numMinI), numI(numMinI + 1), numI(-numP53 - 1), numI(-2), numI(-1), numI(0), numI(1), numI(2), numI(6), numI(numP53 + 1), numI(numMaxI),
		numU(0), numU(1), numU(2), numU(1<<53 + 1), numU(1 << 63), numU(math.MaxUint64),
		numC(0), numC('a'), numC(0x10FFFF),
		numF(math.Inf(-1)), numF(-1.5), numF(math.Copysign(0, -1)), numF(0), numF(1), numF(9007199254740992.0), numF(9223372036854775808.0), numF(math.Inf(1)), numF(math.NaN())}
}

var numTypes = []string{"int", "uint", "chr", "flt"}

// randNum draws a number of type t; rel, when not nil, is a number the new
// one should be related to (equal value, neighbour, divisor, ...).
func randNum(r *rng, t string, rel *ntNum) ntNum {
	var bitsOf = func() uint64 {
		switch r.intn(8) {
		case 0: // small
			return uint64(int64(r.intn(41) - 20))
		case 1: // near a power of two
			sh := uint(r.intn(64))
			return (uint64(1) << sh) + uint64(int64(r.intn(5)-2))
		case 2: // near the top
			return math.MaxUint64 - uint64(r.intn(3000))
		case 3: // around 2^63
			return (uint64(1) << 63) + uint64(int64(r.intn(4097)-2048))
		case 4: // 53..64 significant bits: exercises rounding
			return r.next() >> uint(r.intn(12))
		}
		return r.next()
	}
	var relInt *big.Int
	if rel != nil && r.intn(3) > 0 {
		relInt = new(big.Int)
		switch rel.T {
		case "uint":
			relInt.SetUint64(rel.Bits)
		case "flt":
			f := math.Float64frombits(rel.Bits)
			if math.IsNaN(f) || math.IsInf(f, 0) {
				relInt = nil
			} else {
				new(big.Float).SetFloat64(f).Int(relInt)
			}
		default:
			relInt.SetInt64(int64(rel.Bits))
		}
	}
	if relInt != nil {
		// same value, a neighbour, a multiple or a divisor
		v := new(big.Int).Set(relInt)
		switch r.intn(6) {
		case 0:
		case 1:
			v.Add(v, big.NewInt(int64(r.intn(5)-2)))
		case 2:
			v.Mul(v, big.NewInt(int64(r.intn(9)-4)))
		case 3:
			d := int64(r.intn(12) + 1)
			v.Quo(v, big.NewInt(d))
		case 4:
			v.Neg(v)
		case 5:
			v.Add(v, big.NewInt(int64(r.intn(2049)-1024)))
		}
		switch t {
		case "int":
			if v.IsInt64() {
				return numI(v.Int64())
			}
		case "uint":
			if v.IsUint64() {
				return numU(v.Uint64())
			}
		case "chr":
			if v.IsInt64() && v.Int64() >= 0 && v.Int64() <= math.MaxInt32 {
				return numC(int32(v.Int64()))
			}
		case "flt":
			f, _ := new(big.Float).SetInt(v).Float64()
			if r.intn(4) == 0 {
				f = math.Nextafter(f, math.Inf(r.intn(2)*2-1))
			}
			return numF(f)
		}
	}
	switch t {
	case "int":
		return numI(int64(bitsOf()))
	case "uint":
		return numU(bitsOf())
	case "chr":
		switch r.intn(4) {
		case 0:
			return numC(int32(r.intn(128)))
		case 1:
			return numC(int32(r.intn(0x110000)))
		}
		return numC(int32(r.next() & 0x7fffffff))
	}
	switch r.intn(8) {
	case 0:
		return numF(float64(int64(bitsOf())))
	case 1:
		return numF(float64(bitsOf()))
	case 2:
		return numF(float64(int64(r.intn(2001)-1000)) / 8)
	case 3: // subnormals and zeros
		return numFB(r.next()&(1<<63) | (r.next() & 0xfffffffffffff >> uint(r.intn(52))))
	case 4: // huge
		return numFB(r.next()&(1<<63) | (uint64(0x7fe-r.intn(3)) << 52) | (r.next() & 0xfffffffffffff))
	case 5:
		return pick(r, []ntNum{numF(math.NaN()), numF(math.Inf(1)), numF(math.Inf(-1)), numF(0), numF(math.Copysign(0, -1))})
	}
	return numFB(r.next())
}

func init() {
	register("num", "C07: numeric tower, (op a b) over typed 64-bit operands", func(args []string) int {
		c := commonFlags("num", args, nil)
		d := newNumDriver()
		w := newWriter(c.out)
		defer w.close()
		if c.replay != "" {
			return numReplay(d, c, w)
		}
		idx := 0
		// (a) the boundary grid: every unordered pair (both orders are events of the case)
		g := numGrid()
		for i := range g {
			for j := i; j < len(g); j++ {
				if c.mine(idx) {
					w.write(d.runCase(fmt.Sprintf("g%d-%d", i, j), "text", g[i], g[j]))
				}
				idx++
			}
		}
		// (a') the other routes into the library on the route grid: every unordered pair
		rg := numRouteGrid()
		for _, route := range numRoutes[1:] {
			for i := range rg {
				for j := i; j < len(rg); j++ {
					if c.mine(idx) {
						w.write(d.runCase(fmt.Sprintf("%c%d-%d", route[0]-32, i, j), route, rg[i], rg[j]))
					}
					idx++
				}
			}
		}
		// (b) seeded random 64-bit patterns, every combination of types, every route
		n := c.n
		if n == 0 {
			n = 1500
			if c.thorough() {
				n = 40000
			}
		}
		for k := 0; k < n; k++ {
			if !c.mine(idx) {
				idx++
				continue
			}
			idx++
			r := newRng(c.seed, uint64(k)+1000)
			ta, tb := numTypes[k%4], numTypes[(k/4)%4]
			a := randNum(r, ta, nil)
			b := randNum(r, tb, &a)
			route := numRoutes[(k/16)%len(numRoutes)]
			w.write(d.runCase(fmt.Sprintf("r%d-%d%c", c.seed, k, route[0]), route, a, b))
		}
		return 0
	})
}

// numReplay re-executes the cases of an ndjson file from their operands and
// writes fresh observations in the same format.
func numReplay(d *numDriver, c *common, w *ndWriter) int {
	readLines(c.replay, func(line []byte) {
		var in struct {
			ID string `json:"id"`
			RT string `json:"rt"`
			A  []any  `json:"a"`
			B  []any  `json:"b"`
		}
		if err := json.Unmarshal(line, &in); err != nil {
			fatal("bad replay file: %v", err)
		}
		dec := func(x []any) ntNum {
			if len(x) != 2 {
				fatal("bad operand in replay file")
			}
			t, _ := x[0].(string)
			raw, _ := x[1].([]any)
			var xs []int
			for _, v := range raw {
				f, _ := v.(float64)
				xs = append(xs, int(f))
			}
			return ntNum{t, numUnlimbs(xs)}
		}
		if in.RT == "" {
			in.RT = "text"
		}
		w.write(d.runCase(in.ID, in.RT, dec(in.A), dec(in.B)))
	})
	return 0
}
