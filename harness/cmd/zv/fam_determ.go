package main

// Family "determ" (C20): the same program in fresh interpreters of one process
// (with other interpreters created and used in between) and in fresh processes
// must give the same printed value, the same captured stdout and the same
// error text.
//
// Every run happens in a worker process (this binary re-executed); the parent only
// deals the cases out and collects the observations. A case is observed
//   - "seq":    reps times in a row in one process, each time in a fresh interpreter,
//               with other interpreters ("polluters") created and used in between:
//               generic ones (structs, records, packages, gensyms, pointer and slice
//               types, pointer variables) and ones made for the case (a different
//               struct declared under every struct/defmap name the case uses);
//   - "proc":   once per process in three (thorough: six) processes that run the
//               cases of the shard in different orders (forward, backward, shuffled),
//               so that every case is seen after different histories, and the first
//               of each order in a really fresh process;
//   - "poison": once in a process whose first interpreter did something that is
//               hostile to the process-wide tables ((struct int64 ...), (derefSet
//               (& int64) string), a struct named like a Go-registered type); fixed
//               probes and walks only;
//   - the "nodemo" cases run in processes whose host has NOT registered the demo Go
//     types, and (registerDemoFunctions) is among their polluters.
// Next to each observation the run records the facts about the process it ran in that
// the named deviations of DetermTrace.tla speak about (pre): foreign struct
// declarations of names the program uses, the registered-type list, Go types
// registered from a script.

import (
	"bytes"
	"crypto/sha256"
	"encoding/json"
	"flag"
	"fmt"
	"io"
	"os"
	"os/exec"
	"path/filepath"
	"reflect"
	"regexp"
	"sort"
	"strings"
	"sync"

	zygo "github.com/glycerine/zygomys/v9/zygo"
)

type determCase struct {
	ID   string       `json:"id"`
	Src  string       `json:"src"`
	Text string       `json:"text"`
	Reps int          `json:"reps,omitempty"` // runs of the in-process sequence (default 4)
	Obs  []any        `json:"obs"`            // one observation per run: [kind, printed-or-error, stdout]
	Runs []string     `json:"runs"`           // where each run happened: "seq0".., "proc-fwd", "poison1", ...
	Pre  [][][]string `json:"pre"`            // per run: facts about the process before the run (see preFacts)
}

// A Go struct family registered under two names each, exactly as the library's
// own demo data does (RegisterUserdef(rt, true, "nestouter", "NestOuter")); a Go
// method hands a value back, which the library turns into a record by scanning
// the registry for the Go type.
type DetTwin struct {
	X     int       `json:"x" msg:"x"`
	Inner *DetInner `json:"inner" msg:"inner"`
}
type DetInner struct {
	Y int `json:"y" msg:"y"`
}

func (d *DetTwin) Echo(w *DetTwin) *DetTwin { return w }

var detOnce sync.Once

func registerDetTypes(env *zygo.Zlisp) {
	detOnce.Do(func() {
		zygo.RegisterDemoStructs() // as cmd/zygo -demo does, once per process
		zygo.GoStructRegistry.RegisterUserdef(&zygo.RegisteredType{GenDefMap: true, Factory: func(env *zygo.Zlisp, h *zygo.SexpHash) (interface{}, error) {
			return &DetTwin{}, nil
		}}, true, "dettwin", "DetTwin")
		zygo.GoStructRegistry.RegisterUserdef(&zygo.RegisteredType{GenDefMap: true, Factory: func(env *zygo.Zlisp, h *zygo.SexpHash) (interface{}, error) {
			return &DetInner{}, nil
		}}, true, "detinner", "DetInner")
	})
	ctor := func(env *zygo.Zlisp, name string, args []zygo.Sexp) (zygo.Sexp, error) {
		return zygo.ConstructorFunction("msgmap")(env, "msgmap", append([]zygo.Sexp{&zygo.SexpStr{S: name}}, zygo.MakeList(args)))
	}
	env.AddFunction("dettwin", ctor)
	env.AddFunction("detinner", ctor)
}

// ---------------------------------------------------------------- what is compared
//
// The statement exempts "the explicit random, time and pointer-printing functions" and nothing else.
// Pointer printing is explicit where the library formats an address with %p on purpose: the printed form
// of a pointer value (made with & or declared with (* T)), the %p verb of printf, and the identity that
// the dumps of scopes and stacks (packages, _ls, _closdump) put in parentheses after a name. Those, and
// only those, are masked:
//   - the Show family by its own three shapes (showRes), in every program;
//   - any address, in the programs that use an explicit pointer function (usesPointerFns).
// Addresses that reach the output any other way -- the Go-syntax dump of a value handed to fmt, the stack
// trace of a recovered panic with its goroutine number -- are compared as they are.

var showRes = []*regexp.Regexp{
	regexp.MustCompile(` \(0x[0-9a-f]+\)`),                      // "scope Name: 'x' (0xc000123456)", "global (0x...)"
	regexp.MustCompile(`env\(0x[0-9a-f]+\)`),                    // "env(0x...).linearstack is 1 deep"
	regexp.MustCompile(`already-saw (Stack|Scope) 0x[0-9a-f]+`), // "(package i already-saw Stack 0x... in Show )"
}
var showRepl = []string{" (0xSHOW)", "env(0xSHOW)", "already-saw $1 0xSHOW"}

var ampRe = regexp.MustCompile(`(^|[\s({\[])&[A-Za-z]`)                          // the reader's &a
var ptrTypeRe = regexp.MustCompile(`(\(var\s+\S+\s+|\(def\s+\S+\s+|:\s*)\(\*\s`) // a variable or field of a pointer type (* T)

func usesPointerFns(text string) bool {
	return strings.Contains(text, "(&") || strings.Contains(text, "%p") || strings.Contains(text, "(ptr ") ||
		ampRe.MatchString(text) || ptrTypeRe.MatchString(text)
}

func mask(text, s string) string {
	for i, re := range showRes {
		s = re.ReplaceAllString(s, showRepl[i])
	}
	if usesPointerFns(text) {
		s = addrRe.ReplaceAllString(s, "0xADDR")
	}
	return s
}

// ---------------------------------------------------------------- facts about the process (pre)

func goRegistered(rt *zygo.RegisteredType) bool {
	// hasShadowStruct: registered from Go (RegisterUserdef(rt, true, ...)), not declared by a script
	return reflect.ValueOf(rt).Elem().FieldByName("hasShadowStruct").Bool()
}

var identRe = regexp.MustCompile(`[A-Za-z_][A-Za-z0-9_]*`)
var structDeclRe = regexp.MustCompile(`\(struct\s+([A-Za-z_][A-Za-z0-9_]*)`)
var declRe = regexp.MustCompile(`\((?:struct|defmap)\s+([A-Za-z_][A-Za-z0-9_]*)`)

var commentRe = regexp.MustCompile(`//[^\n]*`)

var goBase map[string]bool // the Go-registered names of this process when its first interpreter was set up

func sha8(s string) string { return fmt.Sprintf("%x", sha256.Sum256([]byte(s)))[:8] }

// preFacts: what the process holds, before the run, of the things a named deviation speaks about.
//
//	["T", name, digest]  a struct declaration of <name> made by a script of an EARLIER interpreter, when the
//	                     program uses <name> and does not itself declare (struct <name> ...)
//	["L", digest, ""]    the registered-type list, when the program asks for it (typelist)
//	["R", digest, ""]    the Go-registered types that a script of an earlier interpreter has replaced by a struct of
//	                     its own (new interpreters no longer import them)
//	["G", digest, ""]    the Go types registered since the process started (by a script: registerDemoFunctions)
func preFacts(text string) [][]string {
	facts := [][]string{}
	mention := map[string]bool{}
	for _, w := range identRe.FindAllString(text, -1) {
		mention[w] = true
	}
	own := map[string]bool{}
	for _, m := range structDeclRe.FindAllStringSubmatch(text, -1) {
		own[m[1]] = true
	}
	var goNew []string
	for name, rt := range zygo.GoStructRegistry.Userdef {
		if goRegistered(rt) {
			// a struct type registered from Go since the process started; the pointer and slice types that
			// scripts derive from Go-registered types ("*snoopy") are no such registration
			if !goBase[name] && !strings.HasPrefix(name, "*") && !strings.HasPrefix(name, "[") && !strings.HasPrefix(name, "(") {
				goNew = append(goNew, name)
			}
			continue
		}
		if _, builtin := zygo.GoStructRegistry.Builtin[name]; builtin {
			continue // a struct named like a builtin type: the builtin values keep their builtin type
		}
		if rt.UserStructDefn != nil && mention[name] && !own[name] {
			facts = append(facts, []string{"T", name, sha8(rt.UserStructDefn.SexpString(nil))})
		}
	}
	if strings.Contains(text, "typelist") {
		facts = append(facts, []string{"L", sha8(strings.Join(zygo.ListRegisteredTypes, ",")), ""})
	}
	var goLost []string
	for name := range goBase {
		if rt := zygo.GoStructRegistry.Userdef[name]; rt == nil || !goRegistered(rt) {
			goLost = append(goLost, name)
		}
	}
	if len(goLost) > 0 {
		sort.Strings(goLost)
		facts = append(facts, []string{"R", sha8(strings.Join(goLost, ",")), ""})
	}
	if len(goNew) > 0 {
		sort.Strings(goNew)
		facts = append(facts, []string{"G", sha8(strings.Join(goNew, ",")), ""})
	}
	sort.Slice(facts, func(i, j int) bool { return strings.Join(facts[i], ":") < strings.Join(facts[j], ":") })
	return facts
}

// ---------------------------------------------------------------- one run

var nodemo bool // this process's host has not registered the demo Go types

func setup() *zygo.Zlisp {
	env := zygo.NewZlisp()
	env.StandardSetup()
	if !nodemo {
		env.ImportDemoData()
		registerDetTypes(env)
	}
	return env
}

// hostInit: what the host registers from Go is registered once, before any interpreter runs a script.
func hostInit() {
	if goBase != nil {
		return
	}
	e := setup()
	e.Close()
	goBase = map[string]bool{}
	for name, rt := range zygo.GoStructRegistry.Userdef {
		if goRegistered(rt) {
			goBase[name] = true
		}
	}
}

// observe runs text in a fresh interpreter and captures stdout.
//
// between: an interpreter of ANOTHER kind is created (and never used) after the probing interpreter exists and
// before it evaluates: 1 a sandboxed one, 2 one with a reduced function table (the tables that every
// constructor sets up must not be shared with the interpreters that exist already).
func observe(text string, between int) (obs any, pre [][]string) {
	hostInit()
	pre = preFacts(text)
	env := setup()
	defer env.Close()
	switch between % 3 {
	case 1:
		o := zygo.NewZlispSandbox()
		o.StandardSetup()
		defer o.Close()
	case 2:
		o := zygo.NewZlispWithFuncs(map[string]zygo.ZlispUserFunction{"zzonly": zygo.FirstFunction, "aaonly": zygo.FirstFunction})
		defer o.Close()
	}
	old := os.Stdout
	r, w, err := os.Pipe()
	if err != nil {
		fatal("pipe: %v", err)
	}
	os.Stdout = w
	done := make(chan string)
	go func() {
		var b bytes.Buffer
		io.Copy(&b, r)
		done <- b.String()
	}()
	o := evalSafe(env, text)
	os.Stdout = old
	w.Close()
	out := <-done
	r.Close()
	if strings.HasPrefix(text, symtabProbe) {
		// every (symnum (quote NAME)) at once: the whole name->number table after the evaluation
		out += symtabDigest(env)
	}
	out = trunc(mask(text, out), 2000)
	switch o.Kind {
	case "val":
		return []any{"val", trunc(mask(text, o.Val.SexpString(nil)), 3000), out}, pre
	case "err":
		return []any{"err", trunc(mask(text, o.Err), 3000), out}, pre
	}
	return []any{o.Kind, trunc(mask(text, o.Err), 3000), out}, pre
}

const symtabProbe = ";;symtab\n"

func symtabDigest(env *zygo.Zlisp) string {
	tab := env.VerifSymtab()
	names := make([]string, 0, len(tab))
	for n := range tab {
		names = append(names, n)
	}
	sort.Strings(names)
	h := sha256.New()
	for _, n := range names {
		fmt.Fprintf(h, "%s=%d;", n, tab[n])
	}
	// the digest, and in clear the numbers of the names that are not functions of the builtin table
	// (type names, names interned by set-up code), which is where an ordering slip shows
	var clear []string
	for _, n := range names {
		if strings.ContainsAny(n, ".*") || (len(n) > 0 && n[0] >= 'A' && n[0] <= 'Z') {
			clear = append(clear, fmt.Sprintf("%s=%d", n, tab[n]))
		}
	}
	return fmt.Sprintf("symtab n=%d next=%d sha=%x %s", len(names), env.VerifNextSymbol(), h.Sum(nil)[:8], trunc(strings.Join(clear, " "), 1200))
}

// ---------------------------------------------------------------- polluters

func runOthers(progs []string, rot int) {
	env := zygo.NewZlisp()
	env.StandardSetup()
	defer env.Close()
	quiet(func() {
		for j := range progs {
			evalSafe(env, progs[(rot+j*3)%len(progs)])
		}
	})
}

// pollute: other interpreters created and used earlier in the process. i varies the names and the order.
func pollute(i int, text string) {
	progs := []string{
		fmt.Sprintf("(struct Pol%d [(field A: int64) (field B: string)])\n(def p (Pol%d A: 1))\n(json p)\n", i, i),
		fmt.Sprintf("(defmap polm%d)\n(polm%d a: 1 b: 2)\n", i, i),
		"(gensym)\n(gensym \"zz\")\n(def h (hash z: 1 y: 2 x: 3))\n(str h)\n",
		fmt.Sprintf("(def q%d (package \"pq%d\" { A := 1 }))\n", i, i),
		"(defn polf [a b] (+ a b))\n(polf 1 2)\n(msgpack (hash a: 1))\n",
		"(def x (& 34))\n(type? x)\n(def y (& \"s\"))\n(def z (& (hash a: 1)))\n",
		fmt.Sprintf("(struct PolP%d [(field N: string)])\n(var pp (* PolP%d))\n(type? pp)\n(def sl (sliceOf PolP%d))\n(var vs ([]string))\n", i, i, i),
	}
	if !nodemo {
		progs = append(progs,
			"(def pilotType (* snoopy))\n(def s (snoopy cry: \"x\"))\n(def ps (& s))\n",
			"(def ho (hornet nickname: \"b\"))\n(togo ho)\n(def pw (* weather))\n")
	} else {
		// the script-facing registration of the demo Go types (tests/decl_pointer.zy does it)
		progs = append(progs, "(registerDemoFunctions)\n")
	}
	runOthers(progs, i)
	// for the case at hand: another interpreter declares a DIFFERENT struct under every struct, defmap and
	// record-constructor name the program uses, makes one, and takes pointer and slice types of it
	seen := map[string]bool{}
	var clash []string
	for _, m := range declRe.FindAllStringSubmatch(commentRe.ReplaceAllString(text, ""), -1) {
		if n := m[1]; !seen[n] {
			seen[n] = true
			clash = append(clash, fmt.Sprintf("(struct %s [(field zzq: int64)])\n(def zq (%s zzq: 1))\n(var pz (* %s))\n(def sz (sliceOf %s))\n(def az (& zq))\n", n, n, n, n))
		}
	}
	if len(clash) > 0 {
		runOthers(clash, i)
	}
}

// poisons: what a hostile (or careless) earlier interpreter can do to the tables every interpreter of the
// process shares. Run once, first, in a process of their own kind.
var poisons = map[int]string{
	1: "(struct int64 [(field b: string)])\n(struct string [(field c: int64)])\n(struct hash [(field d: int64)])\n",
	2: "(def p (& int64))\n(derefSet p string)\n(def q (& float64))\n(derefSet q bool)\n",
	3: "(struct snoopy [(field zz: int64)])\n(struct nestinner [(field yy: string)])\n",
}

// ---------------------------------------------------------------- programs

var determFixed = []string{
	"(str (unjson (raw `{\"b\":1,\"a\":2,\"c\":3,\"d\":4,\"e\":5}`)))\n",
	"(keys (unjson (raw `{\"k1\":1,\"k2\":{\"z\":1,\"y\":2,\"x\":3},\"k3\":3}`)))\n",
	"(str (unjson (raw `{\"id\":1,\"Id\":2,\"ID\":3,\"iD\":4,\"name\":\"x\"}`)))\n",
	"(str (unjson (raw `{\"a\":1,\"A\":2,\"aa\":3,\"Aa\":4,\"aA\":5,\"a \":6,\" a\":7,\"a.\":8}`)))\n",
	"(keys (unmsgpack (msgpack (unjson (raw `{\"k\":1,\"K\":2,\"kk\":{\"z\":1,\"Z\":2}}`)))))\n",
	"(def h (hash c: 3 a: 1 b: 2 \"s\" 4 7 5))\n(str h)\n(keys h)\n(json h)\n",
	"(str (unmsgpack (msgpack (hash c: 3 a: 1 b: 2))))\n",
	"(def o (nestouter inner: (nestinner hello: \"hi\")))\n(str o)\n(togo o)\n(str o)\n(json o)\n",
	"(def s (snoopy chld: (hellcat speed: 567)))\n(togo s)\n(str s)\n",
	"(struct DetA [(field X: int64) (field Y: string) (field Z: float64)])\n(def a (DetA X: 1 Y: \"y\" Z: 2.5))\n(str a)\n(json a)\n(str (unjson (json a)))\n",
	"(symnum (quote car))\n",
	symtabProbe + "1\n",
	symtabProbe + "(def brandNewA 1)\n(gensym)\n(struct SymT [(field A: int64)])\n",
	"(list (symnum (quote time.Time)) (symnum (quote int64)) (symnum (quote string)) (symnum (quote snoopy)) (symnum (quote Snoopy)) (symnum (quote hash)))\n",
	"(symnum (quote brandNewSymbolNeverSeen))\n",
	"(str (gensym))\n",
	"(def pt (* snoopy))\n(str pt)\n",
	"(symnum (quote +))\n",
	"(defn f [a] a)\n(str f)\n",
	"(str (fn [x y] (+ x y)))\n",
	"(def p (package \"detpk\" { A := 1; B := 2; (defn F [x] x) }))\n(str p)\n",
	"(println (hash b: 1 a: 2))\n(printf \"%v %v\\n\" 1 \"q\")\n",
	"(def t (dettwin x: 1 inner: (detinner y: 2)))\n(togo t)\n(str (_method t Echo: t))\n",
	"Pol0\n", "polm1\n", "(type? Pol3)\n",
	"(+ 1 \"a\")\n", "(undefinedfn 1)\n", "(aget [1] 7)\n", "(hget (hash a: 1) b:)\n", "(assert (== 1 2))\n",
	"(let [x 1] (cond 1 2))\n", "(((\n", "(def x 1) )\n",
	"(methodls (snoopy))\n",
	"(fieldls (snoopy))\n",
	"(type? (hash a: 1))\n(type? 1)\n(type? [1])\n",
	"(defmap dm)\n(def r (dm a: 1 b: (dm c: 2)))\n(str r)\n(json r)\n(str (unjson (json r)))\n",
	"(str (unjson (raw `[{\"a\":1,\"b\":2},{\"c\":{\"e\":1,\"d\":2}}]`)))\n",
	"(for [(def i 0) (< i 3) (def i (+ i 1))] (println i))\n",
	"(range k v (unjson (raw `{\"q\":1,\"p\":2,\"o\":3}`)) (println k v))\n",
	// declared types: the type of a declared variable, a record of a struct, of a defmap, a struct that
	// uses the builtin types, the type list
	"(struct Cat [(field Name: string)])\n(var pcat (* Cat))\n(type? pcat)\n",
	"(struct Cat [(field Name: string)])\n(var pcat (* Cat))\n(var sc ([]Cat))\n(list (type? pcat) (type? sc) (str pcat))\n",
	"(var vi int64)\n(var vs string)\n(var vf float64)\n(var vb bool)\n[vi vs vf vb (str int64) (type? vi) (type? vs)]\n",
	"(defmap Zebra)\n(str (Zebra a: \"text\"))\n",
	"(struct Foo [(field a: int64) (field s: string) (field f: float64) (field b: bool)])\n(str (Foo a: 1 s: \"x\" f: 1.5 b: true))\n",
	"(struct Node [(field next: (* Node)) (field v: int64)])\n(def n (Node v: 1))\n(def m (Node v: 2 next: (& n)))\n(:v (* (:next m)))\n",
	"(def before (len (typelist)))\n(hash a: 1)\n[before (len (typelist))]\n",
	"(len (typelist))\n",
	"(def tl (typelist))\n(aget tl 0)\n",
	// infix forms: index, slice, dot path, assignment (the operator tables are set up by every constructor)
	"(def a [10 20 30])\n{a[1] + a[2]}\n",
	"(def a [10 20 30 40])\n{a[1:3]}\n{b = a[0] * 2 + a[3]}\nb\n",
	"(def h (hash a: (hash b: [3 4]) d: 9))\n{h.a.b[1] + h.d}\n{x = 2 ** 3 - 1}\n(list x {x > 3 and x <= 7})\n",
}

// programs for a host that has not registered the demo Go types
var determNodemo = []string{
	"[(gensym) (symnum (quote foo))]\n",
	"(str (snoopy cry: \"x\"))\n",
	symtabProbe + "1\n",
	"(list (symnum (quote hornet)) (symnum (quote int64)))\n",
	"(struct Dn [(field a: int64)])\n(str (Dn a: 1))\n",
}

// Walks: programs whose result is picked by the FIRST of k >= 2 candidates that a walk over a Go map meets
// (Process.tla explores the orders of such walks over the live tables): a record with several fields that
// its Go struct cannot take (SexpToGoStructs names one of them in the error), with several unknown fields,
// a package that binds one package, hash or function under several names (the printer spells the value out
// once and refers back to it afterwards). These are repeated more often.
type walkRec struct {
	ctor string
	bad  []string // field: value of the wrong kind
}

var walkRecs = []walkRec{
	{"snoopy", []string{"cry: 1", "id: \"x\"", "pack: 3", "speed: \"y\"", "carrying: 7"}},
	{"hornet", []string{"Nickname: 4", "Mass: \"m\"", "id: \"i\"", "speed: [1]"}},
	{"weather", []string{"size: \"big\"", "type: 9", "details: 1.5"}},
	{"persondemo", []string{"first: 1", "last: 2"}},
	{"eventdemo", []string{"id: \"a\"", "flight: 7", "cancelled: \"no\"", "pilot: 3"}},
	{"snoopy", []string{"nosuch1: 1", "nosuch2: 2", "nosuch3: 3"}},
}

func determWalks(seed int64, thorough bool) (out []string) {
	for wi, w := range walkRecs {
		n := len(w.bad)
		for m := 1; m < 1<<n; m++ {
			var fs []string
			for b := 0; b < n; b++ {
				if m>>b&1 == 1 {
					fs = append(fs, w.bad[b])
				}
			}
			if len(fs) < 2 || (!thorough && !hashSel(seed, wi*64+m, 1, 3)) {
				continue
			}
			out = append(out, fmt.Sprintf("(togo (%s %s))\n", w.ctor, strings.Join(fs, " ")))
		}
	}
	inner := []string{"(package \"i\" { X := 1 })", "(hash a: 1 b: (hash c: 2))", "(fn [x] x)", "[1 [2 3]]"}
	for _, in := range inner {
		out = append(out,
			fmt.Sprintf("(def outer (package \"o\" { A := %s; B := A; C := A }))\n(str outer)\n", in),
			fmt.Sprintf("(def outer (package \"o\" { Z := %s; M := Z; A := Z; Q := 4 }))\n(str outer)\n", in))
	}
	out = append(out,
		"(def outer (package \"o\" { A := (package \"i\" { X := 1 }); B := A; C := (package \"j\" { Y := A; W := A }); D := C }))\n(str outer)\n")
	return
}

// Calls that fail: every function and builder of the global scope (but those that touch files, processes,
// channels, the clock or randomness, and the explicit pointer functions) is called with values it does
// not take, and every kind of value is called as if it were a function; the error texts quote the values.
var errcallDeny = []string{"bload", "bsave", "exit", "getenv", "setenv", "gob", "greenpack", "import", "makeChan", "send", "<!",
	"now", "date", "millis", "nextBusinessDay", "dur", "owritef", "random", "save", "slurpf", "source", "stop", "sys", "system",
	"timeit", "writef", "ptr", "&", "dump", "registerDemoFunctions", "expectError", "req", "read"}

var errcallPool = []string{"(hash a: 1)", "[1 2]", "(list 1 2)", "(quote s)", "\"str\"", "(fn [x] x)", "2.5", "nil", "(hash k: [1 (hash z: 2)])", "7"}

func determErrcalls(seed int64, thorough bool) (out []string) {
	env := zygo.NewZlisp()
	env.StandardSetup()
	defer env.Close()
	idx := 0
	for _, name := range env.VerifGlobalNames() {
		k := env.VerifGlobalKind(name)
		if k != "gofunc" && k != "builder" || contains(errcallDeny, name) {
			continue
		}
		idx++
		if thorough {
			// every kind of value in every one of the first three positions
			for _, v := range []string{"(hash a: 1)", "[1 2]", "(list 1 2)", "(quote s)", "(fn [x] x)", "(hash k: [1 (hash z: 2)])"} {
				out = append(out, fmt.Sprintf("(%s %s)\n", name, v), fmt.Sprintf("(%s 7 %s)\n", name, v),
					fmt.Sprintf("(%s \"str\" (quote s) %s)\n", name, v))
			}
			continue
		}
		a := errcallPool[(idx+int(seed%97))%len(errcallPool)]
		b := errcallPool[(idx/3+5)%len(errcallPool)]
		shapes := []string{
			fmt.Sprintf("(%s %s)\n", name, a),
			fmt.Sprintf("(%s %s %s)\n", name, b, a),
			fmt.Sprintf("(%s %s %s %s)\n", name, a, a, b),
		}
		out = append(out, shapes[int(uint64(seed)+uint64(idx))%len(shapes)])
	}
	for _, v := range errcallPool {
		out = append(out, fmt.Sprintf("(%s 1)\n", v), fmt.Sprintf("(def v %s)\n(v (hash a: 1) [2])\n", v))
	}
	for _, v := range errcallPool[:6] {
		out = append(out, fmt.Sprintf("(sprintf \"%%v|%%v\" %s 1)\n", v), fmt.Sprintf("(printf \"%%v %%s\\n\" 2 %s)\n", v))
	}
	return
}

func determPrograms(c *common) (cases []determCase) {
	add := func(src, text string, reps int) {
		cases = append(cases, determCase{ID: fmt.Sprintf("d%d", len(cases)), Src: src, Text: text, Reps: reps})
	}
	for _, t := range determFixed {
		add("fixed", t, 0)
	}
	for _, t := range determNodemo {
		add("nodemo", t, 0)
	}
	for _, t := range determWalks(c.seed, c.thorough()) {
		add("walk", t, 10)
	}
	for _, t := range determErrcalls(c.seed, c.thorough()) {
		add("errcall", t, 2)
	}
	for i, t := range sessionCatalogue {
		add("catalogue", asText(inst(t, 500000+i))+"\n", 0)
	}
	// corpus scripts that touch neither files, processes, channels, time nor randomness
	files, _ := filepath.Glob("/repo/tests/*.zy")
	sort.Strings(files)
	for _, f := range files {
		b, err := os.ReadFile(f)
		if err != nil {
			continue
		}
		src := string(b)
		skip := false
		for _, w := range []string{"system", "source", "slurp", "owrite", "import", "chan", "save", "sleep", "include", "random", "now", "time", "req ", "readf", "stdin", "gob", "regexp", "timeit", "sys ", "setenv", "getenv"} {
			if strings.Contains(src, w) {
				skip = true
			}
		}
		if !skip {
			add("corpus:"+filepath.Base(f), src, 0)
		}
	}
	n := c.n
	if n == 0 {
		n = 120
		if c.thorough() {
			n = 3000
		}
	}
	for i := 0; i < n; i++ {
		r := newRng(c.seed, uint64(i)+777)
		prog := genProgram(r, semSlices["mixed"], 2)
		text := strings.ReplaceAll(renderProgram(prog, nil), "(tr ", "(println ")
		add("generated", text, 0)
	}
	return
}

// ---------------------------------------------------------------- walks of the live tables (for Process.tla)

// dumpWalks: for every modelled walk, the entries in the order a repaired walk follows (insertion order)
// and the class of each: a scan returns the name of the first entry of the class it looks for.
func dumpWalks(env *zygo.Zlisp) []any {
	var walks []any
	// registry: entry name -> Go type of the factory's product (fillHashHelper, CallGoMethodFunction)
	names := append([]string(nil), zygo.ListRegisteredTypes...)
	seen := map[string]bool{}
	for _, n := range names {
		seen[n] = true
	}
	var rest []string
	for n := range zygo.GoStructRegistry.Registry {
		if !seen[n] {
			rest = append(rest, n)
		}
	}
	sort.Strings(rest)
	names = append(names, rest...)
	entries := []any{}
	for _, n := range names {
		ty := "<nil>"
		func() {
			defer func() {
				if r := recover(); r != nil {
					ty = "<error>"
				}
			}()
			f := zygo.GoStructRegistry.Registry[n]
			if f == nil || f.Factory == nil {
				return
			}
			st, err := f.Factory(env, nil)
			if err != nil {
				ty = "<error>"
				return
			}
			if st != nil {
				ty = reflect.TypeOf(st).String()
			}
		}()
		entries = append(entries, []any{n, ty})
	}
	walks = append(walks, map[string]any{"name": "registry", "entries": entries})
	// records: field (in key order) -> "bad" when the Go struct cannot take the value alone, else "ok"
	for _, w := range walkRecs {
		entries := []any{}
		for _, f := range w.bad {
			cls := "ok"
			var o outcome
			quiet(func() { o = evalSafe(env, fmt.Sprintf("(togo (%s %s))\n", w.ctor, f)) })
			if o.Kind != "val" {
				cls = "bad"
			}
			entries = append(entries, []any{strings.SplitN(f, ":", 2)[0], cls})
		}
		walks = append(walks, map[string]any{"name": "record:" + w.ctor, "entries": entries})
	}
	// scope of a package: member (in name order) -> identity class of its value (the first member it is equal to)
	members := []string{"A", "B", "C", "D", "Q"}
	quiet(func() {
		evalSafe(env, "(def walkpk (package \"o\" { A := (package \"i\" { X := 1 }); B := A; C := (package \"j\" { Y := 2 }); D := C; Q := 4 }))\n")
	})
	scope := []any{}
	vals := map[string]zygo.Sexp{}
	for i, m := range members {
		cls := "<nil>"
		var o outcome
		quiet(func() { o = evalSafe(env, "(* walkpk."+m+")\n") }) // (* a.b) resolves the path
		if o.Kind == "val" {
			switch o.Val.(type) {
			case *zygo.Stack, *zygo.SexpHash, *zygo.SexpFunction, *zygo.SexpArray:
				vals[m] = o.Val // a value the printer remembers by identity
			}
		}
		for _, m0 := range members[:i+1] {
			if vals[m] != nil && vals[m] == vals[m0] {
				cls = "same-as-" + m0
				break
			}
		}
		scope = append(scope, []any{m, cls})
	}
	walks = append(walks, map[string]any{"name": "scope:o", "entries": scope})
	return walks
}

// ---------------------------------------------------------------- workers

type workerOut struct {
	ID   string       `json:"id"`
	Obs  []any        `json:"obs"`
	Runs []string     `json:"runs"`
	Pre  [][][]string `json:"pre"`
}

func determWorker(c *common, mode string, order, poison int) int {
	var cases []determCase
	readLines(c.in, func(line []byte) {
		var in determCase
		if json.Unmarshal(line, &in) == nil {
			cases = append(cases, in)
		}
	})
	label := mode
	switch order {
	case 0:
	case 1:
		for i, j := 0, len(cases)-1; i < j; i, j = i+1, j-1 {
			cases[i], cases[j] = cases[j], cases[i]
		}
	default:
		r := newRng(c.seed, uint64(order)*7919)
		for i := len(cases) - 1; i > 0; i-- {
			j := r.intn(i + 1)
			cases[i], cases[j] = cases[j], cases[i]
		}
	}
	if mode == "proc" {
		label = fmt.Sprintf("proc-o%d", order)
	}
	hostInit()
	if poison > 0 {
		label = fmt.Sprintf("poison%d", poison)
		runOthers([]string{poisons[poison]}, 0)
	}
	w := newWriter(c.out)
	defer w.close()
	for i, cc := range cases {
		o := workerOut{ID: cc.ID}
		reps := 1
		if mode == "seq" {
			reps = cc.Reps
			if reps == 0 {
				reps = 4
			}
		}
		for k := 0; k < reps; k++ {
			between := order // proc: the order number; seq: the run number
			if mode == "seq" {
				between = k
			}
			obs, pre := observe(cc.Text, between)
			o.Obs = append(o.Obs, obs)
			o.Pre = append(o.Pre, pre)
			if mode == "seq" {
				o.Runs = append(o.Runs, fmt.Sprintf("seq%d", k))
				if k < 4 {
					pollute(i*7+k, cc.Text)
				}
			} else {
				o.Runs = append(o.Runs, label)
			}
		}
		w.write(o)
	}
	return 0
}

func init() {
	register("determ", "C20: repeated runs in fresh interpreters and fresh processes", func(args []string) int {
		var worker, registry bool
		var mode string
		var order, poison int
		c := commonFlags("determ", args, func(fs *flag.FlagSet) {
			fs.BoolVar(&worker, "worker", false, "internal: observe every text of -in, write to -out")
			fs.StringVar(&mode, "mode", "proc", "internal: worker mode, seq (repeated, with other interpreters in between) or proc (once)")
			fs.IntVar(&order, "order", 0, "internal: worker order of the cases, 0 forward, 1 backward, n shuffled")
			fs.IntVar(&poison, "poison", 0, "internal: the worker's first interpreter runs poison n")
			fs.BoolVar(&nodemo, "nodemo", false, "internal: the worker's host does not register the demo Go types")
			fs.BoolVar(&registry, "registry", false, "dump the walks of the live tables (registry, record fields, scope members)")
		})
		if registry {
			env := setup()
			w := newWriter(c.out)
			walks := dumpWalks(env)
			w.write(map[string]any{"entries": walks[0].(map[string]any)["entries"], "walks": walks})
			w.close()
			return 0
		}
		if worker {
			return determWorker(c, mode, order, poison)
		}
		var cases []determCase
		if c.replay != "" {
			readLines(c.replay, func(line []byte) {
				var in determCase
				if json.Unmarshal(line, &in) == nil {
					in.Obs, in.Runs, in.Pre = nil, nil, nil
					cases = append(cases, in)
				}
			})
		} else {
			for i, cc := range determPrograms(c) {
				if c.mine(i) {
					cases = append(cases, cc)
				}
			}
		}
		tmp, err := os.MkdirTemp("", "zvdeterm")
		if err != nil {
			fatal("%v", err)
		}
		defer os.RemoveAll(tmp)
		self, _ := os.Executable()
		byID := map[string]*determCase{}
		for i := range cases {
			byID[cases[i].ID] = &cases[i]
		}
		nrun := 0
		run := func(sel func(cc determCase) bool, flags ...string) {
			nrun++
			tag := fmt.Sprintf("w%d", nrun)
			inFile := filepath.Join(tmp, tag+".in.ndjson")
			iw := newWriter(inFile)
			n := 0
			for _, cc := range cases {
				if sel(cc) {
					iw.write(determCase{ID: cc.ID, Text: cc.Text, Reps: cc.Reps})
					n++
				}
			}
			iw.close()
			if n == 0 {
				return
			}
			out := filepath.Join(tmp, tag+".out.ndjson")
			a := append([]string{"determ", "-worker", "-seed", fmt.Sprint(c.seed), "-in", inFile, "-out", out}, flags...)
			cmd := exec.Command(self, a...)
			cmd.Dir = tmp
			cmd.Env = append(os.Environ(), "GOMAXPROCS=2")
			cmd.Stderr = os.Stderr
			if err := cmd.Run(); err != nil {
				fatal("determ worker %v: %v", flags, err)
			}
			readLines(out, func(line []byte) {
				var r workerOut
				if json.Unmarshal(line, &r) == nil {
					if cc := byID[r.ID]; cc != nil {
						cc.Obs = append(cc.Obs, r.Obs...)
						cc.Runs = append(cc.Runs, r.Runs...)
						cc.Pre = append(cc.Pre, r.Pre...)
					}
				}
			})
		}
		demo := func(cc determCase) bool { return cc.Src != "nodemo" }
		bare := func(cc determCase) bool { return cc.Src == "nodemo" }
		probes := func(cc determCase) bool { return cc.Src == "fixed" || cc.Src == "walk" }
		nproc := 3
		if c.thorough() {
			nproc = 6
		}
		run(demo, "-mode", "seq")
		for p := 0; p < nproc; p++ {
			run(demo, "-mode", "proc", "-order", fmt.Sprint(p))
		}
		run(probes, "-mode", "proc", "-poison", "1")
		run(probes, "-mode", "proc", "-poison", "2")
		run(probes, "-mode", "proc", "-poison", "3")
		run(bare, "-mode", "seq", "-nodemo")
		run(bare, "-mode", "proc", "-nodemo", "-order", "0")
		run(bare, "-mode", "proc", "-nodemo", "-order", "1")
		w := newWriter(c.out)
		defer w.close()
		for _, cc := range cases {
			w.write(cc)
		}
		return 0
	})
}
