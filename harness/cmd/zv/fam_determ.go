package main

// Family "determ" (C20): the same program in fresh interpreters of one process
// (with other interpreters created and used in between) and in fresh processes
// must give the same printed value, the same captured stdout and the same
// error text.

import (
	"bytes"
	"crypto/sha256"
	"encoding/json"
	"flag"
	"fmt"
	"io"
	"os"
	"os/exec"
	"path/filepath"
	"reflect"
	"regexp"
	"sort"
	"strings"
	"sync"

	zygo "github.com/glycerine/zygomys/v9/zygo"
)

type determCase struct {
	ID   string   `json:"id"`
	Src  string   `json:"src"`
	Text string   `json:"text"`
	Obs  []any    `json:"obs"`  // one observation per run: [kind, printed-or-error, stdout]
	Runs []string `json:"runs"` // where each run happened: "inproc", "inproc-after-pollution", "process"
}

// A Go struct family registered under two names each, exactly as the library's
// own demo data does (RegisterUserdef(rt, true, "nestouter", "NestOuter")); a Go
// method hands a value back, which the library turns into a record by scanning
// the registry for the Go type.
type DetTwin struct {
	X     int       `json:"x" msg:"x"`
	Inner *DetInner `json:"inner" msg:"inner"`
}
type DetInner struct {
	Y int `json:"y" msg:"y"`
}

func (d *DetTwin) Echo(w *DetTwin) *DetTwin { return w }

var detOnce sync.Once

func registerDetTypes(env *zygo.Zlisp) {
	detOnce.Do(func() {
		zygo.RegisterDemoStructs() // as cmd/zygo -demo does, once per process
		zygo.GoStructRegistry.RegisterUserdef(&zygo.RegisteredType{GenDefMap: true, Factory: func(env *zygo.Zlisp, h *zygo.SexpHash) (interface{}, error) {
			return &DetTwin{}, nil
		}}, true, "dettwin", "DetTwin")
		zygo.GoStructRegistry.RegisterUserdef(&zygo.RegisteredType{GenDefMap: true, Factory: func(env *zygo.Zlisp, h *zygo.SexpHash) (interface{}, error) {
			return &DetInner{}, nil
		}}, true, "detinner", "DetInner")
	})
	ctor := func(env *zygo.Zlisp, name string, args []zygo.Sexp) (zygo.Sexp, error) {
		return zygo.ConstructorFunction("msgmap")(env, "msgmap", append([]zygo.Sexp{&zygo.SexpStr{S: name}}, zygo.MakeList(args)))
	}
	env.AddFunction("dettwin", ctor)
	env.AddFunction("detinner", ctor)
}

var stackRe = regexp.MustCompile(`(?s)stack trace:.*`)
var gorRe = regexp.MustCompile(`goroutine \d+`)

func maskErr(s string) string {
	s = stackRe.ReplaceAllString(s, "stack trace: <cut>")
	s = gorRe.ReplaceAllString(s, "goroutine N")
	s = addrRe.ReplaceAllString(s, "0xADDR")
	return trunc(s, 600)
}

// observe runs text in a fresh interpreter and captures stdout.
func observe(text string) any {
	env := zygo.NewZlisp()
	env.StandardSetup()
	env.ImportDemoData()
	registerDetTypes(env)
	defer env.Close()
	old := os.Stdout
	r, w, err := os.Pipe()
	if err != nil {
		fatal("pipe: %v", err)
	}
	os.Stdout = w
	done := make(chan string)
	go func() {
		var b bytes.Buffer
		io.Copy(&b, r)
		done <- b.String()
	}()
	o := evalSafe(env, text)
	os.Stdout = old
	w.Close()
	out := <-done
	r.Close()
	if strings.HasPrefix(text, symtabProbe) {
		// every (symnum (quote NAME)) at once: the whole name->number table after the evaluation
		out += symtabDigest(env)
	}
	switch o.Kind {
	case "val":
		return []any{"val", addrRe.ReplaceAllString(o.Val.SexpString(nil), "0xADDR"), trunc(out, 2000)}
	case "err":
		return []any{"err", maskErr(o.Err), trunc(out, 2000)}
	}
	return []any{o.Kind, maskErr(o.Err), trunc(out, 2000)}
}

const symtabProbe = ";;symtab\n"

func symtabDigest(env *zygo.Zlisp) string {
	tab := env.VerifSymtab()
	names := make([]string, 0, len(tab))
	for n := range tab {
		names = append(names, n)
	}
	sort.Strings(names)
	h := sha256.New()
	for _, n := range names {
		fmt.Fprintf(h, "%s=%d;", n, tab[n])
	}
	// the digest, and in clear the numbers of the names that are not functions of the builtin table
	// (type names, names interned by set-up code), which is where an ordering slip shows
	var clear []string
	for _, n := range names {
		if strings.ContainsAny(n, ".*") || (len(n) > 0 && n[0] >= 'A' && n[0] <= 'Z') {
			clear = append(clear, fmt.Sprintf("%s=%d", n, tab[n]))
		}
	}
	return fmt.Sprintf("symtab n=%d next=%d sha=%x %s", len(names), env.VerifNextSymbol(), h.Sum(nil)[:8], trunc(strings.Join(clear, " "), 1200))
}

// pollute: other interpreters created and used earlier in the process
func pollute(i int) {
	env := zygo.NewZlisp()
	env.StandardSetup()
	defer env.Close()
	progs := []string{
		fmt.Sprintf("(struct Pol%d [(field A: int64) (field B: string)])\n(def p (Pol%d A: 1))\n(json p)\n", i, i),
		fmt.Sprintf("(defmap polm%d)\n(polm%d a: 1 b: 2)\n", i, i),
		"(gensym)\n(gensym \"zz\")\n(def h (hash z: 1 y: 2 x: 3))\n(str h)\n",
		fmt.Sprintf("(def q%d (package \"pq%d\" { A := 1 }))\n", i, i),
		"(defn polf [a b] (+ a b))\n(polf 1 2)\n(msgpack (hash a: 1))\n",
		"(def pilotType (* snoopy))\n(def s (snoopy cry: \"x\"))\n(def ps (& s))\n",
		"(def ho (hornet nickname: \"b\"))\n(togo ho)\n(def pw (* weather))\n",
	}
	quiet(func() {
		// every polluter, in an order that varies with i
		for j := range progs {
			evalSafe(env, progs[(i+j*3)%len(progs)])
		}
	})
}

var determFixed = []string{
	"(str (unjson (raw `{\"b\":1,\"a\":2,\"c\":3,\"d\":4,\"e\":5}`)))\n",
	"(keys (unjson (raw `{\"k1\":1,\"k2\":{\"z\":1,\"y\":2,\"x\":3},\"k3\":3}`)))\n",
	"(str (unjson (raw `{\"id\":1,\"Id\":2,\"ID\":3,\"iD\":4,\"name\":\"x\"}`)))\n",
	"(str (unjson (raw `{\"a\":1,\"A\":2,\"aa\":3,\"Aa\":4,\"aA\":5,\"a \":6,\" a\":7,\"a.\":8}`)))\n",
	"(keys (unmsgpack (msgpack (unjson (raw `{\"k\":1,\"K\":2,\"kk\":{\"z\":1,\"Z\":2}}`)))))\n",
	"(def h (hash c: 3 a: 1 b: 2 \"s\" 4 7 5))\n(str h)\n(keys h)\n(json h)\n",
	"(str (unmsgpack (msgpack (hash c: 3 a: 1 b: 2))))\n",
	"(def o (nestouter inner: (nestinner hello: \"hi\")))\n(str o)\n(togo o)\n(str o)\n(json o)\n",
	"(def s (snoopy chld: (hellcat speed: 567)))\n(togo s)\n(str s)\n",
	"(struct DetA [(field X: int64) (field Y: string) (field Z: float64)])\n(def a (DetA X: 1 Y: \"y\" Z: 2.5))\n(str a)\n(json a)\n(str (unjson (json a)))\n",
	"(symnum (quote car))\n",
	symtabProbe + "1\n",
	symtabProbe + "(def brandNewA 1)\n(gensym)\n(struct SymT [(field A: int64)])\n",
	"(list (symnum (quote time.Time)) (symnum (quote int64)) (symnum (quote string)) (symnum (quote snoopy)) (symnum (quote Snoopy)) (symnum (quote hash)))\n",
	"(symnum (quote brandNewSymbolNeverSeen))\n",
	"(str (gensym))\n",
	"(def pt (* snoopy))\n(str pt)\n",
	"(symnum (quote +))\n",
	"(defn f [a] a)\n(str f)\n",
	"(str (fn [x y] (+ x y)))\n",
	"(def p (package \"detpk\" { A := 1; B := 2; (defn F [x] x) }))\n(str p)\n",
	"(println (hash b: 1 a: 2))\n(printf \"%v %v\\n\" 1 \"q\")\n",
	"(def t (dettwin x: 1 inner: (detinner y: 2)))\n(togo t)\n(str (_method t Echo: t))\n",
	"Pol0\n", "polm1\n", "(type? Pol3)\n",
	"(+ 1 \"a\")\n", "(undefinedfn 1)\n", "(aget [1] 7)\n", "(hget (hash a: 1) b:)\n", "(assert (== 1 2))\n",
	"(let [x 1] (cond 1 2))\n", "(((\n", "(def x 1) )\n",
	"(methodls (snoopy))\n",
	"(fieldls (snoopy))\n",
	"(type? (hash a: 1))\n(type? 1)\n(type? [1])\n",
	"(defmap dm)\n(def r (dm a: 1 b: (dm c: 2)))\n(str r)\n(json r)\n(str (unjson (json r)))\n",
	"(str (unjson (raw `[{\"a\":1,\"b\":2},{\"c\":{\"e\":1,\"d\":2}}]`)))\n",
	"(for [(def i 0) (< i 3) (def i (+ i 1))] (println i))\n",
	"(range k v (unjson (raw `{\"q\":1,\"p\":2,\"o\":3}`)) (println k v))\n",
}

func determPrograms(c *common) (ids, srcs, texts []string) {
	add := func(src, text string) {
		ids = append(ids, fmt.Sprintf("d%d", len(ids)))
		srcs = append(srcs, src)
		texts = append(texts, text)
	}
	for _, t := range determFixed {
		add("fixed", t)
	}
	for i, t := range sessionCatalogue {
		add("catalogue", asText(inst(t, 500000+i))+"\n")
	}
	// corpus scripts that touch neither files, processes, time nor randomness
	files, _ := filepath.Glob("/repo/tests/*.zy")
	sort.Strings(files)
	for _, f := range files {
		b, err := os.ReadFile(f)
		if err != nil {
			continue
		}
		src := string(b)
		skip := false
		for _, w := range []string{"system", "source", "slurp", "owrite", "import", "chan", "save", "sleep", "include", "random", "now", "time", "req ", "readf", "flatten", "stdin", "gob", "regexp", "timeit", "sys ", "setenv", "getenv", "ptr", "(&", "%p", "registerDemoFunctions", "gensym"} {
			if strings.Contains(src, w) {
				skip = true
			}
		}
		if !skip {
			add("corpus:"+filepath.Base(f), src)
		}
	}
	n := c.n
	if n == 0 {
		n = 150
		if c.thorough() {
			n = 3000
		}
	}
	for i := 0; i < n; i++ {
		r := newRng(c.seed, uint64(i)+777)
		prog := genProgram(r, semSlices["mixed"], 2)
		text := strings.ReplaceAll(renderProgram(prog, nil), "(tr ", "(println ")
		add("generated", text)
	}
	return
}

func init() {
	register("determ", "C20: repeated runs in fresh interpreters and fresh processes", func(args []string) int {
		var worker, registry bool
		c := commonFlags("determ", args, func(fs *flag.FlagSet) {
			fs.BoolVar(&worker, "worker", false, "internal: observe every text of -in once, write to -out")
			fs.BoolVar(&registry, "registry", false, "dump the live type registry (name, Go type of the factory's product)")
		})
		if registry {
			env := zygo.NewZlisp()
			env.StandardSetup()
			env.ImportDemoData()
			registerDetTypes(env)
			// registration order (the order the repaired scans follow)
			names := append([]string(nil), zygo.ListRegisteredTypes...)
			seen := map[string]bool{}
			for _, n := range names {
				seen[n] = true
			}
			var rest []string
			for n := range zygo.GoStructRegistry.Registry {
				if !seen[n] {
					rest = append(rest, n)
				}
			}
			sort.Strings(rest)
			names = append(names, rest...)
			entries := []any{}
			for _, n := range names {
				ty := "<nil>"
				func() {
					defer func() {
						if r := recover(); r != nil {
							ty = "<error>"
						}
					}()
					f := zygo.GoStructRegistry.Registry[n]
					if f == nil || f.Factory == nil {
						return
					}
					st, err := f.Factory(env, nil)
					if err != nil {
						ty = "<error>"
						return
					}
					if st != nil {
						ty = reflect.TypeOf(st).String()
					}
				}()
				entries = append(entries, []any{n, ty})
			}
			w := newWriter(c.out)
			w.write(map[string]any{"entries": entries})
			w.close()
			return 0
		}
		if worker {
			w := newWriter(c.out)
			defer w.close()
			readLines(c.in, func(line []byte) {
				var in determCase
				if json.Unmarshal(line, &in) == nil {
					w.write(map[string]any{"id": in.ID, "obs": observe(in.Text)})
				}
			})
			return 0
		}
		var cases []determCase
		if c.replay != "" {
			readLines(c.replay, func(line []byte) {
				var in determCase
				if json.Unmarshal(line, &in) == nil {
					in.Obs, in.Runs = nil, nil
					cases = append(cases, in)
				}
			})
		} else {
			ids, srcs, texts := determPrograms(c)
			for i := range ids {
				if c.mine(i) {
					cases = append(cases, determCase{ID: ids[i], Src: srcs[i], Text: texts[i]})
				}
			}
		}
		// in-process runs: fresh interpreters, other interpreters created and used in between
		for i := range cases {
			for k := 0; k < 4; k++ {
				cases[i].Obs = append(cases[i].Obs, observe(cases[i].Text))
				if k == 0 {
					cases[i].Runs = append(cases[i].Runs, "inproc")
				} else {
					cases[i].Runs = append(cases[i].Runs, "inproc-after-others")
				}
				pollute(i*7 + k)
			}
		}
		// fresh processes
		tmp, err := os.MkdirTemp("", "zvdeterm")
		if err != nil {
			fatal("%v", err)
		}
		defer os.RemoveAll(tmp)
		inFile := filepath.Join(tmp, "in.ndjson")
		iw := newWriter(inFile)
		for _, cc := range cases {
			iw.write(determCase{ID: cc.ID, Text: cc.Text})
		}
		iw.close()
		self, _ := os.Executable()
		nproc := 3
		if c.thorough() {
			nproc = 6
		}
		for p := 0; p < nproc; p++ {
			out := filepath.Join(tmp, fmt.Sprintf("out%d.ndjson", p))
			cmd := exec.Command(self, "determ", "-worker", "-in", inFile, "-out", out)
			cmd.Dir = tmp
			if err := cmd.Run(); err != nil {
				fatal("determ worker: %v", err)
			}
			byID := map[string]any{}
			readLines(out, func(line []byte) {
				var r struct {
					ID  string `json:"id"`
					Obs any    `json:"obs"`
				}
				if json.Unmarshal(line, &r) == nil {
					byID[r.ID] = r.Obs
				}
			})
			for i := range cases {
				if o, ok := byID[cases[i].ID]; ok {
					cases[i].Obs = append(cases[i].Obs, o)
					cases[i].Runs = append(cases[i].Runs, "process")
				}
			}
		}
		w := newWriter(c.out)
		defer w.close()
		for _, cc := range cases {
			w.write(cc)
		}
		return 0
	})
}
