//go:build verif

package main

// Family "zvm": what every executed VM instruction does to the VALUES on the
// data stack (ZVM.tla / ZVMTrace.tla). Needs the accessors of
// proposed_fixes/hook-zvm.diff (VerifDataTop, VerifDataDistance,
// VerifPushedConst, VerifStackmarkName); until that patch is in /repo this
// file is compiled only with the additional build tag zvmhook.
//
// Programs: the ones family vmfx runs. For consecutive steps of the same
// function with nothing in between (vmfx's rule) one event is recorded per
// distinct (instruction text, projected before-window) signature.

import (
	"encoding/json"
	"fmt"
	"os"
	"path/filepath"
	"sort"
	"strings"

	zygo "github.com/glycerine/zygomys/v9/zygo"
)

const zvmK = 6
const zvmCap = 300

type zvmEv struct {
	ID     string `json:"id"`
	Op     string `json:"op"`
	N      int    `json:"n"`
	B      bool   `json:"b"`
	Sym    string `json:"sym"`
	Off    int    `json:"off"`
	Lp     int    `json:"lp"`
	Val    any    `json:"val"`
	Text   string `json:"text"`
	Pc     int    `json:"pc"`
	Pc2    int    `json:"pc2"`
	Sc     int    `json:"sc"`
	Sc2    int    `json:"sc2"`
	D      int    `json:"d"`
	D2     int    `json:"d2"`
	Full   bool   `json:"full"`
	Opaque bool   `json:"opaque"`
	Before []any  `json:"before"`
	After  []any  `json:"after"`
	Count  int    `json:"count"`
	Src    string `json:"src"`
	Setup  string `json:"setup"`
	sig    string
}

type zvmCollector struct {
	evs       map[string]*zvmEv
	perOp     map[string]int
	lists     map[*zygo.SexpFunction]*zygo.VerifListing
	prev      *zvmEv
	prevFn    *zygo.SexpFunction
	prevA     int
	prevLast  bool
	src       string
	setupName string
	nsteps    int
	limit     int
}

// zcell projects a data-stack cell; *opaque is set when the projection was cut.
func zcell(env *zygo.Zlisp, x zygo.Sexp, depth int, opaque *bool) any {
	if depth > 8 {
		*opaque = true
		return []any{"deep"}
	}
	if x == zygo.SexpMarker {
		return []any{"M"}
	}
	if nm, ok := zygo.VerifStackmarkName(x); ok {
		return []any{"mark", nm}
	}
	switch v := x.(type) {
	case *zygo.SexpFunction:
		return []any{"fn"}
	case *zygo.SexpSymbol:
		return []any{"sym", v.Name()}
	case *zygo.SexpPair:
		elems := []any{}
		var cur zygo.Sexp = v
		for n := 0; ; n++ {
			p, ok := cur.(*zygo.SexpPair)
			if !ok {
				break
			}
			if n > 60 {
				*opaque = true
				return []any{"deep"}
			}
			elems = append(elems, zcell(env, p.Head, depth+1, opaque))
			cur = p.Tail
		}
		if cur != zygo.SexpNull {
			return []any{"dotted", elems, zcell(env, cur, depth+1, opaque)}
		}
		return []any{"list", elems}
	case *zygo.SexpArray:
		if len(v.Val) > 60 {
			*opaque = true
			return []any{"deep"}
		}
		elems := []any{}
		for _, e := range v.Val {
			elems = append(elems, zcell(env, e, depth+1, opaque))
		}
		return []any{"arr", elems}
	case *zygo.SexpHash:
		if len(v.KeyOrder) > 40 {
			*opaque = true
			return []any{"deep"}
		}
		pairs := []any{}
		for _, k := range v.KeyOrder {
			val, err := v.HashGet(env, k)
			if err != nil {
				*opaque = true
				continue
			}
			pairs = append(pairs, []any{zcell(env, k, depth+1, opaque), zcell(env, val, depth+1, opaque)})
		}
		return []any{"hash", v.TypeName, pairs}
	}
	if _, ok := x.(zygo.Selector); ok {
		return []any{"sel"}
	}
	p := proj(env, x, 0)
	if t, ok := p.([]any); ok && len(t) > 0 {
		switch t[0] {
		case "other":
			return p
		case "deep", "gonil":
			*opaque = true
		}
	}
	return p
}

func (c *zvmCollector) instr(fn *zygo.SexpFunction, pc int) (*zygo.VerifInstr, *zygo.VerifListing) {
	l := c.lists[fn]
	if l == nil || pc >= len(l.Instrs) {
		l = fn.VerifListing()
		c.lists[fn] = l
	}
	if l == nil || pc < 0 || pc >= len(l.Instrs) {
		return nil, nil
	}
	return &l.Instrs[pc], l
}

func zvmWindow(env *zygo.Zlisp, k int, opaque *bool) []any {
	cells := env.VerifDataTop(k)
	w := make([]any, 0, len(cells))
	for _, x := range cells {
		w = append(w, zcell(env, x, 0, opaque))
	}
	return w
}

func (c *zvmCollector) step(env *zygo.Zlisp, fn *zygo.SexpFunction, pc int, in zygo.Instruction) {
	c.nsteps++
	d, s, a, _ := env.VerifDepths()
	_, size, _ := env.VerifPC()
	p := c.prev
	// complete the previous event
	if p != nil && c.prevFn == fn && c.prevA == a && !c.prevLast {
		ok := pc == p.Pc+1
		switch p.Op {
		case "jump", "goto", "branch", "break", "continue", "tailcall":
			ok = true
		}
		if ok {
			if old, seen := c.evs[p.sig]; seen {
				old.Count++
			} else if c.perOp[p.Op] < c.limit {
				k := len(p.Before) + (d - p.D)
				if k < 0 {
					k = 0
				}
				op := false
				p.After = zvmWindow(env, k, &op)
				p.Opaque = p.Opaque || op
				p.Pc2, p.Sc2, p.D2 = pc, s, d
				p.Count = 1
				p.Src, p.Setup = trunc(c.src, 6000), c.setupName
				c.evs[p.sig] = p
				c.perOp[p.Op]++
			}
		}
	}
	c.prev = nil
	vi, l := c.instr(fn, pc)
	if vi == nil || vi.Op == "" {
		return
	}
	k := zvmK
	switch vi.Op {
	case "squash", "vectorize", "hashize":
		if m := env.VerifDataDistance(func(x zygo.Sexp) bool { return x == zygo.SexpMarker }); m+1 > k {
			k = m + 1
		}
	case "popuntilmark", "clearmark":
		if m := env.VerifDataDistance(func(x zygo.Sexp) bool { nm, ok := zygo.VerifStackmarkName(x); return ok && nm == vi.Sym }); m+1 > k {
			k = m + 1
		}
	case "call", "dispatch":
		if vi.N+2 > k {
			k = vi.N + 2
		}
	}
	if k > zvmCap {
		return
	}
	ev := &zvmEv{Op: vi.Op, N: vi.N, B: vi.B, Sym: vi.Sym, Off: vi.Off, Text: trunc(vi.Text, 120), Pc: pc, Sc: s, D: d, Val: []any{"nil"}}
	if vi.Op == "tailcall" {
		ev.N = vi.Nargs
	}
	if vi.Op == "break" || vi.Op == "continue" {
		ev.Lp = -1
		for i := range l.Instrs {
			if l.Instrs[i].Op == "loopstart" && l.Instrs[i].Loop == vi.Loop {
				ev.Lp = i
				break
			}
		}
	}
	if x, ok := zygo.VerifPushedConst(in); ok && vi.Op == "push" {
		ev.Val = zcell(env, x, 0, &ev.Opaque)
	}
	ev.Before = zvmWindow(env, k, &ev.Opaque)
	ev.Full = len(ev.Before) == d
	b, _ := json.Marshal(ev.Before)
	ev.sig = vi.Op + "|" + ev.Text + "|" + string(b)
	c.prev, c.prevFn, c.prevA, c.prevLast = ev, fn, a, pc == size-1
}

func (c *zvmCollector) run(text string, setup string) {
	env := zygo.NewZlisp()
	env.StandardSetup()
	fxSetup(env, setup)
	c.setupName = setup
	defer env.Close()
	c.src = text
	c.prev = nil
	c.lists = map[*zygo.SexpFunction]*zygo.VerifListing{}
	zygo.VerifTracer = c.step
	quiet(func() { evalSafe(env, text) })
	zygo.VerifTracer = nil
	c.prev = nil
}

func newZvmCollector(limit int) *zvmCollector {
	return &zvmCollector{evs: map[string]*zvmEv{}, perOp: map[string]int{}, limit: limit}
}

func init() {
	register("zvm", "C04/C02: what every executed VM instruction does to the values on the data stack (ZVM.tla)", func(args []string) int {
		c := commonFlags("zvm", args, nil)
		w := newWriter(c.out)
		defer w.close()
		if c.replay != "" {
			readLines(c.replay, func(line []byte) {
				var in zvmEv
				if err := json.Unmarshal(line, &in); err != nil {
					fatal("bad replay: %v", err)
				}
				b, _ := json.Marshal(in.Before)
				sig := in.Op + "|" + in.Text + "|" + string(b)
				one := newZvmCollector(1 << 30)
				one.run(in.Src, in.Setup)
				if ev, ok := one.evs[sig]; ok {
					ev.ID = in.ID
					w.write(ev)
				}
			})
			return 0
		}
		limit := 250
		if c.thorough() {
			limit = 4000
		}
		col := newZvmCollector(limit)
		idx := 0
		mine := func() bool { idx++; return c.mine(idx - 1) }
		for i, t := range sessionCatalogue {
			if mine() {
				col.run(asText(inst(t, 700000+i))+"\n", "")
			}
		}
		n := c.n
		if n == 0 {
			n = 240
			if c.thorough() {
				n = 6000
			}
		}
		slices := []string{"control", "loops", "calls", "data", "scoping", "mixed"}
		for i := 0; i < n; i++ {
			if !mine() {
				continue
			}
			r := newRng(c.seed, uint64(i)+4242)
			var prog []node
			if i%7 == 6 {
				prog = genHeapProgram(r)
			} else {
				prog = genProgram(r, semSlices[slices[i%len(slices)]], 2+r.intn(2))
			}
			text := renderProgram(prog, nil)
			if i%5 == 4 {
				text = renderInfixProgram(prog)
			}
			col.run(text, "tr")
		}
		files, _ := filepath.Glob("/repo/tests/*.zy")
		sort.Strings(files)
		for _, f := range files {
			if !mine() {
				continue
			}
			b, err := os.ReadFile(f)
			if err != nil {
				continue
			}
			src := string(b)
			skip := len(src) > 6000 // the source travels with the event (replay)
			for _, wd := range []string{"system", "source", "slurp", "owrite", "import", "chan", "save", "sleep", "include", "readf", "stdin", "gob", "sys ", "setenv", "getenv", "req ", "timeit"} {
				if strings.Contains(src, wd) {
					skip = true
				}
			}
			if !skip {
				col.run(src, "demo")
			}
		}
		keys := make([]string, 0, len(col.evs))
		for k := range col.evs {
			keys = append(keys, k)
		}
		sort.Strings(keys)
		for i, k := range keys {
			ev := col.evs[k]
			ev.ID = fmt.Sprintf("zvm%d-%d", c.shard, i)
			w.write(ev)
		}
		fmt.Fprintf(os.Stderr, "zvm: %d steps, %d signatures\n", col.nsteps, len(keys))
		return 0
	})
}
