package main

import "fmt"

// Programs over data with identity: arrays (aset), hashes (hset/hdel), strings,
// and the ways a program can come to hold the same object twice (a second
// name, an argument, a closure, an element of another container). The
// reference semantics (ZSem) keeps arrays and hashes as heap objects; every
// `tr` records a snapshot of the value at that moment, so a write that shows
// up in an object it should not have touched (or fails to show up in an
// alias) changes the effect trace.

type heapVar struct {
	name  string
	kind  string // "arr" (ints only) | "outer" (array holding arrays) | "hash" | "str"
	n     int    // known length for arrays (index choice); -1 unknown
	keys  []int  // key palette indices present (hash), best effort
	outer bool
}

type heapCtx struct {
	r     *rng
	k     int
	seq   int
	vars  []heapVar
	muts  []string // defined mutator functions taking an array
	hmuts []string // mutators taking a hash
	clos  []string // closures over an array: (k x) writes and reads
	ext   bool     // the sem family's own programs: the empty hash literal {}, == on hashes
}

func (h *heapCtx) key() int { h.k++; return 300 + h.k }

func (h *heapCtx) fresh(prefix string) string {
	h.seq++
	return fmt.Sprintf("%s%d", prefix, h.seq)
}

func (h *heapCtx) ofKind(kinds ...string) []int {
	var out []int
	for i, v := range h.vars {
		for _, k := range kinds {
			if v.kind == k {
				out = append(out, i)
			}
		}
	}
	return out
}

func (h *heapCtx) small() node { return nInt(h.r.intn(10)) }

var heapKeys = []node{
	nQuote(nSym("a")), nQuote(nSym("b")), nQuote(nSym("c")),
	nStr("k1"), nStr("k2"), nInt(1), nInt(2),
}

func (h *heapCtx) hkey(symOnly bool) node {
	if symOnly {
		return heapKeys[h.r.intn(3)]
	}
	return heapKeys[h.r.intn(len(heapKeys))]
}

func (h *heapCtx) idx(v heapVar) node {
	n := v.n
	if n <= 0 {
		return nInt(h.r.intn(2))
	}
	if h.r.intn(12) == 0 {
		return nInt(n) // one past the end: an index error
	}
	return nInt(h.r.intn(n))
}

// observe: a snapshot of one variable
func (h *heapCtx) observe(i int) node { return nApp("tr", nInt(h.key()), nSym(h.vars[i].name)) }

func (h *heapCtx) stmt() []node {
	r := h.r
	arrs := h.ofKind("arr")
	hashes := h.ofKind("hash")
	strs := h.ofKind("str")
	outers := h.ofKind("outer")
	choice := r.intn(26)
	if h.ext && r.intn(12) == 0 {
		if out := h.extStmt(hashes); out != nil {
			return out
		}
	}
	switch {
	case choice == 0 || len(arrs) == 0: // a new array
		n := r.intn(5)
		var es []node
		for i := 0; i < n; i++ {
			es = append(es, h.small())
		}
		name := h.fresh("v")
		h.vars = append(h.vars, heapVar{name: name, kind: "arr", n: n})
		return []node{nDef(name, nArr(es...))}
	case choice == 1: // append: a new array, the old one untouched
		s := h.vars[pick(r, arrs)]
		name := h.fresh("v")
		h.vars = append(h.vars, heapVar{name: name, kind: "arr", n: s.n + 1})
		return []node{nDef(name, nApp("append", nSym(s.name), h.small()))}
	case choice == 2: // two appends off the same base (they must not see each other)
		s := h.vars[pick(r, arrs)]
		n1, n2 := h.fresh("v"), h.fresh("v")
		h.vars = append(h.vars, heapVar{name: n1, kind: "arr", n: s.n + 1}, heapVar{name: n2, kind: "arr", n: s.n + 1})
		return []node{nDef(n1, nApp("append", nSym(s.name), h.small())), nDef(n2, nApp("append", nSym(s.name), h.small()))}
	case choice == 3: // concat of 1..3 arrays
		k := 1 + r.intn(3)
		var args []node
		tot := 0
		for i := 0; i < k; i++ {
			s := h.vars[pick(r, arrs)]
			args = append(args, nSym(s.name))
			tot += s.n
		}
		name := h.fresh("v")
		h.vars = append(h.vars, heapVar{name: name, kind: "arr", n: tot})
		return []node{nDef(name, nApp("concat", args...))}
	case choice == 4: // a second name for the same array
		s := h.vars[pick(r, arrs)]
		name := h.fresh("v")
		h.vars = append(h.vars, heapVar{name: name, kind: "arr", n: s.n})
		return []node{nDef(name, nSym(s.name))}
	case choice == 5 || choice == 6: // write in place
		s := h.vars[pick(r, arrs)]
		return []node{nApp("aset", nSym(s.name), h.idx(s), h.small())}
	case choice == 7: // grow in a loop: v = append(v, i), keeping an alias of an intermediate value
		si := pick(r, arrs)
		s := h.vars[si]
		keep := h.fresh("v")
		cnt := 2 + r.intn(4)
		at := r.intn(cnt)
		h.vars = append(h.vars, heapVar{name: keep, kind: "arr", n: -1})
		h.vars[si].n = s.n + cnt
		return []node{
			nDef(keep, nArr()),
			nFor("", nDef("i", nInt(0)), nApp("<", nSym("i"), nInt(cnt)), nSet("i", nApp("+", nSym("i"), nInt(1))),
				nCond([]clause{{nApp("==", nSym("i"), nInt(at)), nSet(keep, nSym(s.name))}}, nNil()),
				nSet(s.name, nApp("append", nSym(s.name), nSym("i")))),
		}
	case choice == 8: // a mutator function, and a call with an array
		name := h.fresh("mut")
		h.muts = append(h.muts, name)
		body := []node{nApp("aset", nSym("p"), nInt(0), h.small())}
		if r.bool() {
			// rebinding the parameter must not touch the caller's array
			body = append(body, nSet("p", nApp("append", nSym("p"), h.small())), nApp("aset", nSym("p"), nInt(0), h.small()))
		}
		body = append(body, nApp("tr", nInt(h.key()), nSym("p")))
		return []node{nDefn(name, strict("p"), "", body...)}
	case choice == 9 && len(h.muts) > 0:
		s := h.vars[pick(r, arrs)]
		return []node{nCall(nSym(pick(r, h.muts)), nSym(s.name))}
	case choice == 10: // a closure holding an array
		s := h.vars[pick(r, arrs)]
		name := h.fresh("k")
		h.clos = append(h.clos, name)
		return []node{nDef(name, nLet("let", []bind{{"c", nSym(s.name)}},
			nFn(strict("x"), "", nApp("aset", nSym("c"), nInt(0), nSym("x")), nApp("tr", nInt(h.key()), nSym("c")))))}
	case choice == 11 && len(h.clos) > 0:
		return []node{nCall(nSym(pick(r, h.clos)), h.small())}
	case choice == 12: // arrays inside an array
		a, b := h.vars[pick(r, arrs)], h.vars[pick(r, arrs)]
		name := h.fresh("o")
		h.vars = append(h.vars, heapVar{name: name, kind: "outer", n: 2})
		return []node{nDef(name, nArr(nSym(a.name), nSym(b.name)))}
	case choice == 13 && len(outers) > 0: // write through the outer array
		o := h.vars[pick(r, outers)]
		return []node{nApp("aset", nApp("aget", nSym(o.name), nInt(r.intn(2))), nInt(0), h.small())}
	case choice == 14 || len(hashes) == 0: // a new hash
		n := r.intn(4)
		var args []node
		sym := r.bool()
		for i := 0; i < n; i++ {
			args = append(args, h.hkey(sym), h.small())
		}
		name := h.fresh("h")
		h.vars = append(h.vars, heapVar{name: name, kind: "hash"})
		if h.ext && n == 0 {
			return []node{nDef(name, nEHash())}
		}
		return []node{nDef(name, nApp("hash", args...))}
	case choice == 15 || choice == 16:
		s := h.vars[pick(r, hashes)]
		return []node{nApp("hset", nSym(s.name), h.hkey(false), h.small())}
	case choice == 17:
		s := h.vars[pick(r, hashes)]
		return []node{nApp("hdel", nSym(s.name), h.hkey(false))}
	case choice == 18:
		s := h.vars[pick(r, hashes)]
		switch r.intn(4) {
		case 0:
			return []node{nApp("tr", nInt(h.key()), nApp("hget", nSym(s.name), h.hkey(false), nInt(-1)))}
		case 1:
			return []node{nApp("tr", nInt(h.key()), nApp("keys", nSym(s.name)))}
		case 2:
			return []node{nApp("tr", nInt(h.key()), nApp("len", nSym(s.name)))}
		}
		return []node{nApp("tr", nInt(h.key()), nApp("hget", nSym(s.name), h.hkey(false)))} // may fail: no such key
	case choice == 19: // an array stored in a hash, written through the hash
		s := h.vars[pick(r, hashes)]
		a := h.vars[pick(r, arrs)]
		key := h.hkey(false)
		return []node{nApp("hset", nSym(s.name), key, nSym(a.name)),
			nApp("aset", nApp("hget", nSym(s.name), key), h.idx(a), h.small())}
	case choice == 20: // a second name for a hash / a mutator over a hash
		s := h.vars[pick(r, hashes)]
		if r.bool() {
			name := h.fresh("h")
			h.vars = append(h.vars, heapVar{name: name, kind: "hash"})
			return []node{nDef(name, nSym(s.name))}
		}
		name := h.fresh("hm")
		return []node{nDefn(name, strict("p"), "", nApp("hset", nSym("p"), h.hkey(false), h.small()), nApp("tr", nInt(h.key()), nSym("p"))),
			nCall(nSym(name), nSym(s.name))}
	case choice == 21: // strings: concat makes a new string
		name := h.fresh("s")
		if len(strs) == 0 || r.intn(3) == 0 {
			h.vars = append(h.vars, heapVar{name: name, kind: "str"})
			return []node{nDef(name, nStr(pick(r, []string{"", "a", "bc", "xyz"})))}
		}
		s := h.vars[pick(r, strs)]
		h.vars = append(h.vars, heapVar{name: name, kind: "str"})
		args := []node{nSym(s.name), nStr(pick(r, []string{"", "q", "rs"}))}
		if r.bool() {
			args = append(args, nSym(h.vars[pick(r, strs)].name))
		}
		return []node{nDef(name, nApp("concat", args...)), nApp("tr", nInt(h.key()), nApp("len", nSym(name)))}
	case choice == 22: // map over one array while writing another
		a, b := h.vars[pick(r, arrs)], h.vars[pick(r, arrs)]
		if a.name == b.name || a.n == 0 {
			return []node{h.observe(pick(r, arrs))}
		}
		name := h.fresh("v")
		h.vars = append(h.vars, heapVar{name: name, kind: "arr", n: b.n})
		return []node{nDef(name, nApp("map", nFn(strict("x"), "", nApp("aset", nSym(a.name), nInt(0), nSym("x")), nApp("+", nSym("x"), nInt(1))), nSym(b.name)))}
	}
	if choice == 24 && len(hashes) > 0 {
		// the key list of a hash is a value of its own: later changes of the hash do not reach it,
		// and writing into it does not reach the hash
		hv := h.vars[pick(r, hashes)]
		ks := h.fresh("ks")
		h.vars = append(h.vars, heapVar{name: ks, kind: "karr", n: -1})
		out := []node{nDef(ks, nApp("keys", nSym(hv.name)))}
		switch r.intn(4) {
		case 0:
			out = append(out, nApp("hdel", nSym(hv.name), h.hkey(false)), nApp("hdel", nSym(hv.name), h.hkey(false)))
		case 1:
			out = append(out, nApp("hset", nSym(hv.name), h.hkey(false), h.small()), nApp("hset", nSym(hv.name), h.hkey(false), h.small()))
		case 2:
			// delete every listed key, walking the list
			out = append(out, nFor("", nDef("i", nInt(0)), nApp("<", nSym("i"), nApp("len", nSym(ks))), nSet("i", nApp("+", nSym("i"), nInt(1))),
				nApp("hdel", nSym(hv.name), nApp("aget", nSym(ks), nSym("i")))))
		default:
			out = append(out, nCond([]clause{{nApp(">", nApp("len", nSym(ks)), nInt(0)), nApp("aset", nSym(ks), nInt(0), nQuote(nSym("zz")))}}, nNil()),
				nApp("hset", nSym(hv.name), h.hkey(false), h.small()))
		}
		out = append(out, nApp("tr", nInt(h.key()), nSym(ks)), nApp("tr", nInt(h.key()), nApp("keys", nSym(hv.name))), nApp("tr", nInt(h.key()), nSym(hv.name)))
		return out
	}
	if choice == 23 {
		// an array (or hash) literal evaluated more than once must give a new object each time, whatever
		// its syntactic position: function result, call argument, let binding, cond arm, nested literal
		mk, idf := h.fresh("mk"), h.fresh("idf")
		lit := nArr(nInt(0), nInt(0))
		pos := r.intn(8)
		var body node
		switch pos {
		case 0:
			body = lit
		case 1:
			body = nCall(nSym(idf), lit)
		case 2:
			body = nLet("let", []bind{{"t", lit}}, nSym("t"))
		case 3:
			body = nCond([]clause{{nBool(true), lit}}, nNil())
		case 4:
			body = nApp("append", nArr(nInt(0)), nInt(0))
		case 5:
			body = nApp("aget", nArr(lit, nInt(1)), nInt(0))
		case 6:
			body = nBegin(nInt(1), lit)
		default:
			body = nCall(nSym(idf), nApp("concat", lit))
		}
		a, b := h.fresh("v"), h.fresh("v")
		h.vars = append(h.vars, heapVar{name: a, kind: "arr", n: 2}, heapVar{name: b, kind: "arr", n: 2})
		out := []node{nDefn(idf, strict("p"), "", nSym("p")), nDefn(mk, nil, "", body),
			nDef(a, nCall(nSym(mk))), nApp("aset", nSym(a), nInt(0), nInt(7)), nDef(b, nCall(nSym(mk))),
			nApp("tr", nInt(h.key()), nSym(a)), nApp("tr", nInt(h.key()), nSym(b))}
		if r.bool() {
			// rows built in a loop from one literal are independent
			rows := h.fresh("o")
			h.vars = append(h.vars, heapVar{name: rows, kind: "outer", n: 3})
			out = append(out, nDef(rows, nArr()),
				nFor("", nDef("i", nInt(0)), nApp("<", nSym("i"), nInt(3)), nSet("i", nApp("+", nSym("i"), nInt(1))),
					nSet(rows, nApp("append", nSym(rows), nCall(nSym(idf), nArr(nInt(0), nInt(0), nInt(0)))))),
				nApp("aset", nApp("aget", nSym(rows), nInt(1)), nInt(1), nInt(7)),
				nApp("tr", nInt(h.key()), nSym(rows)))
		}
		return out
	}
	// observe something
	all := append(append(append([]int{}, arrs...), hashes...), outers...)
	all = append(all, strs...)
	all = append(all, h.ofKind("karr")...)
	if r.intn(4) == 0 && len(arrs) >= 2 {
		a, b := h.vars[pick(r, arrs)], h.vars[pick(r, arrs)]
		return []node{nApp("tr", nInt(h.key()), nApp("==", nSym(a.name), nSym(b.name)))}
	}
	return []node{h.observe(pick(r, all))}
}

// genHeapProgram: statements at top level, or the same statements as the body
// of a function that is then called (locals instead of globals).
func genHeapProgram(r *rng) []node { return genHeapProgramX(r, false) }

// extStmt: the empty hash literal {} evaluated more than once (a new hash each time, like [] and
// (hash)), and == between hashes (equal when they hold the same keys with equal values)
func (h *heapCtx) extStmt(hashes []int) []node {
	r := h.r
	switch r.intn(3) {
	case 0: // {} as the result of a function called twice, or in a loop
		mk := h.fresh("mk")
		a, b := h.fresh("h"), h.fresh("h")
		h.vars = append(h.vars, heapVar{name: a, kind: "hash"}, heapVar{name: b, kind: "hash"})
		var body node = nEHash()
		switch r.intn(4) {
		case 0:
			body = nLet("let", []bind{{"t", nEHash()}}, nSym("t"))
		case 1:
			body = nCond([]clause{{nBool(true), nEHash()}}, nNil())
		case 2:
			body = nBegin(nInt(1), nEHash())
		}
		return []node{nDefn(mk, nil, "", body), nDef(a, nCall(nSym(mk))), nApp("hset", nSym(a), h.hkey(false), h.small()), nDef(b, nCall(nSym(mk))),
			nApp("tr", nInt(h.key()), nSym(a)), nApp("tr", nInt(h.key()), nSym(b))}
	case 1:
		rows := h.fresh("o")
		h.vars = append(h.vars, heapVar{name: rows, kind: "outer", n: 3})
		return []node{nDef(rows, nArr()),
			nFor("", nDef("i", nInt(0)), nApp("<", nSym("i"), nInt(3)), nSet("i", nApp("+", nSym("i"), nInt(1))),
				nLet("let", []bind{{"t", nEHash()}}, nApp("hset", nSym("t"), nSym("i"), nSym("i")), nSet(rows, nApp("append", nSym(rows), nSym("t"))))),
			nApp("tr", nInt(h.key()), nSym(rows))}
	}
	if len(hashes) < 1 {
		return nil
	}
	a, b := h.vars[pick(r, hashes)], h.vars[pick(r, hashes)]
	var rhs node = nSym(b.name)
	if r.intn(3) == 0 {
		rhs = nApp("hash", h.hkey(true), h.small())
	}
	return []node{nApp("tr", nInt(h.key()), nApp(pick(r, []string{"==", "!="}), nSym(a.name), rhs))}
}

func genHeapProgramX(r *rng, ext bool) []node {
	h := &heapCtx{r: r, ext: ext}
	n := 6 + r.intn(8)
	var body []node
	for i := 0; i < n; i++ {
		body = append(body, h.stmt()...)
	}
	// at the end every container is observed, and the program's value is the list of them
	var final []node
	for i := range h.vars {
		body = append(body, h.observe(i))
		final = append(final, nSym(h.vars[i].name))
	}
	body = append(body, nApp("list", final...))
	if r.intn(3) == 0 {
		return []node{nDefn("work", nil, "", body...), nCall(nSym("work"))}
	}
	return body
}
