package main

// Seeded generators of core-language programs (ASTs) for the ZSem families.
// All variables hold integers unless stated, function names live in their own
// pool, loops are bounded by construction, recursion has a decreasing
// argument; the reference semantics' fuel catches the rest.

import "fmt"

type fnInfo struct {
	name     string
	nparams  int
	variadic bool
}

type genCtx struct {
	r       *rng
	vars    []string // integer variables in scope
	fns     []fnInfo // callable names in scope
	clos    []fnInfo // variables holding closures (name, arity)
	makers  []fnInfo // functions that return a closure of one parameter
	labels  []string // enclosing loop labels ("" for an unlabelled loop)
	inLoop  int
	self    *fnInfo // the function being defined (recursion on its first parameter)
	selfArg string
	k       *int // trace counter
	w       weights
	nameSeq *int
	inArg   bool // inside a call argument: break/continue cannot leave it
	faults  bool // sprinkle (fail) host calls: every one is a possible failure point (C05)

	// ext: the further dimensions of the sem family's own programs (gen_ext.go). The other families
	// that build on genProgram keep the programs they had.
	ext    bool
	arrs   []arrVar  // variables holding arrays
	hashes []hashVar // variables holding hashes with symbol keys (read and written through dot paths)
}

type weights struct {
	loops, calls, data, scoping, errors int // relative weights 0..10
}

func (c *genCtx) child() *genCtx {
	n := *c
	n.vars = append([]string(nil), c.vars...)
	n.fns = append([]fnInfo(nil), c.fns...)
	n.clos = append([]fnInfo(nil), c.clos...)
	n.makers = append([]fnInfo(nil), c.makers...)
	n.labels = append([]string(nil), c.labels...)
	n.arrs = append([]arrVar(nil), c.arrs...)
	n.hashes = append([]hashVar(nil), c.hashes...)
	return &n
}

// arg: the context for generating a call argument
func (c *genCtx) arg() *genCtx {
	n := c.child()
	n.inArg = true
	return n
}

func (c *genCtx) nextK() int {
	*c.k++
	return *c.k
}

var intPalette = []int{0, 1, 2, 3, -1}
var namePool = []string{"x", "y", "z"}

func (c *genCtx) lit() node {
	switch c.r.intn(10) {
	case 0:
		return nNil()
	case 1:
		return nBool(c.r.bool())
	}
	return nInt(pick(c.r, intPalette))
}

// tr wraps an expression so that its evaluation is observable: (tr k e) records
// (k, value) in the effect trace and returns the value.
func (c *genCtx) tr(e node) node {
	return nApp("tr", nInt(c.nextK()), e)
}

func (c *genCtx) intLeaf() node {
	if c.faults && c.r.intn(4) == 0 {
		return nApp("fail")
	}
	if len(c.vars) > 0 && c.r.intn(3) > 0 {
		return nSym(pick(c.r, c.vars))
	}
	return nInt(pick(c.r, intPalette))
}

// intExpr yields an expression meant to evaluate to an integer.
func (c *genCtx) intExpr(d int) node {
	if d <= 0 {
		if c.r.intn(2) == 0 {
			return c.tr(c.intLeaf())
		}
		return c.intLeaf()
	}
	if c.ext && c.r.intn(100) < 12 {
		if e := c.extExpr(d); e != nil {
			return e
		}
	}
	n := c.r.intn(100)
	switch {
	case n < 18:
		return c.intLeaf()
	case n < 26:
		return c.tr(c.arg().intExpr(d - 1))
	case n < 40:
		return nApp(pick(c.r, []string{"+", "-", "*"}), c.arg().intExpr(d-1), c.arg().intExpr(d-1))
	case n < 48:
		return nCond([]clause{{c.boolExpr(d - 1), c.intExpr(d - 1)}}, c.intExpr(d-1))
	case n < 53:
		return nCond([]clause{{c.boolExpr(d - 1), c.intExpr(d - 1)}, {c.boolExpr(d - 1), c.intExpr(d - 1)}}, c.intExpr(d-1))
	case n < 58:
		return node{pick(c.r, []string{"and", "or"}), seq([]node{c.intExpr(d - 1), c.intExpr(d - 1)})}
	case n < 61:
		return node{pick(c.r, []string{"and", "or"}), seq([]node{c.intExpr(d - 1), c.anyExpr(d - 1), c.intExpr(d - 1)})}
	case n < 70:
		return c.letExpr(d)
	case n < 74:
		cc := c.child()
		return nScope(cc.stmts(d-1, 1+c.r.intn(2))...)
	case n < 78:
		return nBegin(c.stmts(d-1, 1+c.r.intn(2))...)
	case n < 84 && c.w.calls > 0:
		return c.callExpr(d)
	case n < 88 && c.w.calls > 0:
		// immediately applied function literal
		cc := c.child()
		p := c.fresh()
		cc.vars = append(cc.vars, p)
		cc.self = nil
		cc.labels, cc.inLoop = nil, 0
		return nCall(nFn(strict(p), "", cc.stmts(d-1, 1+c.r.intn(2))...), c.arg().intExpr(d-1))
	case n < 90 && c.w.data > 0:
		return c.dataExpr(d)
	case n < 92 && c.w.data > 0:
		a := c.arg()
		return nApp("len", nSq(tqList(tqAtom(nSym("q")), tqUnq(a.intExpr(d-1)), tqSplice(nApp("list", a.intExpr(d-1), a.intExpr(d-1))), tqArr(tqUnq(a.intExpr(d-1))))))
	case n < 95:
		if len(c.vars) > 0 {
			return node{pick(c.r, []string{"def", "set"}), pick(c.r, c.vars), c.intExpr(d - 1)}
		}
		return c.intLeaf()
	case n < 97 && c.self != nil:
		return c.selfCall(d)
	case n < 100 && len(c.clos) > 0:
		return c.cloCall(d)
	}
	if c.w.scoping > 0 && len(c.clos) > 0 && c.r.intn(2) == 0 {
		return c.cloCall(d)
	}
	return c.tr(c.intLeaf())
}

func (c *genCtx) fresh() string {
	if c.w.scoping > 5 || c.r.intn(3) > 0 {
		return pick(c.r, namePool) // tiny pool: shadowing and capture collisions
	}
	*c.nameSeq++
	return fmt.Sprintf("v%d", *c.nameSeq)
}

func (c *genCtx) boolExpr(d int) node {
	if c.ext && c.r.intn(100) < 10 {
		if e := c.extTest(d); e != nil {
			return e
		}
	}
	if d <= 0 || c.r.intn(4) == 0 {
		switch c.r.intn(4) {
		case 0:
			return nBool(c.r.bool())
		case 1:
			return c.intLeaf() // integers as conditions: 0 is falsy
		}
	}
	if d > 0 && c.r.intn(8) == 0 {
		// a call (also a self call) directly in test position
		if c.self != nil && c.r.bool() {
			return c.selfCall(d)
		}
		if len(c.fns) > 0 {
			return c.callExpr(d)
		}
	}
	op := pick(c.r, []string{"==", "!=", "<", ">", "<=", ">="})
	e := nApp(op, c.arg().intExpr(d-1), c.arg().intExpr(d-1))
	if c.r.intn(6) == 0 {
		return nApp("not", e)
	}
	return e
}

func (c *genCtx) anyExpr(d int) node {
	switch c.r.intn(6) {
	case 0:
		return c.lit()
	case 1:
		return c.boolExpr(d)
	case 2:
		return c.tr(c.lit())
	}
	return c.intExpr(d)
}

func (c *genCtx) letExpr(d int) node {
	kind := pick(c.r, []string{"let", "letseq"})
	cc := c.child()
	nb := 1 + c.r.intn(2)
	var bs []bind
	for i := 0; i < nb; i++ {
		x := c.fresh()
		var rhs node
		if kind == "letseq" {
			rhs = cc.intExpr(d - 1)
			cc.vars = append(cc.vars, x)
		} else {
			rhs = c.intExpr(d - 1) // let: right-hand sides see the outer names
		}
		bs = append(bs, bind{x, rhs})
	}
	if kind == "let" {
		for _, b := range bs {
			cc.vars = append(cc.vars, b.x)
		}
	}
	return nLet(kind, bs, cc.stmts(d-1, 1+c.r.intn(2))...)
}

// stmts: a body of n forms, the last one an integer expression.
func (c *genCtx) stmts(d, n int) []node {
	var out []node
	for i := 0; i < n-1; i++ {
		out = append(out, c.stmt(d))
	}
	out = append(out, c.intExpr(d))
	return out
}

func (c *genCtx) stmt(d int) node {
	if c.ext && c.r.intn(100) < 12 {
		if e := c.extStmt(d); e != nil {
			return e
		}
	}
	n := c.r.intn(100)
	switch {
	case n < 25:
		x := c.fresh()
		e := nDef(x, c.intExpr(d-1))
		c.vars = append(c.vars, x)
		return e
	case n < 40 && len(c.vars) > 0:
		return nSet(pick(c.r, c.vars), c.intExpr(d-1))
	case n < 55:
		return c.tr(c.arg().intExpr(d - 1))
	case n < 70 && c.w.loops > 0 && d > 0:
		return c.loop(d)
	case n < 78 && c.inLoop > 0 && !c.inArg:
		return c.jump(d)
	case n < 84 && c.w.calls > 0 && d > 0:
		return c.defn(d)
	case n < 88 && c.w.scoping > 0 && d > 0:
		return c.closureStmt(d)
	case n < 90 && c.w.errors > 0 && c.r.intn(3) == 0:
		return c.errorForm(d)
	}
	return c.intExpr(d)
}

func (c *genCtx) cloCall(d int) node {
	f := pick(c.r, c.clos)
	var args []node
	for i := 0; i < f.nparams; i++ {
		args = append(args, c.arg().intExpr(d-1))
	}
	return nCall(nSym(f.name), args...)
}

// fnLit: a function literal of np parameters whose body uses the names in scope
func (c *genCtx) fnLit(d, np int) node {
	cc := c.child()
	cc.self, cc.labels, cc.inLoop, cc.inArg = nil, nil, 0, false
	var ps []string
	for i := 0; i < np; i++ {
		p := cc.fresh()
		for contains(ps, p) {
			*c.nameSeq++
			p = fmt.Sprintf("q%d", *c.nameSeq)
		}
		ps = append(ps, p)
	}
	cc.vars = append(cc.vars, ps...)
	return nFn(strict(ps...), "", cc.stmts(d-1, 1+c.r.intn(2))...)
}

// closureStmt: statements that create, store, pass and return closures
// builtin function names that a parameter or a let variable may legally carry
var shadowable = []string{"first", "second", "len", "list", "rest", "not", "cons", "append"}

func (c *genCtx) closureStmt(d int) node {
	if c.ext && c.r.intn(100) < 30 {
		return c.extClosureStmt(d)
	}
	switch c.r.intn(10) {
	case 8: // a parameter named like a builtin holds a function: in call position the parameter wins
		p1, p2 := pick(c.r, shadowable), pick(c.r, shadowable)
		if p1 == p2 {
			return nBegin(nDefn("hof", strict(p1), "", c.tr(nCall(nSym(p1), c.arg().intExpr(d-1)))),
				c.tr(nCall(nSym("hof"), c.fnLit(d, 1))))
		}
		return nBegin(nDefn("comp", strict(p1, p2), "", c.tr(nCall(nSym(p1), nCall(nSym(p2), c.arg().intExpr(d-1))))),
			c.tr(nCall(nSym("comp"), c.fnLit(d, 1), c.fnLit(d, 1))))
	case 9: // a let variable named like a builtin, used from the let body and from a closure made there
		p := pick(c.r, shadowable)
		if c.r.bool() {
			return c.tr(nLet("let", []bind{{p, c.fnLit(d, 1)}}, nCall(nSym(p), c.arg().intExpr(d-1))))
		}
		name := pick(c.r, []string{"c1", "c2"})
		c.clos = append(c.clos, fnInfo{name, 1, false})
		return nDef(name, nLet("let", []bind{{p, c.fnLit(d, 1)}}, nFn(strict("q"), "", c.tr(nCall(nSym(p), nSym("q"))))))
	case 6, 7: // three nested function levels: the innermost uses (and updates) a variable of the
		// outermost, which is activated more than once
		name := pick(c.r, []string{"o3", "o4"})
		a, b, cc := pick(c.r, namePool), pick(c.r, namePool), pick(c.r, namePool)
		var innerBody []node
		if c.r.bool() {
			innerBody = append(innerBody, nSet(a, nApp("+", nSym(a), nSym(cc))))
		}
		innerBody = append(innerBody, c.tr(nApp("+", nSym(a), nApp("+", nSym(b), nSym(cc)))))
		def := nDefn(name, strict(a), "", nFn(strict(b), "", nFn(strict(cc), "", innerBody...)))
		k1, k2 := "k1", "k2"
		forms := []node{def,
			nDef(k1, nCall(nCall(nSym(name), c.arg().intExpr(d-1)), nInt(10))),
			nDef(k2, nCall(nCall(nSym(name), c.arg().intExpr(d-1)), nInt(20))),
			c.tr(nCall(nSym(k1), nInt(1))), c.tr(nCall(nSym(k2), nInt(2))), c.tr(nCall(nSym(k1), nInt(3)))}
		c.clos = append(c.clos, fnInfo{k1, 1, false}, fnInfo{k2, 1, false})
		return nBegin(forms...)
	case 0: // a closure over the current names, bound to a variable
		name := pick(c.r, []string{"c1", "c2"})
		np := c.r.intn(2)
		e := nDef(name, c.fnLit(d, np))
		c.clos = append(c.clos, fnInfo{name, np, false})
		return e
	case 1: // a maker: returns a closure over its parameter and a local
		name := pick(c.r, []string{"mk", "mk2"})
		cc := c.child()
		cc.self, cc.labels, cc.inLoop, cc.inArg = nil, nil, 0, false
		p := cc.fresh()
		cc.vars = append(cc.vars, p)
		var body []node
		if c.r.bool() {
			l := cc.fresh()
			body = append(body, nDef(l, cc.intExpr(d-1)))
			cc.vars = append(cc.vars, l)
		}
		inner := cc.child()
		q := inner.fresh()
		inner.vars = append(inner.vars, q)
		ib := []node{}
		if c.r.bool() && len(cc.vars) > 0 {
			v := pick(c.r, cc.vars)
			ib = append(ib, nSet(v, nApp("+", nSym(v), nSym(q))))
		}
		ib = append(ib, inner.intExpr(d-1))
		body = append(body, nFn(strict(q), "", ib...))
		c.makers = append(c.makers, fnInfo{name, 1, false})
		return nDefn(name, strict(p), "", body...)
	case 2: // call a maker, keep the closure
		if len(c.makers) == 0 {
			return c.closureStmt(d)
		}
		m := pick(c.r, c.makers)
		name := pick(c.r, []string{"c1", "c2", "c3"})
		e := nDef(name, nCall(nSym(m.name), c.arg().intExpr(d-1)))
		c.clos = append(c.clos, fnInfo{name, 1, false})
		return e
	case 3: // closures collected in a loop, called after the loop
		i := pick(c.r, []string{"i", "j"})
		arrv := "fs"
		loop := nFor("", nDef(i, nInt(0)), nApp("<", nSym(i), nInt(1+c.r.intn(2))), nDef(i, nApp("+", nSym(i), nInt(1))),
			nSet(arrv, nApp("append", nSym(arrv), nFn(nil, "", c.tr(nApp("+", nSym(i), c.intLeaf()))))))
		return nBegin(nDef(arrv, nArr()), loop, nApp("map", nFn(strict("g"), "", nCall(nSym("g"))), nSym(arrv)))
	case 4: // pass a closure to a higher-order function
		ho := nDefn("app", strict("g", "v"), "", nCall(nSym("g"), nSym("v")))
		c.fns = append(c.fns, fnInfo{"app2", 0, false})
		c.fns = c.fns[:len(c.fns)-1]
		return nBegin(ho, c.tr(nCall(nSym("app"), c.fnLit(d, 1), c.arg().intExpr(d-1))))
	}
	// a closure stored in an array and called through aget
	return c.tr(nCall(nApp("aget", nArr(c.fnLit(d, 1), c.fnLit(d, 1)), nInt(c.r.intn(2))), c.arg().intExpr(d-1)))
}

func (c *genCtx) jump(d int) node {
	lbl := ""
	if len(c.labels) > 0 && c.r.intn(2) == 0 {
		lbl = pick(c.r, c.labels)
	}
	j := node{pick(c.r, []string{"break", "continue"}), lbl}
	switch c.r.intn(4) {
	case 0:
		return j
	case 1: // jump out of a let scope
		x := c.fresh()
		return nCond([]clause{{c.boolExpr(d - 1), nLet("let", []bind{{x, c.intExpr(d - 1)}}, c.tr(nSym(x)), j)}}, nInt(0))
	case 2: // out of a newScope inside a cond
		return nCond([]clause{{c.boolExpr(d - 1), nScope(c.tr(c.intLeaf()), j)}}, c.tr(c.intLeaf()))
	}
	return nCond([]clause{{c.boolExpr(d - 1), j}}, nInt(0))
}

func (c *genCtx) loop(d int) node {
	cc := c.child()
	i := pick(c.r, []string{"i", "j"})
	lbl := ""
	if c.r.intn(2) == 0 {
		lbl = pick(c.r, []string{"outer", "inner"})
	}
	cc.vars = append(cc.vars, i)
	cc.inLoop++
	if lbl != "" {
		cc.labels = append(cc.labels, lbl)
	}
	bound := 1 + c.r.intn(3)
	body := []node{}
	nb := 1 + c.r.intn(3)
	for s := 0; s < nb; s++ {
		body = append(body, cc.stmt(d-1))
	}
	return nFor(lbl, nDef(i, nInt(0)), nApp("<", nSym(i), nInt(bound)), nDef(i, nApp("+", nSym(i), nInt(1))), body...)
}

func (c *genCtx) defn(d int) node {
	name := pick(c.r, []string{"f", "g", "h"})
	np := c.r.intn(3)
	variadic := c.r.intn(5) == 0
	cc := c.child()
	cc.labels, cc.inLoop = nil, 0
	var ps []string
	for i := 0; i < np; i++ {
		p := cc.fresh()
		for contains(ps, p) {
			*c.nameSeq++
			p = fmt.Sprintf("p%d", *c.nameSeq)
		}
		ps = append(ps, p)
	}
	rest := ""
	if variadic {
		rest = "more"
	}
	cc.vars = append(cc.vars, ps...)
	info := fnInfo{name, np, variadic}
	var body []node
	if np > 0 && c.r.intn(2) == 0 {
		// recursive with a decreasing first argument
		cc.self = &info
		cc.selfArg = ps[0]
		cc.fns = append(cc.fns, info)
		rec := cc.stmts(d-1, 1+c.r.intn(2))
		body = []node{nCond([]clause{{nApp("<=", nSym(ps[0]), nInt(0)), cc.tr(nInt(pick(c.r, intPalette)))}}, nBegin(rec...))}
	} else {
		cc.self = nil
		body = cc.stmts(d-1, 1+c.r.intn(2))
	}
	c.fns = append(c.fns, info)
	return nDefn(name, strict(ps...), rest, body...)
}

func contains(xs []string, x string) bool {
	for _, y := range xs {
		if x == y {
			return true
		}
	}
	return false
}

func (c *genCtx) selfCall(d int) node {
	args := []node{nApp("-", nSym(c.selfArg), nInt(1))}
	for i := 1; i < c.self.nparams; i++ {
		args = append(args, c.arg().intExpr(d-1))
	}
	if c.ext && c.r.intn(6) == 0 {
		c.rebindCallee(*c.self, args)
	}
	return nCall(nSym(c.self.name), args...)
}

func (c *genCtx) callExpr(d int) node {
	if len(c.fns) == 0 {
		return c.intLeaf()
	}
	f := pick(c.r, c.fns)
	if c.self != nil && f.name == c.self.name {
		return c.selfCall(d)
	}
	n := f.nparams
	if f.variadic {
		n += c.r.intn(3)
	}
	if c.w.errors > 0 && c.r.intn(12) == 0 {
		n += 1 - 2*c.r.intn(2) // wrong arity
		if n < 0 {
			n = 0
		}
	}
	var args []node
	for i := 0; i < n; i++ {
		args = append(args, c.arg().intExpr(d-1))
	}
	if c.ext && n == f.nparams && c.r.intn(10) == 0 {
		c.rebindCallee(f, args)
	}
	return nCall(nSym(f.name), args...)
}

func (c0 *genCtx) dataExpr(d int) node {
	c := c0.arg()
	mk := func(n int) []node {
		var es []node
		for i := 0; i < n; i++ {
			es = append(es, c.intExpr(d-1))
		}
		return es
	}
	if c.ext && c.r.intn(3) == 0 {
		return c.extData(d, mk)
	}
	switch c.r.intn(9) {
	case 0:
		return nApp("aget", nArr(mk(1+c.r.intn(3))...), nInt(c.r.intn(3)))
	case 1:
		return nApp("len", nApp("list", mk(c.r.intn(3))...))
	case 2:
		return nApp("first", nApp("list", mk(1+c.r.intn(2))...))
	case 3:
		return nApp("len", nApp("append", nArr(mk(c.r.intn(2))...), c.intExpr(d-1)))
	case 4:
		return nApp("first", nApp("rest", nApp("cons", c.intExpr(d-1), nApp("list", mk(1+c.r.intn(2))...))))
	case 5: // map with a closure over a local
		cc := c.child()
		p := c.fresh()
		cc.vars = append(cc.vars, p)
		cc.self, cc.labels, cc.inLoop = nil, nil, 0
		coll := nArr(mk(1 + c.r.intn(3))...)
		if c.r.bool() {
			coll = nApp("list", mk(2+c.r.intn(2))...) // map over a list: same left-to-right order of application
		}
		body := cc.tr(cc.intExpr(d - 1))
		if c.r.bool() {
			return nApp("len", nApp("map", nFn(strict(p), "", body), coll))
		}
		return nApp("first", nApp("map", nFn(strict(p), "", body), coll))
	case 6:
		return nApp("apply", nSym(pick(c.r, []string{"+", "*", "-"})), nArr(mk(1+c.r.intn(3))...))
	case 7:
		cc := c.child()
		p, q := "a", "b"
		cc.vars = append(cc.vars, p, q)
		cc.self, cc.labels, cc.inLoop = nil, nil, 0
		return nApp("apply", nFn(strict(p, q), "", cc.intExpr(d-1)), nApp("list", mk(2)...))
	}
	return nApp("len", nApp("concat", nArr(mk(c.r.intn(2))...), nArr(mk(c.r.intn(2))...)))
}

func (c *genCtx) errorForm(d int) node {
	if c.ext && c.r.intn(3) == 0 {
		// the variable of a loop that has ended (or never ran): unbound unless a scope was left behind
		if v := pick(c.r, []string{"i", "j"}); !contains(c.vars, v) {
			return c.tr(nSym(v))
		}
	}
	switch c.r.intn(6) {
	case 0:
		return nSym("unboundvar")
	case 1:
		return nApp("aget", nArr(nInt(1)), nInt(5))
	case 2:
		return nAssert(c.boolExpr(d - 1))
	case 3:
		return nApp("first", nArr())
	case 4:
		return nApp("+", nInt(1), nStr("s"))
	}
	return nCall(nInt(5), nInt(1))
}

// genProgram: a whole program of top-level forms for the given slice.
func genProgram(r *rng, w weights, depth int) []node {
	return genProgramF(r, w, depth, false)
}

// genProgramX: genProgram with the further dimensions of gen_ext.go (the sem family's own programs)
func genProgramX(r *rng, w weights, depth int) []node {
	return genProgramFX(r, w, depth, false, true)
}

func genProgramF(r *rng, w weights, depth int, faults bool) []node {
	return genProgramFX(r, w, depth, faults, false)
}

func genProgramFX(r *rng, w weights, depth int, faults, ext bool) []node {
	k, ns := 0, 0
	c := &genCtx{r: r, k: &k, nameSeq: &ns, w: w, faults: faults, ext: ext}
	n := 2 + r.intn(4)
	var forms []node
	for i := 0; i < n; i++ {
		if r.intn(3) == 0 {
			forms = append(forms, c.intExpr(depth))
		} else {
			forms = append(forms, c.stmt(depth))
		}
	}
	forms = append(forms, c.intExpr(depth))
	return forms
}

// ---------------------------------------------------------------- exhaustive shapes

// enumShapes returns every nesting of the control forms (and, or, begin,
// newScope, let, letseq, cond) to the given depth, with ["leaf"] placeholders.
func enumShapes(depth int) []node {
	if depth == 0 {
		return []node{{"leaf"}}
	}
	sub := enumShapes(depth - 1)
	leafOnly := []node{{"leaf"}}
	out := []node{{"leaf"}}
	kids := func() [][]node { return [][]node{sub, leafOnly} }
	_ = kids
	for _, a := range sub {
		for _, b := range sub {
			if depth > 1 && a[0] == "leaf" && b[0] == "leaf" {
				// depth-1 shapes are already in sub
			}
			out = append(out,
				nAnd(a, b), nOr(a, b), nBegin(a, b), nScope(a, b),
				nLet("let", []bind{{"x", a}}, b), nLet("letseq", []bind{{"x", a}}, b),
				nApp("first", nSq(tqList(tqUnq(a), tqAtom(nSym("q")), tqUnq(b)))),
				nApp("len", nSq(tqArr(tqSplice(nApp("list", a)), tqUnq(b)))))
		}
	}
	for _, t := range leafOnly {
		for _, a := range sub {
			for _, b := range sub {
				out = append(out, nCond([]clause{{t, a}}, b))
			}
		}
	}
	return out
}

func cloneTree(x any) any {
	v, ok := x.([]any)
	if !ok {
		return x
	}
	out := make([]any, len(v))
	for i := range v {
		out[i] = cloneTree(v[i])
	}
	return out
}

// fillLeaves replaces the placeholders left to right using mk(i).
func fillLeaves(x any, i *int, mk func(i int) node) any {
	v, ok := x.([]any)
	if !ok {
		return x
	}
	if len(v) == 1 && v[0] == "leaf" {
		*i++
		return mk(*i)
	}
	out := make([]any, len(v))
	for j := range v {
		out[j] = fillLeaves(v[j], i, mk)
	}
	return out
}

func countLeaves(x any) int {
	v, ok := x.([]any)
	if !ok {
		return 0
	}
	if len(v) == 1 && v[0] == "leaf" {
		return 1
	}
	n := 0
	for _, y := range v {
		n += countLeaves(y)
	}
	return n
}
