package main

// Family "crash" (C01): every script-facing entry point must return a value or
// an error to the Go caller for any text. Cases are executed in worker
// subprocesses (a worker that dies is an observation, not a harness failure).

import (
	"bufio"
	"bytes"
	"encoding/json"
	"flag"
	"fmt"
	"os"
	"os/exec"
	"path/filepath"
	"regexp"
	"runtime/debug"
	"sort"
	"strings"
	"syscall"
	"time"

	zygo "github.com/glycerine/zygomys/v9/zygo"
)

type crashCase struct {
	ID    string   `json:"id"`
	Src   string   `json:"src"`   // which enumeration produced it
	Entry string   `json:"entry"` // eval | loadrun | parse | macexpand | seq | repl
	Cfg   string   `json:"cfg"`   // sandbox: NewZlispSandbox+StandardSetup | full: NewZlisp+StandardSetup
	Texts []string `json:"texts"`
	// what the generator knows about the program and CrashTrace's named deviations are stated in terms of:
	// ["none"] | ["exit", n]: the one text is the call (exit n) | ["chan", capacity, [ops]]: the one text makes a
	// channel of that capacity, reachable by nobody else, and performs these "send" / "recv" operations on it in order
	Prog []any `json:"prog"`
	// the program does not need only a bounded number of evaluation steps (macro expansion and evaluation that
	// call themselves without end; the step budget ends them, but how soon is not bounded by it): it may fail to
	// return within the time limit
	Unb bool `json:"unb"`
	// one outcome per text: ["val"] ["err"] ["more"] ["budget"] ["eof"] | ["panic",msg] ["nilres"] ["died",msg]
	// ["exited",status] ["hung"] | ["notrun"]
	Outs []any `json:"outs,omitempty"`
}

var specialForms = []string{"and", "or", "cond", "quote", "def", "mdef", "fn", "defn", "begin", "let", "letseq", "assert",
	"defmac", "macexpand", "syntaxQuote", "for", "set", "break", "continue", "newScope", "package", "return", "include", "_ls",
	"infix", "struct", "func", "method", "interface", "var", "range", "defmap", "++", "+="}

var argShapes = []string{"x", "1", `"s"`, "nil", "(list 1)", "()", "[1 2]", "[]", "{a: 1}", "a.b", "(quote q)", "(and)", "(fn [a] a)", "a:", "%", `([] \ 2)`}

// (begin) is an expression with nothing to evaluate; the last value is a size that Go's own range checks accept
// and no machine has the memory for
var valuePalette = []string{"0", "1", "-1", `"s"`, `""`, "nil", "true", "[]", "[1 2]", "(list 1 2)", "(hash a: 1)", "(quote q)", "1.5", "'c'", "(fn [a] a)", "(begin)", hugeSize}

const hugeSize = "1000000000000"

func crashEnv(cfg string) *zygo.Zlisp {
	var env *zygo.Zlisp
	if cfg == "full" {
		env = zygo.NewZlisp()
	} else {
		env = zygo.NewZlispSandbox()
	}
	env.StandardSetup()
	return env
}

// names callable in an interpreter of the given configuration. Nothing is left out: the workers run in a
// throw-away directory with an empty standard input, so files, the shell and the readers of standard input are
// harmless (the shell commands of the palette are inert words). The only restrictions are on arguments (paletteOK):
// (sleep n) returns after n milliseconds, which for the huge size is a long time and not a call that does not
// return, so sleep is not given the huge size; dump is given scalars only.
func crashUniverse(cfg string) []string {
	env := crashEnv(cfg)
	var out []string
	for _, n := range env.VerifGlobalNames() {
		k := env.VerifGlobalKind(n)
		if k == "gofunc" || k == "builder" || k == "closure" {
			out = append(out, n)
		}
	}
	out = append(out, env.VerifMacroNames()...)
	sort.Strings(out)
	return out
}

func paletteOK(name, val string) bool {
	if name == "dump" {
		// (dump v) of an array, a hash, a list or a function prints the interpreter they belong to (megabytes of
		// text, ten seconds and more): it returns, but not within the workers' time limit
		return !strings.ContainsAny(val, "[(")
	}
	return !(name == "sleep" && val == hugeSize)
}

func outcomeOf(fn func() (zygo.Sexp, error)) (o any) {
	defer func() {
		if r := recover(); r != nil {
			o = []any{"panic", trunc(fmt.Sprint(r), 200)}
		}
	}()
	v, err := fn()
	if err != nil {
		msg := err.Error()
		switch {
		case strings.Contains(msg, "verif: step budget"):
			return []any{"budget"}
		case err == zygo.ErrMoreInputNeeded || strings.Contains(msg, "parser needs more input"):
			return []any{"more"}
		}
		return []any{"err"}
	}
	if v == nil {
		return []any{"nilres"}
	}
	return []any{"val"}
}

const crashBudget = 200000

func runCrashCase(c *crashCase) {
	c.Outs = nil
	if c.Entry == "repl" {
		for _, t := range c.Texts {
			c.Outs = append(c.Outs, runReplChild(c.Cfg, expandText(t), c.Src != "repl" || strings.Contains(t, "(def cy "), hungLimitOf(c)))
		}
		return
	}
	env := crashEnv(c.Cfg)
	defer env.Close()
	for _, t := range c.Texts {
		t = expandText(t)
		var o any
		zygo.VerifSetBudget(crashBudget)
		switch c.Entry {
		case "eval", "seq":
			o = outcomeOf(func() (zygo.Sexp, error) { return env.EvalString(t) })
		case "loadrun":
			o = outcomeOf(func() (zygo.Sexp, error) {
				if err := env.LoadString(t); err != nil {
					return zygo.SexpNull, err
				}
				return env.Run()
			})
		case "parse":
			o = outcomeOf(func() (zygo.Sexp, error) {
				p := env.VerifParser()
				p.ResetAddNewInput(bytes.NewBufferString(t))
				xs, err := p.ParseTokens()
				if err != nil {
					return zygo.SexpNull, err
				}
				if xs == nil {
					return zygo.SexpNull, nil
				}
				return env.EvalExpressions(xs)
			})
		case "macexpand":
			o = outcomeOf(func() (zygo.Sexp, error) { return env.EvalString("(macexpand " + t + ")\n") })
		}
		zygo.VerifSetBudget(-1)
		c.Outs = append(c.Outs, o)
	}
}

// ---- the REPL entry point: zygo.Repl reads the lines of the text from its standard input (no line editor),
// evaluates and echoes them one by one and ends the process with status 0 when the input ends. It runs in a
// child of the worker; the outcome is how that process ended.

func replChildMain(cfg string, lowStack bool) int {
	if lowStack {
		debug.SetMaxStack(workerMaxStack)
	}
	env := crashEnv(cfg)
	zc := zygo.NewZlispConfig("zygo")
	zc.NoLiner = true
	zc.Quiet = true
	zc.Prompt = ""
	zc.Sandboxed = cfg != "full"
	zygo.VerifSetBudget(10 * crashBudget)
	zygo.Repl(env, zc) // ends the process at the end of the input; returns after a .quit line
	return 0
}

func runReplChild(cfg, text string, lowStack bool, limit time.Duration) any {
	self, _ := os.Executable()
	cmd := exec.Command(self, "crash", "-replchild", "-cfg", cfg)
	if lowStack {
		cmd.Args = append(cmd.Args, "-lowstack")
	}
	cmd.Stdin = strings.NewReader(text)
	cmd.Env = append(os.Environ(), "GOMAXPROCS=2")
	var stderr bytes.Buffer
	cmd.Stderr = &stderr
	if err := cmd.Start(); err != nil {
		return []any{"notrun"}
	}
	done := make(chan error, 1)
	go func() { done <- cmd.Wait() }()
	select {
	case <-done:
	case <-time.After(limit):
		cmd.Process.Kill()
		<-done
		return []any{"hung"}
	}
	if cmd.ProcessState.Success() {
		return []any{"eof"}
	}
	return endOfProcess(cmd.ProcessState, stderr.String())
}

// endOfProcess classifies a process that ended other than by returning: "exited" is an orderly end with a
// status (os.Exit was called), "died" a Go panic or fatal error, or a signal.
func endOfProcess(ps *os.ProcessState, stderr string) any {
	if ps == nil {
		return []any{"died", "no process state " + trunc(stderr, 300)}
	}
	crashed := false
	for _, mark := range []string{"panic:", "fatal error:", "runtime:", "goroutine "} {
		if strings.Contains(stderr, mark) {
			crashed = true
		}
	}
	if ws, ok := ps.Sys().(syscall.WaitStatus); ok && ws.Signaled() {
		crashed = true
	}
	if !crashed {
		return []any{"exited", ps.ExitCode()}
	}
	msg := stderr
	for _, mark := range []string{"fatal error:", "panic:"} {
		if i := strings.Index(msg, mark); i >= 0 {
			msg = msg[i:]
			break
		}
	}
	return []any{"died", fmt.Sprintf("exit=%d %s", ps.ExitCode(), trunc(msg, 300))}
}

// Go's bound on a goroutine stack is 1 GB. For the sources that look for a recursion in Go that no evaluation
// step drives (a printer, a comparison, an encoder on a value that contains itself; the reader on a text as deep
// as it is long) the worker lowers it, so that such a recursion is over in a second or two and does not touch a
// gigabyte of memory. Stacks double, so 48 MB means 32 MB: several times what these cases need when every such
// recursion has a bound of 10000 levels. Everywhere else the step budget is what bounds the depth of evaluation
// (evaluation nests a Go call per level of the expression), and the stack keeps Go's bound.
var lowStackSrc = map[string]bool{"cyclic": true, "deep": true}

const defaultMaxStack = 1000000000

var workerMaxStack = func() int {
	mb := 48
	if v := os.Getenv("ZV_MAXSTACK_MB"); v != "" { // the confirming re-execution asks for Go's own bound (lib/props/C01.py)
		fmt.Sscanf(v, "%d", &mb)
	}
	return mb << 20
}()

func setStackFor(src string) {
	switch {
	case src == "deep":
		debug.SetMaxStack(workerMaxStack / 2) // the reader's bound of 10000 levels needs about 6 MB
	case lowStackSrc[src]:
		debug.SetMaxStack(workerMaxStack)
	default:
		debug.SetMaxStack(defaultMaxStack)
	}
}

var hungLimit = func() time.Duration {
	n := 20
	if v := os.Getenv("ZV_HUNG_S"); v != "" { // the confirming re-execution of a rejected case asks for a longer limit (lib/props/C01.py)
		fmt.Sscanf(v, "%d", &n)
	}
	return time.Duration(n) * time.Second
}()

// ---- case generation

func crashCases(c *common) []crashCase {
	var cases []crashCase
	addx := func(src, entry, cfg string, prog []any, texts ...string) {
		cases = append(cases, crashCase{ID: fmt.Sprintf("c%d", len(cases)), Src: src, Entry: entry, Cfg: cfg, Prog: prog, Texts: texts})
	}
	none := []any{"none"}
	add := func(src, entry string, texts ...string) { addx(src, entry, "sandbox", none, texts...) }
	entries := []string{"eval", "loadrun", "parse", "macexpand"}
	// (1) every special form x arity 0..3 x argument shapes (arity 3: shapes sampled)
	for _, f := range specialForms {
		add("form", "eval", "("+f+")\n")
		add("form", "macexpand", "("+f+")")
		for i, a := range argShapes {
			add("form", entries[i%2], fmt.Sprintf("(%s %s)\n", f, a))
			for j, b := range argShapes {
				add("form", entries[(i+j)%4], fmt.Sprintf("(%s %s %s)\n", f, a, b))
				for k, cc := range argShapes {
					if c.thorough() || hashSel(c.seed, i*400+j*20+k, 1, 12) {
						add("form", "eval", fmt.Sprintf("(%s %s %s %s)\n", f, a, b, cc))
					}
				}
			}
		}
	}
	// (2) every callable name x arity 0..3 x value palette, in the sandboxed interpreter; the names that only the
	// full interpreter has (files, shell, environment, Go values, exit) in the full interpreter
	uni := crashUniverse("sandbox")
	inSandbox := map[string]bool{}
	for _, n := range uni {
		inSandbox[n] = true
	}
	type cname struct{ cfg, name string }
	var names []cname
	for _, n := range uni {
		names = append(names, cname{"sandbox", n})
	}
	for _, n := range crashUniverse("full") {
		if !inSandbox[n] {
			names = append(names, cname{"full", n})
		}
	}
	for ui, cn := range names {
		name := cn.name
		addb := func(text string) { addx("builtin", "eval", cn.cfg, none, text) }
		if cn.cfg == "full" && name == "exit" {
			// the call whose purpose is to end the process: the generator says which status is asked for
			for _, n := range []int{0, 1, 7, -1, 255, 256} {
				addx("builtin", "eval", "full", []any{"exit", n}, fmt.Sprintf("(exit %d)\n", n))
			}
			for _, a := range []string{"", `"s"`, "nil", "1.5", "[1]", "1 2", "(quote q)"} {
				addb(fmt.Sprintf("(exit %s)\n", a))
			}
			continue
		}
		addb("(" + name + ")\n")
		for i, a := range valuePalette {
			if !paletteOK(name, a) {
				continue
			}
			addb(fmt.Sprintf("(%s %s)\n", name, a))
			for j, b := range valuePalette {
				if !paletteOK(name, b) {
					continue
				}
				if c.thorough() || hashSel(c.seed, ui*1000+i*20+j, 1, 3) {
					addb(fmt.Sprintf("(%s %s %s)\n", name, a, b))
				}
				if c.thorough() && hashSel(c.seed, ui*1000+i*20+j, 1, 8) && paletteOK(name, valuePalette[(i+j)%(len(valuePalette)-1)]) {
					addb(fmt.Sprintf("(%s %s %s %s)\n", name, a, b, valuePalette[(i+j)%(len(valuePalette)-1)]))
				}
			}
		}
		// used as a value / in infix / as an index target
		addb(fmt.Sprintf("{%s}\n", name))
		addb(fmt.Sprintf("{a := [1 2]; a[%s]}\n", name))
		addb(fmt.Sprintf("(map %s [1 2])\n", name))
		addb(fmt.Sprintf("(apply %s [1 2])\n", name))
	}
	// the special forms the sandbox refuses or that show the interpreter's state, in the full interpreter
	for _, f := range []string{"include", "_ls"} {
		addx("form", "eval", "full", none, "("+f+")\n")
		for _, a := range argShapes {
			addx("form", "eval", "full", none, fmt.Sprintf("(%s %s)\n", f, a))
			addx("form", "eval", "full", none, fmt.Sprintf("(defn f [] (%s %s %s))\n", f, a, a))
		}
	}
	// (2b) index / slice / positional forms x boundary indices x containers, reads and writes,
	// at top level and inside a function (a panic in an instruction is not under a builtin's recover)
	conts := []string{"[1 2 3]", "[]", `"abc"`, `""`, "(list 1 2 3)", "(hash a: 1 b: 2)", "(hash)", "nil", "5", "(raw \"xyz\")"}
	idxs := []string{"-4", "-3", "-1", "0", "1", "2", "3", "99", "1.5", `"k"`, "a:", "nil", "[0]", "9223372036854775807", "-9223372036854775808", hugeSize}
	for _, ix := range idxs {
		// the size of an array type, of an array, of a channel
		add("index", "eval", fmt.Sprintf("([%s] int64)\n", ix))
		add("index", "eval", fmt.Sprintf("(def t ([%s] string))\n(var v t)\n(str v)\n", ix))
		add("index", "eval", fmt.Sprintf("(len (makeArray %s))\n(len (makeArray %s 0))\n", ix, ix))
		add("index", "eval", fmt.Sprintf("(def ch (makeChan %s))\n(str ch)\n", ix))
	}
	for ci, ct := range conts {
		for ii, ix := range idxs {
			forms := []string{
				fmt.Sprintf("(def a %s)\n{a[%s]}\n", ct, ix),
				fmt.Sprintf("(def a %s)\n{a[%s] = 9}\n(len a)\n", ct, ix),
				fmt.Sprintf("(def a %s)\n(set (arrayidx a [%s]) 9)\n", ct, ix),
				fmt.Sprintf("(def a %s)\n{a[%s:2]}\n{a[0:%s]}\n", ct, ix, ix),
				fmt.Sprintf("(def a %s)\n(aget a %s)\n(aset a %s 7)\n", ct, ix, ix),
				fmt.Sprintf("(def a %s)\n(hpair a %s)\n(slice a %s 2)\n(first a)\n(rest a)\n", ct, ix, ix),
				fmt.Sprintf("(def a %s)\n(defn wr [i] (set (arrayidx a [i]) 9))\n(wr %s)\n(+ 1 2)\n", ct, ix),
				fmt.Sprintf("(def a %s)\n(defn wi [i] {a[i] = 9})\n(wi %s)\n(+ 1 2)\n", ct, ix),
				fmt.Sprintf("(def a %s)\n(hset a %s 1)\n(hget a %s)\n(hdel a %s)\n", ct, ix, ix, ix),
			}
			for fi, f := range forms {
				if c.thorough() || hashSel(c.seed, ci*1000+ii*20+fi, 1, 2) {
					add("index", "eval", f)
				}
			}
		}
	}
	// (2d) a name bound to a value of one kind and then bound again to a value of another kind,
	// in the global scope, in a function, in a let, through def and through set
	redefs := append(append([]string{}, valuePalette...), "(struct RdS [(field A: int64)])", "(defmap rdm)", "(rdm a: 1)", "(package \"rdp\" { A := 1 })", "(raw \"x\")", "12345678901234567890ULL", "'c'", "(now)", "(* 1 1.5)", "(field a.b: int64)", "(makeChan 1)", "int64", "(regexpCompile \"a\")")
	nplain := len(redefs)
	for _, v := range redefs[:nplain] {
		// a container that holds a value of each kind (an array takes its type from its first element)
		redefs = append(redefs, "["+v+"]", "[1 "+v+"]", "(list "+v+")", "(hash k: "+v+")")
	}
	for i, a := range redefs {
		for j, b := range redefs {
			if i == j || !(c.thorough() || hashSel(c.seed, i*1000+j, 1, 2)) {
				continue
			}
			if (i >= nplain || j >= nplain) && !(c.thorough() || hashSel(c.seed, i*1000+j, 1, 5) || j < 2) {
				continue
			}
			add("redef", "seq", fmt.Sprintf("(def y %s)\n", a), fmt.Sprintf("(def y %s)\n", b), "(str y)\n")
			switch (i + j) % 4 {
			case 0:
				add("redef", "eval", fmt.Sprintf("(defn w [] (def y %s) (def y %s) y)\n(w)\n(+ 1 2)\n", a, b))
			case 1:
				add("redef", "eval", fmt.Sprintf("(let [y %s] (def y %s) y)\n(+ 1 2)\n", a, b))
			case 2:
				add("redef", "eval", fmt.Sprintf("(def y %s)\n(set y %s)\n(str y)\n", a, b))
			default:
				add("redef", "eval", fmt.Sprintf("(def y %s)\n{y = %s}\n(for [(def y %s) false (def y %s)] 1)\n", a, b, a, b))
			}
		}
	}
	// (2c) every form of the surface-language catalogue as a statement that is not the last of a body,
	// in a function called as an argument of another call, in a let, in a loop, in a closure called twice
	for fi, f0 := range sessionCatalogue {
		f := asText(inst(f0, 900000+fi))
		wraps := []string{
			"(defn cw%d [] %s 5)\n(+ 100 (cw%d))\n(list (cw%d) (cw%d))\n",
			"(def r%d (let [z 1] %s z))\n(+ 1 2)\n",
			"(for [(def i 0) (< i 2) (def i (+ i 1))] %s i)\n(+ 1 2)\n",
			"(def k%d (fn [] %s nil))\n(list (k%d) (k%d))\n(str (k%d))\n",
			"(cond %s 1 2)\n(and %s %s)\n",
		}
		for wi, wr := range wraps {
			if c.thorough() || hashSel(c.seed, fi*10+wi, 1, 2) {
				t := strings.ReplaceAll(strings.ReplaceAll(wr, "%s", f), "%d", fmt.Sprint(910000+fi))
				add("stmt", "eval", t)
			}
		}
	}
	// (3) all strings over a token alphabet up to length 3 (thorough: 4 sampled)
	toks := []string{"(", ")", "[", "]", "{", "}", "\"", "`", "'", "\\", "a", "1", "-", ":", ".", "/", "*", ";", " ", "\n",
		"~", "~@", "^", "#", "$", "%", "&", "=", ":=", "->", "//", "/*", "*/", ",", "a:", "1.5e", "0x", "'c'", "\"s\"", "and"}
	for i, a := range toks {
		add("tokens", "parse", a)
		for j, b := range toks {
			add("tokens", entries[(i+j)%3], a+b)
			for k, cc := range toks {
				if c.thorough() || hashSel(c.seed, i*1600+j*40+k, 1, 2) {
					add("tokens", entries[(i+j+k)%3], a+b+cc)
				}
				if c.thorough() && hashSel(c.seed, i*1600+j*40+k, 1, 6) {
					add("tokens", "parse", a+b+cc+toks[(i*7+j*3+k)%len(toks)])
				}
			}
		}
	}
	// (4) two calls on one interpreter: residue of a failed call
	r := newRng(c.seed, 99)
	nseq := 3000
	if c.thorough() {
		nseq = 40000
	}
	for i := 0; i < nseq; i++ {
		mk := func() string {
			switch r.intn(4) {
			case 0:
				return fmt.Sprintf("(%s %s %s)\n", pick(r, specialForms), pick(r, argShapes), pick(r, argShapes))
			case 1:
				return fmt.Sprintf("(%s %s)\n", pick(r, uni), pick(r, valuePalette[:len(valuePalette)-1]))
			case 2:
				return pick(r, toks) + pick(r, toks) + pick(r, toks)
			}
			return fmt.Sprintf("(%s %s %s)\n", pick(r, uni), pick(r, valuePalette[:len(valuePalette)-1]), pick(r, valuePalette[:len(valuePalette)-1]))
		}
		add("seq", "seq", mk(), mk(), "(+ 1 2)\n")
	}
	// (5) mutation of the script corpus
	files, _ := filepath.Glob("/repo/tests/*.zy")
	sort.Strings(files)
	nmut := 4
	if c.thorough() {
		nmut = 60
	}
	for fi, f := range files {
		b, err := os.ReadFile(f)
		if err != nil {
			continue
		}
		src := string(b)
		if strings.Contains(src, "system") || strings.Contains(src, "source") || strings.Contains(src, "slurp") || strings.Contains(src, "owrite") ||
			strings.Contains(src, "import") || strings.Contains(src, "chan") || strings.Contains(src, "save") || strings.Contains(src, "sleep") || strings.Contains(src, "include") {
			continue
		}
		for m := 0; m < nmut; m++ {
			rr := newRng(c.seed, uint64(fi*1000+m))
			add("corpus", "eval", mutate(src, rr))
		}
	}
	// (6) values that contain themselves. aset, hset and the infix assignment accept the container itself as the
	// element; every callable name is applied to such a value, every special form is given one, and the value meets
	// the routes on which the interpreter renders, types or compares values without being asked to: a second
	// definition of a name, the creation of a closure in a scope that holds it, the echo of the REPL.
	cyc := []string{
		"(def cy [1])\n(aset cy 0 cy)\n",
		"(def cy (hash))\n(hset cy %k cy)\n",
		"(def cy [1 2])\n(def cz [cy])\n(aset cy 1 cz)\n",
		"(def cy (hash a: 1))\n(hset cy b: [cy 2])\n",
		"{ cy = [1 2 3]; cy[0] = cy }\n",
	}
	for ui, name := range uni {
		calls := []string{"(%s cy)", "(%s cy cy)", "(%s 1 cy)", "(%s cy 1)", "(%s (quote k) cy)", "(%s cy 0 cy)"}
		for ki, call := range calls {
			for si, pre := range cyc {
				if c.thorough() || (ui+ki)%len(cyc) == si && (ki < 2 || hashSel(c.seed, ui*10+ki, 1, 3)) {
					add("cyclic", "seq", pre, strings.ReplaceAll(call, "%s", name)+"\n", "(+ 1 2)\n")
				}
			}
		}
	}
	cycRoutes := []string{
		"(def cb [cy])\n(def cb [3])\n", "(def cy 2)\n", "(set cy 2)\n", "{cy = 2}\n", "(def cb cy)\n(set cb (hash))\n",
		"(defn g [] (def h2 cy) (fn [] 1))\n(g)\n", "(let [z cy] (fn [] 1))\n", "(defn g [z] (fn [] z))\n(def k (g cy))\n(k)\n",
		"(defn g [z] z)\n(g cy)\n(g z: cy)\n", "(func tg [a:int64] [] a)\n(tg cy)\n", "(var vv int64)\n(set vv cy)\n",
		"(eval cy)\n", "(eval (list (quote str) cy))\n", "(defmac cm [] cy)\n(cm)\n", "(defmac cm [] (list (quote list) cy))\n(cm)\n",
		"(macexpand cy)\n", "^(1 ~cy)\n", "^(1 ~@cy)\n", "(quote cy)\n", "[cy cy]\n", "(list cy cy)\n", "{cy}\n", "{cy[0]}\n", "{cy[0][0]}\n", "cy.a\n",
		"(hset (hash) cy 1)\n", "(hset (hash) [cy] 1)\n", "(def hh (hash))\n(hset hh 1 cy)\n(hget hh 1)\n(hdel hh 1)\n(keys hh)\n",
		"(hash cy 1)\n", "(struct CyS [(field a: int64)])\n(CyS a: cy)\n", "(defmap cyd)\n(cyd a: cy)\n", "(assert (== cy 1))\n",
		"(range k v cy (str k))\n", "(for [(def i 0) (< i 2) (def i (+ i 1))] cy)\n", "(cond cy cy cy)\n", "(and cy cy)\n", "(mdef a b cy)\n",
		"(-> cy a:)\n", "(sort (fn [a b] (< a b)) [cy cy])\n", "(map (fn [x] x) cy)\n", "(apply str cy)\n", "(foo cy)\n", "(cy cy)\n", "(1 cy)\n",
		"(package \"cyp\" { A := cy })\n", "(return cy)\n", "(stop cy)\n",
	}
	for ri, route := range cycRoutes {
		for si, pre := range cyc {
			if c.thorough() || si < 2 || (ri+si)%3 == 0 {
				add("cyclic", "seq", pre, route, "(+ 1 2)\n")
			}
		}
	}
	for fi, f := range specialForms {
		for si, pre := range cyc {
			if c.thorough() || fi%len(cyc) == si {
				add("cyclic", "seq", pre, fmt.Sprintf("(%s cy)\n", f), fmt.Sprintf("(%s cy cy)\n", f), fmt.Sprintf("(%s x cy)\n", f))
			}
		}
	}
	// (7) texts whose nesting is as deep as they are long, and flat texts that are long: one bracket or prefix
	// kind repeated, closed and left open; as program text through every entry point, and as a string made by the
	// script (doubling) and handed to the reader
	const deepN = 200000
	opens := []struct{ open, close string }{{"(", ")"}, {"[", "]"}, {"{", "}"}, {"'", ""}, {"^", ""}, {"~", ""}, {"~@", ""}, {"(quote ", ")"}, {"(a ", ")"}, {"[1 ", "]"}, {"{a = ", "}"}, {"(fn [] ", ")"}, {"([{", "}])"}, {"(list 1 ", ")"}, {"{1 + ", "}"}, {"(- ", ")"}, {"a:", ""}, {"a.", ""}, {"- ", ""}, {"(quote (1 \\ ", "))"}}
	for oi, o := range opens {
		n := deepN / max(1, len(o.open)/2)
		body := rep(o.open, n)
		closed := body + "1" + rep(o.close, n) + "\n"
		open := body + "\n"
		addx("deep", entries[oi%3], "sandbox", none, closed)
		addx("deep", entries[(oi+1)%3], "sandbox", none, open, "(+ 1 2)\n")
		if c.thorough() {
			addx("deep", entries[(oi+2)%3], "sandbox", none, "(quote "+closed+")\n")
			addx("deep", "macexpand", "sandbox", none, strings.TrimSpace(closed))
			addx("deep", "repl", "sandbox", none, closed)
		}
	}
	addx("deep", "repl", "sandbox", none, rep("(", deepN)+rep(")", deepN)+"\n(+ 1 2)\n")
	addx("deep", "repl", "sandbox", none, "(+ 1 2)\n"+rep("[", deepN)+"\n")
	for _, o := range []string{"(", "[", "{", "'", "(a ", "{a = "} {
		add("deep", "eval", fmt.Sprintf("(def s %q)\n(for [(def i 0) (< i 19) (set i (+ i 1))] (set s (concat s s)))\n(len s)\n", o), "(read s)\n", "(+ 1 2)\n")
	}
	wide := []string{
		"(list " + rep("1 ", deepN) + ")\n", "[" + rep("1 ", deepN) + "]\n", "{" + rep("1 + ", deepN/20) + "1}\n",
		"(quote (" + rep("a ", deepN) + "))\n", "(+ " + rep("1 ", deepN) + ")\n", rep("1 ", deepN/4) + "\n",
		"\"" + rep("s", 2*deepN) + "\"\n", rep("s", 2*deepN) + "\n", rep("(a)\n", deepN/4), "(hash " + rep("a: 1 ", deepN/4) + ")\n",
		"(a" + rep(".b", deepN/2) + ")\n", rep("9", deepN) + "\n", "{" + rep("a;", deepN/4) + "}\n", "(cond " + rep("false 1 ", deepN/4) + "2)\n",
		"(and " + rep("true ", deepN/4) + ")\n", "(begin " + rep("1 ", deepN/4) + ")\n", "(defn w [] " + rep("1 ", deepN/4) + ")\n(w)\n", "// " + rep("c", 2*deepN) + "\n1\n",
		"/*" + rep("c\n", deepN/40) + "*/ 1\n", "(let [" + rep("a 1 ", deepN/8) + "] a)\n",
	}
	for wi, t := range wide {
		addx("wide", entries[wi%3], "sandbox", none, t, "(+ 1 2)\n")
	}
	// (8) macros whose expansion calls a macro again, without end or to a depth the text decides
	macs := []string{
		"(defmac m [] ^(m))\n(m)\n", "(defmac m [x] ^(m ~x))\n(m 1)\n", "(defmac m [x] ^(m (~x)))\n(m 1)\n", "(defmac p [] ^(q))\n(defmac q [] ^(p))\n(p)\n",
		"(defmac m [] ^(list (m)))\n(m)\n", "(defmac m [] ^(m))\n(defn f [] (m))\n", "(defmac m [] ^(m))\n(macexpand (m))\n", "(defmac m [] ^(let [a 1] (m)))\n(m)\n",
		"(defmac m [] (list (quote m)))\n(m)\n", "(defmac m [& r] ^(m ~@r ~@r))\n(m 1)\n", "(defmac m [] ^(fn [] (m)))\n(m)\n", "(defmac m [] ^[(m)])\n(m)\n", "(defmac m [] ^{(m)})\n(m)\n",
		"(defmac m [] ^(eval (quote (m))))\n(m)\n", "(defn r [] (eval (quote (r))))\n(r)\n", "(defn r [x] (+ 1 (r x)))\n(r 1)\n", "(defn r [] (apply r []))\n(r)\n", "(defn r [x] (map r [x]))\n(r 1)\n",
	}
	for mi, t := range macs {
		addx("macrec", entries[mi%2], "sandbox", none, t, "(+ 1 2)\n")
		cases[len(cases)-1].Unb = true
	}
	// (9) channels: a program with one thread of control that makes a channel nobody else can reach and sends
	// and receives on it; the generator states the capacity and the operations
	for capy := 0; capy <= 2; capy++ {
		for _, ops := range [][]string{{"recv"}, {"send"}, {"send", "recv"}, {"send", "send"}, {"send", "send", "recv", "recv"}, {"send", "recv", "recv"}, {"send", "send", "send"}} {
			if !c.thorough() && capy == 2 && len(ops) == 1 {
				continue
			}
			t := fmt.Sprintf("(def ch (makeChan %d))\n", capy)
			var po []any
			for i, op := range ops {
				po = append(po, op)
				if op == "send" {
					t += fmt.Sprintf("(send ch %d)\n", i)
				} else {
					t += "(<! ch)\n"
				}
			}
			addx("chan", "eval", "sandbox", []any{"chan", capy, po}, t)
		}
	}
	addx("chan", "eval", "sandbox", []any{"chan", 0, []any{"recv"}}, "(<! (makeChan))\n")
	addx("chan", "eval", "sandbox", []any{"chan", 0, []any{"send"}}, "(send (makeChan) 1)\n")
	// (10) the REPL: a session of lines of one kind, ended by the end of the input -- between two forms, or inside
	// the form that the last line leaves open
	var lines []string
	for _, f := range specialForms {
		for i, a := range argShapes {
			lines = append(lines, fmt.Sprintf("(%s %s)", f, a), fmt.Sprintf("(%s %s %s)", f, a, argShapes[(i*7+3)%len(argShapes)]))
		}
	}
	for ui, name := range uni {
		if name == "sleep" {
			continue
		}
		a, b := valuePalette[ui%len(valuePalette)], valuePalette[(ui*7+3)%len(valuePalette)]
		lines = append(lines, "("+name+")", fmt.Sprintf("(%s %s)", name, a), fmt.Sprintf("(%s %s %s)", name, a, b), name)
	}
	for _, v := range redefs[:nplain] {
		lines = append(lines, v, "(def rv "+v+")", "rv", "[rv rv]", "(fn [] rv)", "(field a.b: int64)", "(field rv: int64)")
	}
	for _, pre := range cyc {
		lines = append(lines, strings.Split(strings.TrimSpace(pre), "\n")...)
		lines = append(lines, "cy", "[cy]", "(def cb [cy])", "(def cb 1)", "(fn [] cy)", "cy.a", "(& cy)", "(def cy 1)")
	}
	for i, a := range toks {
		for j, b := range toks {
			if isBalancedLine(a + b) {
				lines = append(lines, a+b, a+b+toks[(i+j)%len(toks)])
			}
		}
	}
	var enders []string
	for _, a := range toks {
		enders = append(enders, a)
		for _, b := range toks {
			enders = append(enders, a+b, "(+ 1 "+a+b)
		}
	}
	per := 60
	nsess := (len(lines) + per - 1) / per
	for si := 0; si < nsess; si++ {
		if !(c.thorough() || hashSel(c.seed, si, 1, 2)) {
			continue
		}
		var body []string
		for _, l := range lines[si*per : min(len(lines), (si+1)*per)] {
			if isBalancedLine(l) {
				body = append(body, l)
			}
		}
		cfg := "sandbox"
		if si%5 == 4 {
			cfg = "full"
		}
		addx("repl", "repl", cfg, none, strings.Join(body, "\n")+"\n"+enders[(si*37+int(c.seed))%len(enders)])
	}
	for ei, e := range enders {
		if c.thorough() || hashSel(c.seed, ei, 1, 40) {
			addx("repl", "repl", "sandbox", none, "(+ 1 2)\n"+e)
		}
	}
	return cases
}

// rep(s, n) stands for s repeated n times in the texts of a case; the worker writes it out (expandText) before it
// hands the text to the interpreter, so that the recorded cases stay small.
func rep(s string, n int) string {
	if s == "" || n <= 0 {
		return ""
	}
	return fmt.Sprintf("\x01%d*%s\x02", n, s)
}

func expandText(t string) string {
	for {
		i := strings.IndexByte(t, 1)
		if i < 0 {
			return t
		}
		j := strings.IndexByte(t[i:], 2)
		k := strings.IndexByte(t[i:], '*')
		if j < 0 || k < 0 || k > j {
			return t
		}
		n := 0
		fmt.Sscanf(t[i+1:i+k], "%d", &n)
		t = t[:i] + strings.Repeat(t[i+k+1:i+j], n) + t[i+j+1:]
	}
}

var reLiteral = regexp.MustCompile(`"[^"\\]*"|'[^'\\]'`)

// isBalancedLine: a line that does not leave a form, a string or a comment open, so that the REPL does not take
// the lines after it for its continuation
func isBalancedLine(l string) bool {
	l = reLiteral.ReplaceAllString(l, "s")
	if strings.ContainsAny(l, "\"`'\\") || strings.Contains(l, "/*") || strings.Contains(l, "//") || strings.Contains(l, "\n") {
		return false
	}
	depth := 0
	for _, ch := range l {
		switch ch {
		case '(', '[', '{':
			depth++
		case ')', ']', '}':
			depth--
			if depth < 0 {
				return false
			}
		}
	}
	t := strings.TrimSpace(l)
	for _, suf := range []string{"~", "~@", "^", "#", "$", "&", "=", ":=", "->", "-", "+", "*", "/", ".", ":", ","} {
		if strings.HasSuffix(t, suf) {
			return false
		}
	}
	return depth == 0
}

func mutate(s string, r *rng) string {
	b := []byte(s)
	n := 1 + r.intn(3)
	for i := 0; i < n && len(b) > 2; i++ {
		p := r.intn(len(b))
		switch r.intn(6) {
		case 0: // delete a span
			q := p + 1 + r.intn(8)
			if q > len(b) {
				q = len(b)
			}
			b = append(b[:p], b[q:]...)
		case 1: // duplicate a span
			q := p + 1 + r.intn(12)
			if q > len(b) {
				q = len(b)
			}
			b = append(b[:q], append(append([]byte{}, b[p:q]...), b[q:]...)...)
		case 2: // replace by a bracket or quote
			b[p] = "()[]{}\"`'~^:;"[r.intn(13)]
		case 3: // truncate
			b = b[:p]
		case 4: // insert a token
			tok := pick(r, []string{"(", ")", " nil ", " 0 ", "(and)", " & ", " := ", "[", "}", "~@"})
			b = append(b[:p], append([]byte(tok), b[p:]...)...)
		case 5: // swap two bytes
			q := r.intn(len(b))
			b[p], b[q] = b[q], b[p]
		}
	}
	return string(b)
}

// ---- worker protocol

// sources whose cases end the worker process one by one as long as the defect they look for is there: a worker
// that has died costs a new process, so after deathCap deaths in a shard the remaining cases of these sources are
// recorded as not run (and not judged); the other sources are always run
var deadlySrc = map[string]bool{"cyclic": true, "deep": true}

const deathCap = 12
const hungCap = 6

func hungLimitOf(c *crashCase) time.Duration {
	if c.Unb {
		return hungLimit / 2 // long enough for the recursion to reach its bound, or the end of the stack
	}
	if c.Src == "chan" {
		return hungLimit * 2 / 5 // a handful of evaluation steps (8 s; longer when a rejection is confirmed)
	}
	if c.Src == "deep" || c.Src == "wide" {
		return 2 * hungLimit // hundreds of thousands of tokens, on a machine that may be busy
	}
	return hungLimit
}

func crashWorker(in string, from int, out string, skipDeadly bool) int {
	var cases []crashCase
	readLines(in, func(line []byte) {
		var c crashCase
		if json.Unmarshal(line, &c) == nil {
			cases = append(cases, c)
		}
	})
	f, err := os.OpenFile(out, os.O_APPEND|os.O_CREATE|os.O_WRONLY, 0644)
	if err != nil {
		return 2
	}
	defer f.Close()
	old := os.Stdout
	devnull, _ := os.OpenFile(os.DevNull, os.O_WRONLY, 0)
	os.Stdout = devnull
	defer func() { os.Stdout = old }()
	for i := from; i < len(cases); i++ {
		c := cases[i]
		if skipDeadly && deadlySrc[c.Src] {
			c.Outs = []any{[]any{"notrun"}}
			b, _ := json.Marshal(c)
			f.Write(append(b, '\n'))
			continue
		}
		setStackFor(c.Src)
		grace := time.Duration(0)
		if c.Entry == "repl" {
			grace = 5 * time.Second // the REPL's process has the time limit, and is waited for
		}
		done := make(chan struct{})
		go func() {
			runCrashCase(&c)
			close(done)
		}()
		select {
		case <-done:
		case <-time.After(hungLimitOf(&c) + grace):
			h := c
			h.Outs = append(append([]any{}, c.Outs...), []any{"hung"})
			b, _ := json.Marshal(h)
			f.Write(append(b, '\n'))
			if c.Unb {
				return 98 // as 97, but nothing went wrong
			}
			return 97 // the goroutine cannot be stopped: restart the worker after this case
		}
		b, _ := json.Marshal(c)
		f.Write(append(b, '\n'))
	}
	return 0
}

func countLines(path string) int {
	f, err := os.Open(path)
	if err != nil {
		return 0
	}
	defer f.Close()
	n := 0
	sc := bufio.NewScanner(f)
	sc.Buffer(make([]byte, 1<<20), 1<<26)
	for sc.Scan() {
		n++
	}
	return n
}

func init() {
	register("crash", "C01: no input can crash the host (entry points x malformed inputs)", func(args []string) int {
		var worker, replchild, skipDeadly, list, lowStack bool
		var from int
		var cfg string
		c := commonFlags("crash", args, func(fs *flag.FlagSet) {
			fs.BoolVar(&worker, "worker", false, "internal: run cases of -in from index -from, append results to -out")
			fs.BoolVar(&replchild, "replchild", false, "internal: run zygo.Repl on the standard input")
			fs.BoolVar(&skipDeadly, "skipdeadly", false, "internal: record the cases of the sources that end the worker as not run")
			fs.BoolVar(&lowStack, "lowstack", false, "internal: -replchild with the lowered stack bound")
			fs.BoolVar(&list, "list", false, "debug aid: print the generated cases instead of running them")
			fs.StringVar(&cfg, "cfg", "sandbox", "internal: interpreter configuration of -replchild")
			fs.IntVar(&from, "from", 0, "internal")
		})
		if replchild {
			return replChildMain(cfg, lowStack)
		}
		if worker {
			return crashWorker(c.in, from, c.out, skipDeadly)
		}
		var mine []crashCase
		if c.replay != "" {
			readLines(c.replay, func(line []byte) {
				var in crashCase
				if json.Unmarshal(line, &in) == nil {
					in.Outs = nil
					mine = append(mine, in)
				}
			})
		} else {
			for i, cc := range crashCases(c) {
				if c.mine(i) {
					mine = append(mine, cc)
				}
			}
		}
		if list {
			w := newWriter(c.out)
			for _, cc := range mine {
				w.write(cc)
			}
			w.close()
			return 0
		}
		tmp, err := os.MkdirTemp("", "zvcrash")
		if err != nil {
			fatal("%v", err)
		}
		defer os.RemoveAll(tmp)
		inFile := filepath.Join(tmp, "in.ndjson")
		w := newWriter(inFile)
		for _, cc := range mine {
			w.write(cc)
		}
		w.close()
		outFile, _ := filepath.Abs(c.out)
		os.Remove(outFile)
		os.WriteFile(outFile, nil, 0644)
		self, _ := os.Executable()
		work := filepath.Join(tmp, "cwd")
		os.Mkdir(work, 0755)
		pos := 0
		hung, deaths := 0, 0
		for pos < len(mine) {
			if hung >= hungCap {
				// every hung case costs the worker's full time limit: enough of them are recorded, the rest
				// of this shard is written as not run (and not judged)
				f, _ := os.OpenFile(outFile, os.O_APPEND|os.O_WRONLY, 0644)
				for _, cc := range mine[pos:] {
					cc.Outs = []any{[]any{"notrun"}}
					bs, _ := json.Marshal(cc)
					f.Write(append(bs, '\n'))
				}
				f.Close()
				break
			}
			wargs := []string{"crash", "-worker", "-in", inFile, "-from", fmt.Sprint(pos), "-out", outFile}
			if deaths >= deathCap && c.replay == "" {
				wargs = append(wargs, "-skipdeadly")
			}
			cmd := exec.Command(self, wargs...)
			cmd.Dir = work
			cmd.Env = append(os.Environ(), "HOME="+work, "TMPDIR="+tmp, "GOMAXPROCS=2")
			var stderr bytes.Buffer
			cmd.Stderr = &stderr
			err := cmd.Run()
			done := countLines(outFile)
			if cmd.ProcessState != nil && cmd.ProcessState.ExitCode() == 97 && !strings.Contains(stderr.String(), "goroutine ") {
				hung++
			}
			if err == nil && done >= len(mine) {
				break
			}
			if done < len(mine) && (err == nil || cmd.ProcessState == nil || (cmd.ProcessState.ExitCode() != 97 && cmd.ProcessState.ExitCode() != 98) || strings.Contains(stderr.String(), "goroutine ")) {
				// the worker ended while running case `done`: that is the observation
				cc := mine[done]
				cc.Outs = append(cc.Outs, endOfProcess(cmd.ProcessState, stderr.String()))
				f, _ := os.OpenFile(outFile, os.O_APPEND|os.O_WRONLY, 0644)
				b, _ := json.Marshal(cc)
				f.Write(append(b, '\n'))
				f.Close()
				done++
				deaths++
			}
			if done <= pos {
				done = pos + 1
			}
			pos = done
		}
		return 0
	})
}
