package main

// Family "crash" (C01): every script-facing entry point must return a value or
// an error to the Go caller for any text. Cases are executed in worker
// subprocesses (a worker that dies is an observation, not a harness failure).

import (
	"bufio"
	"bytes"
	"encoding/json"
	"flag"
	"fmt"
	"os"
	"os/exec"
	"path/filepath"
	"sort"
	"strings"
	"time"

	zygo "github.com/glycerine/zygomys/v9/zygo"
)

type crashCase struct {
	ID    string   `json:"id"`
	Src   string   `json:"src"`   // which enumeration produced it
	Entry string   `json:"entry"` // eval | loadrun | parse | macexpand | seq
	Texts []string `json:"texts"`
	Outs  []any    `json:"outs,omitempty"` // one outcome per text: ["val"] ["err"] ["more"] ["panic",msg] ["nilres"] ["budget"] ["died",msg]
}

var specialForms = []string{"and", "or", "cond", "quote", "def", "mdef", "fn", "defn", "begin", "let", "letseq", "assert",
	"defmac", "macexpand", "syntaxQuote", "for", "set", "break", "continue", "newScope", "package", "return",
	"infix", "struct", "func", "method", "interface", "var", "range", "defmap", "++", "+="}

var argShapes = []string{"x", "1", `"s"`, "nil", "(list 1)", "()", "[1 2]", "[]", "{a: 1}", "a.b", "(quote q)", "(and)", "(fn [a] a)", "a:", "%"}

var valuePalette = []string{"0", "1", "-1", `"s"`, `""`, "nil", "true", "[]", "[1 2]", "(list 1 2)", "(hash a: 1)", "(quote q)", "1.5", "'c'", "(fn [a] a)"}

func crashEnv() *zygo.Zlisp {
	env := zygo.NewZlispSandbox()
	env.StandardSetup()
	return env
}

// names callable in the interpreter used by the in-process entry points
func crashUniverse() []string {
	env := crashEnv()
	skip := map[string]bool{"exit": true, "sys": true, "system": true, "sleep": true, "readf": true, "slurpf": true,
		"source": true, "req": true, "import": true, "owritef": true, "writef": true, "save": true, "bsave": true, "bload": true,
		"greenpack": true, "input": true, "repl": true, "stdin": true, "timeit": true, "go": true, "<!": true, "!>": true, "send": true,
		"makeChan": true, "chdir": true, "removefile": true, "mkdir": true, "togo": false}
	var out []string
	for _, n := range env.VerifGlobalNames() {
		k := env.VerifGlobalKind(n)
		if (k == "gofunc" || k == "builder" || k == "closure") && !skip[n] {
			out = append(out, n)
		}
	}
	for _, n := range env.VerifMacroNames() {
		if !skip[n] {
			out = append(out, n)
		}
	}
	sort.Strings(out)
	return out
}

func outcomeOf(fn func() (zygo.Sexp, error)) (o any) {
	zygo.VerifSetBudget(200000)
	defer zygo.VerifSetBudget(-1)
	defer func() {
		if r := recover(); r != nil {
			o = []any{"panic", trunc(fmt.Sprint(r), 200)}
		}
	}()
	v, err := fn()
	if err != nil {
		msg := err.Error()
		switch {
		case strings.Contains(msg, "verif: step budget"):
			return []any{"budget"}
		case err == zygo.ErrMoreInputNeeded || strings.Contains(msg, "parser needs more input"):
			return []any{"more"}
		}
		return []any{"err"}
	}
	if v == nil {
		return []any{"nilres"}
	}
	return []any{"val"}
}

func runCrashCase(c *crashCase) {
	env := crashEnv()
	defer env.Close()
	c.Outs = nil
	for _, t := range c.Texts {
		var o any
		switch c.Entry {
		case "eval", "seq":
			o = outcomeOf(func() (zygo.Sexp, error) { return env.EvalString(t) })
		case "loadrun":
			o = outcomeOf(func() (zygo.Sexp, error) {
				if err := env.LoadString(t); err != nil {
					return zygo.SexpNull, err
				}
				return env.Run()
			})
		case "parse":
			o = outcomeOf(func() (zygo.Sexp, error) {
				p := env.VerifParser()
				p.ResetAddNewInput(bytes.NewBufferString(t))
				xs, err := p.ParseTokens()
				if err != nil {
					return zygo.SexpNull, err
				}
				if xs == nil {
					return zygo.SexpNull, nil
				}
				return env.EvalExpressions(xs)
			})
		case "macexpand":
			o = outcomeOf(func() (zygo.Sexp, error) { return env.EvalString("(macexpand " + t + ")\n") })
		}
		c.Outs = append(c.Outs, o)
	}
}

// ---- case generation

func crashCases(c *common) []crashCase {
	var cases []crashCase
	add := func(src, entry string, texts ...string) {
		cases = append(cases, crashCase{ID: fmt.Sprintf("c%d", len(cases)), Src: src, Entry: entry, Texts: texts})
	}
	entries := []string{"eval", "loadrun", "parse", "macexpand"}
	// (1) every special form x arity 0..3 x argument shapes (arity 3: shapes sampled)
	for _, f := range specialForms {
		add("form", "eval", "("+f+")\n")
		add("form", "macexpand", "("+f+")")
		for i, a := range argShapes {
			add("form", entries[i%2], fmt.Sprintf("(%s %s)\n", f, a))
			for j, b := range argShapes {
				add("form", entries[(i+j)%4], fmt.Sprintf("(%s %s %s)\n", f, a, b))
				for k, cc := range argShapes {
					if c.thorough() || hashSel(c.seed, i*400+j*20+k, 1, 12) {
						add("form", "eval", fmt.Sprintf("(%s %s %s %s)\n", f, a, b, cc))
					}
				}
			}
		}
	}
	// (2) every callable name x arity 0..3 x value palette
	uni := crashUniverse()
	for ui, name := range uni {
		add("builtin", "eval", "("+name+")\n")
		for i, a := range valuePalette {
			add("builtin", "eval", fmt.Sprintf("(%s %s)\n", name, a))
			for j, b := range valuePalette {
				if c.thorough() || hashSel(c.seed, ui*1000+i*20+j, 1, 3) {
					add("builtin", "eval", fmt.Sprintf("(%s %s %s)\n", name, a, b))
				}
				if c.thorough() && hashSel(c.seed, ui*1000+i*20+j, 1, 8) {
					add("builtin", "eval", fmt.Sprintf("(%s %s %s %s)\n", name, a, b, valuePalette[(i+j)%len(valuePalette)]))
				}
			}
		}
		// used as a value / in infix / as an index target
		add("builtin", "eval", fmt.Sprintf("{%s}\n", name))
		add("builtin", "eval", fmt.Sprintf("{a := [1 2]; a[%s]}\n", name))
		add("builtin", "eval", fmt.Sprintf("(map %s [1 2])\n", name))
		add("builtin", "eval", fmt.Sprintf("(apply %s [1 2])\n", name))
	}
	// (2b) index / slice / positional forms x boundary indices x containers, reads and writes,
	// at top level and inside a function (a panic in an instruction is not under a builtin's recover)
	conts := []string{"[1 2 3]", "[]", `"abc"`, `""`, "(list 1 2 3)", "(hash a: 1 b: 2)", "(hash)", "nil", "5", "(raw \"xyz\")"}
	idxs := []string{"-4", "-3", "-1", "0", "1", "2", "3", "99", "1.5", `"k"`, "a:", "nil", "[0]", "9223372036854775807", "-9223372036854775808"}
	for ci, ct := range conts {
		for ii, ix := range idxs {
			forms := []string{
				fmt.Sprintf("(def a %s)\n{a[%s]}\n", ct, ix),
				fmt.Sprintf("(def a %s)\n{a[%s] = 9}\n(len a)\n", ct, ix),
				fmt.Sprintf("(def a %s)\n(set (arrayidx a [%s]) 9)\n", ct, ix),
				fmt.Sprintf("(def a %s)\n{a[%s:2]}\n{a[0:%s]}\n", ct, ix, ix),
				fmt.Sprintf("(def a %s)\n(aget a %s)\n(aset a %s 7)\n", ct, ix, ix),
				fmt.Sprintf("(def a %s)\n(hpair a %s)\n(slice a %s 2)\n(first a)\n(rest a)\n", ct, ix, ix),
				fmt.Sprintf("(def a %s)\n(defn wr [i] (set (arrayidx a [i]) 9))\n(wr %s)\n(+ 1 2)\n", ct, ix),
				fmt.Sprintf("(def a %s)\n(defn wi [i] {a[i] = 9})\n(wi %s)\n(+ 1 2)\n", ct, ix),
				fmt.Sprintf("(def a %s)\n(hset a %s 1)\n(hget a %s)\n(hdel a %s)\n", ct, ix, ix, ix),
			}
			for fi, f := range forms {
				if c.thorough() || hashSel(c.seed, ci*1000+ii*20+fi, 1, 2) {
					add("index", "eval", f)
				}
			}
		}
	}
	// (2d) a name bound to a value of one kind and then bound again to a value of another kind,
	// in the global scope, in a function, in a let, through def and through set
	redefs := append(append([]string{}, valuePalette...), "(struct RdS [(field A: int64)])", "(defmap rdm)", "(rdm a: 1)", "(package \"rdp\" { A := 1 })", "(raw \"x\")", "12345678901234567890ULL", "'c'", "(now)", "(* 1 1.5)")
	for i, a := range redefs {
		for j, b := range redefs {
			if i == j || !(c.thorough() || hashSel(c.seed, i*100+j, 1, 2)) {
				continue
			}
			add("redef", "seq", fmt.Sprintf("(def y %s)\n", a), fmt.Sprintf("(def y %s)\n", b), "(str y)\n")
			switch (i + j) % 4 {
			case 0:
				add("redef", "eval", fmt.Sprintf("(defn w [] (def y %s) (def y %s) y)\n(w)\n(+ 1 2)\n", a, b))
			case 1:
				add("redef", "eval", fmt.Sprintf("(let [y %s] (def y %s) y)\n(+ 1 2)\n", a, b))
			case 2:
				add("redef", "eval", fmt.Sprintf("(def y %s)\n(set y %s)\n(str y)\n", a, b))
			default:
				add("redef", "eval", fmt.Sprintf("(def y %s)\n{y = %s}\n(for [(def y %s) false (def y %s)] 1)\n", a, b, a, b))
			}
		}
	}
	// (2c) every form of the surface-language catalogue as a statement that is not the last of a body,
	// in a function called as an argument of another call, in a let, in a loop, in a closure called twice
	for fi, f0 := range sessionCatalogue {
		f := asText(inst(f0, 900000+fi))
		wraps := []string{
			"(defn cw%d [] %s 5)\n(+ 100 (cw%d))\n(list (cw%d) (cw%d))\n",
			"(def r%d (let [z 1] %s z))\n(+ 1 2)\n",
			"(for [(def i 0) (< i 2) (def i (+ i 1))] %s i)\n(+ 1 2)\n",
			"(def k%d (fn [] %s nil))\n(list (k%d) (k%d))\n(str (k%d))\n",
			"(cond %s 1 2)\n(and %s %s)\n",
		}
		for wi, wr := range wraps {
			if c.thorough() || hashSel(c.seed, fi*10+wi, 1, 2) {
				t := strings.ReplaceAll(strings.ReplaceAll(wr, "%s", f), "%d", fmt.Sprint(910000+fi))
				add("stmt", "eval", t)
			}
		}
	}
	// (3) all strings over a token alphabet up to length 3 (thorough: 4 sampled)
	toks := []string{"(", ")", "[", "]", "{", "}", "\"", "`", "'", "\\", "a", "1", "-", ":", ".", "/", "*", ";", " ", "\n",
		"~", "~@", "^", "#", "$", "%", "&", "=", ":=", "->", "//", "/*", "*/", ",", "a:", "1.5e", "0x", "'c'", "\"s\"", "and"}
	for i, a := range toks {
		add("tokens", "parse", a)
		for j, b := range toks {
			add("tokens", entries[(i+j)%3], a+b)
			for k, cc := range toks {
				if c.thorough() || hashSel(c.seed, i*1600+j*40+k, 1, 2) {
					add("tokens", entries[(i+j+k)%3], a+b+cc)
				}
				if c.thorough() && hashSel(c.seed, i*1600+j*40+k, 1, 6) {
					add("tokens", "parse", a+b+cc+toks[(i*7+j*3+k)%len(toks)])
				}
			}
		}
	}
	// (4) two calls on one interpreter: residue of a failed call
	r := newRng(c.seed, 99)
	nseq := 3000
	if c.thorough() {
		nseq = 40000
	}
	for i := 0; i < nseq; i++ {
		mk := func() string {
			switch r.intn(4) {
			case 0:
				return fmt.Sprintf("(%s %s %s)\n", pick(r, specialForms), pick(r, argShapes), pick(r, argShapes))
			case 1:
				return fmt.Sprintf("(%s %s)\n", pick(r, uni), pick(r, valuePalette))
			case 2:
				return pick(r, toks) + pick(r, toks) + pick(r, toks)
			}
			return fmt.Sprintf("(%s %s %s)\n", pick(r, uni), pick(r, valuePalette), pick(r, valuePalette))
		}
		add("seq", "seq", mk(), mk(), "(+ 1 2)\n")
	}
	// (5) mutation of the script corpus
	files, _ := filepath.Glob("/repo/tests/*.zy")
	sort.Strings(files)
	nmut := 4
	if c.thorough() {
		nmut = 60
	}
	for fi, f := range files {
		b, err := os.ReadFile(f)
		if err != nil {
			continue
		}
		src := string(b)
		if strings.Contains(src, "system") || strings.Contains(src, "source") || strings.Contains(src, "slurp") || strings.Contains(src, "owrite") ||
			strings.Contains(src, "import") || strings.Contains(src, "chan") || strings.Contains(src, "save") || strings.Contains(src, "sleep") || strings.Contains(src, "include") {
			continue
		}
		for m := 0; m < nmut; m++ {
			rr := newRng(c.seed, uint64(fi*1000+m))
			add("corpus", "eval", mutate(src, rr))
		}
	}
	return cases
}

func mutate(s string, r *rng) string {
	b := []byte(s)
	n := 1 + r.intn(3)
	for i := 0; i < n && len(b) > 2; i++ {
		p := r.intn(len(b))
		switch r.intn(6) {
		case 0: // delete a span
			q := p + 1 + r.intn(8)
			if q > len(b) {
				q = len(b)
			}
			b = append(b[:p], b[q:]...)
		case 1: // duplicate a span
			q := p + 1 + r.intn(12)
			if q > len(b) {
				q = len(b)
			}
			b = append(b[:q], append(append([]byte{}, b[p:q]...), b[q:]...)...)
		case 2: // replace by a bracket or quote
			b[p] = "()[]{}\"`'~^:;"[r.intn(13)]
		case 3: // truncate
			b = b[:p]
		case 4: // insert a token
			tok := pick(r, []string{"(", ")", " nil ", " 0 ", "(and)", " & ", " := ", "[", "}", "~@"})
			b = append(b[:p], append([]byte(tok), b[p:]...)...)
		case 5: // swap two bytes
			q := r.intn(len(b))
			b[p], b[q] = b[q], b[p]
		}
	}
	return string(b)
}

// ---- worker protocol

func crashWorker(in string, from int, out string) int {
	var cases []crashCase
	readLines(in, func(line []byte) {
		var c crashCase
		if json.Unmarshal(line, &c) == nil {
			cases = append(cases, c)
		}
	})
	f, err := os.OpenFile(out, os.O_APPEND|os.O_CREATE|os.O_WRONLY, 0644)
	if err != nil {
		return 2
	}
	defer f.Close()
	old := os.Stdout
	devnull, _ := os.OpenFile(os.DevNull, os.O_WRONLY, 0)
	os.Stdout = devnull
	defer func() { os.Stdout = old }()
	for i := from; i < len(cases); i++ {
		c := cases[i]
		done := make(chan struct{})
		go func() {
			runCrashCase(&c)
			close(done)
		}()
		select {
		case <-done:
		case <-time.After(20 * time.Second):
			c.Outs = append(c.Outs, []any{"hung"})
			b, _ := json.Marshal(c)
			f.Write(append(b, '\n'))
			return 3 // the goroutine cannot be stopped: restart the worker after this case
		}
		b, _ := json.Marshal(c)
		f.Write(append(b, '\n'))
	}
	return 0
}

func countLines(path string) int {
	f, err := os.Open(path)
	if err != nil {
		return 0
	}
	defer f.Close()
	n := 0
	sc := bufio.NewScanner(f)
	sc.Buffer(make([]byte, 1<<20), 1<<26)
	for sc.Scan() {
		n++
	}
	return n
}

func init() {
	register("crash", "C01: no input can crash the host (entry points x malformed inputs)", func(args []string) int {
		var worker bool
		var from int
		c := commonFlags("crash", args, func(fs *flag.FlagSet) {
			fs.BoolVar(&worker, "worker", false, "internal: run cases of -in from index -from, append results to -out")
			fs.IntVar(&from, "from", 0, "internal")
		})
		if worker {
			return crashWorker(c.in, from, c.out)
		}
		var mine []crashCase
		if c.replay != "" {
			readLines(c.replay, func(line []byte) {
				var in crashCase
				if json.Unmarshal(line, &in) == nil {
					in.Outs = nil
					mine = append(mine, in)
				}
			})
		} else {
			for i, cc := range crashCases(c) {
				if c.mine(i) {
					mine = append(mine, cc)
				}
			}
		}
		tmp, err := os.MkdirTemp("", "zvcrash")
		if err != nil {
			fatal("%v", err)
		}
		defer os.RemoveAll(tmp)
		inFile := filepath.Join(tmp, "in.ndjson")
		w := newWriter(inFile)
		for _, cc := range mine {
			w.write(cc)
		}
		w.close()
		outFile := c.out
		os.Remove(outFile)
		os.WriteFile(outFile, nil, 0644)
		self, _ := os.Executable()
		pos := 0
		hung := 0
		for pos < len(mine) {
			if hung >= 6 {
				// every hung case costs the worker's full time limit: enough of them are recorded, the rest
				// of this shard is written as not run (and not judged)
				f, _ := os.OpenFile(outFile, os.O_APPEND|os.O_WRONLY, 0644)
				for _, cc := range mine[pos:] {
					cc.Outs = []any{[]any{"notrun"}}
					bs, _ := json.Marshal(cc)
					f.Write(append(bs, '\n'))
				}
				f.Close()
				break
			}
			cmd := exec.Command(self, "crash", "-worker", "-in", inFile, "-from", fmt.Sprint(pos), "-out", outFile)
			cmd.Dir = tmp
			cmd.Env = append(os.Environ(), "HOME="+tmp, "TMPDIR="+tmp)
			var stderr bytes.Buffer
			cmd.Stderr = &stderr
			err := cmd.Run()
			done := countLines(outFile)
			if cmd.ProcessState != nil && cmd.ProcessState.ExitCode() == 3 {
				hung++
			}
			if err == nil && done >= len(mine) {
				break
			}
			if done < len(mine) && (err == nil || cmd.ProcessState == nil || cmd.ProcessState.ExitCode() != 3) {
				// the worker died while running case `done`: that is the observation
				cc := mine[done]
				msg := trunc(stderr.String(), 400)
				if cmd.ProcessState != nil {
					msg = fmt.Sprintf("exit=%d %s", cmd.ProcessState.ExitCode(), msg)
				}
				cc.Outs = append(cc.Outs, []any{"died", msg})
				f, _ := os.OpenFile(outFile, os.O_APPEND|os.O_WRONLY, 0644)
				b, _ := json.Marshal(cc)
				f.Write(append(b, '\n'))
				f.Close()
				done++
			}
			if done <= pos {
				done = pos + 1
			}
			pos = done
		}
		return 0
	})
}
