package main

// Family "codec" (C11): JSON and msgpack encodings round-trip and are
// well-formed.  For every generated data value v the harness records
//   - the abstract original value (projection of the real Sexp handed to the
//     interpreter),
//   - the bytes of (json v) parsed by Go's encoding/json into a token tree
//     (well-formedness is delegated to encoding/json; what the tree DENOTES is
//     decided by spec/Codec.tla),
//   - (unjson (json v)) and (unmsgpack (msgpack v)) projected the same way,
// and, per character class member, the escape form the encoder emitted.
// TLC validates every case against spec/CodecTrace.tla.
//
// This file also holds the helpers shared with family "printread" (C12):
// exact decimal expansions, the code-point projection, the character classes
// and the value recipes.

import (
	"bytes"
	"encoding/json"
	"flag"
	"fmt"
	"io"
	"math"
	"math/big"
	"os"
	"strconv"
	"strings"
	"unicode/utf8"

	zygo "github.com/glycerine/zygomys/v9/zygo"
)

// ---------------------------------------------------------------- exact numbers
//
// A number travels as ["fin"|"inf"|"nan", sgn, digits, exp]: value =
// sgn * 0.d1 d2 ... dn * 10^exp, digits without leading/trailing zeros,
// zero = ["fin",0,[],0].  TLC integers are 32-bit, so 64-bit integers and
// floats are digit sequences; the specification compares them itself.

func digitsOf(s string) []int {
	d := make([]int, 0, len(s))
	for i := 0; i < len(s); i++ {
		d = append(d, int(s[i]-'0'))
	}
	return d
}

// numDec normalises sgn * 0.<digs> * 10^exp.
func numDec(sgn int, digs string, exp int) []any {
	i := 0
	for i < len(digs) && digs[i] == '0' {
		i++
	}
	exp -= i
	digs = digs[i:]
	digs = strings.TrimRight(digs, "0")
	if digs == "" || sgn == 0 {
		return []any{"fin", 0, []int{}, 0}
	}
	return []any{"fin", sgn, digitsOf(digs), exp}
}

// numRat gives the exact decimal expansion of a rational whose denominator is a power of two.
func numRat(r *big.Rat) []any {
	sgn := r.Sign()
	if sgn == 0 {
		return numDec(0, "", 0)
	}
	num := new(big.Int).Abs(r.Num())
	den := r.Denom()
	k := den.BitLen() - 1 // den = 2^k
	if new(big.Int).Lsh(big.NewInt(1), uint(k)).Cmp(den) != 0 {
		fatal("numRat: denominator is not a power of two")
	}
	five := new(big.Int).Exp(big.NewInt(5), big.NewInt(int64(k)), nil)
	n := new(big.Int).Mul(num, five) // value = n / 10^k
	s := n.String()
	return numDec(sgn, s, len(s)-k)
}

func numFloat(f float64) []any {
	switch {
	case math.IsNaN(f):
		return []any{"nan", 0, []int{}, 0}
	case math.IsInf(f, 1):
		return []any{"inf", 1, []int{}, 0}
	case math.IsInf(f, -1):
		return []any{"inf", -1, []int{}, 0}
	}
	r := new(big.Rat)
	r.SetFloat64(f)
	return numRat(r)
}

// intDec gives (sgn, plain decimal digits) of an integer.
func intDec(x *big.Int) (int, []int) {
	if x.Sign() == 0 {
		return 0, []int{}
	}
	return x.Sign(), digitsOf(new(big.Int).Abs(x).String())
}

// numJSONText gives the exact value of a JSON number literal and the float64
// a standard decoder reads it as.
func numJSONText(s string) (exact []any, f64 []any) {
	t := s
	sgn := 1
	if strings.HasPrefix(t, "-") {
		sgn = -1
		t = t[1:]
	}
	e := 0
	if i := strings.IndexAny(t, "eE"); i >= 0 {
		ev, err := strconv.Atoi(t[i+1:])
		if err != nil {
			ev = 1 << 28
			if strings.HasPrefix(t[i+1:], "-") {
				ev = -ev
			}
		}
		e = ev
		t = t[:i]
	}
	ip, fp := t, ""
	if i := strings.IndexByte(t, '.'); i >= 0 {
		ip, fp = t[:i], t[i+1:]
	}
	exact = numDec(sgn, ip+fp, len(ip)+e)
	f, _ := strconv.ParseFloat(s, 64)
	f64 = numFloat(f)
	return
}

// ---------------------------------------------------------------- code points

// cpsOf lists the code points of s; a byte that is not part of a valid UTF-8
// sequence is listed as its negated value.
func cpsOf(s string) []int {
	out := make([]int, 0, len(s))
	for i := 0; i < len(s); {
		r, n := utf8.DecodeRuneInString(s[i:])
		if r == utf8.RuneError && n == 1 {
			out = append(out, -int(s[i]))
		} else {
			out = append(out, int(r))
		}
		i += n
	}
	return out
}

// cproj projects a zygomys value for the codec/printread specifications:
// like proj() in common.go, but every text is a code-point sequence and every
// number a digit sequence.
func cproj(env *zygo.Zlisp, x zygo.Sexp, depth int) any {
	if depth > 12 {
		return []any{"deep"}
	}
	switch v := x.(type) {
	case nil:
		return []any{"gonil"}
	case *zygo.SexpSentinel:
		if v == zygo.SexpNull {
			return []any{"nil"}
		}
		return []any{"marker"}
	case *zygo.SexpInt:
		s, d := intDec(big.NewInt(v.Val))
		return []any{"int", s, d}
	case *zygo.SexpUint64:
		_, d := intDec(new(big.Int).SetUint64(v.Val))
		return []any{"uint", d}
	case *zygo.SexpBool:
		return []any{"bool", v.Val}
	case *zygo.SexpFloat:
		n := numFloat(v.Val)
		return []any{"flt", n[0], n[1], n[2], n[3], v.Scientific}
	case *zygo.SexpChar:
		return []any{"chr", int(v.Val)}
	case *zygo.SexpStr:
		return []any{"str", cpsOf(v.S)}
	case *zygo.SexpSymbol:
		return []any{"sym", cpsOf(v.Name())}
	case *zygo.SexpPair:
		elems := []any{}
		var cur zygo.Sexp = v
		for n := 0; n < 10000; n++ {
			p, ok := cur.(*zygo.SexpPair)
			if !ok {
				break
			}
			elems = append(elems, cproj(env, p.Head, depth+1))
			cur = p.Tail
		}
		if cur != zygo.SexpNull {
			return []any{"dotted", elems, cproj(env, cur, depth+1)}
		}
		return []any{"list", elems}
	case *zygo.SexpArray:
		elems := []any{}
		for _, e := range v.Val {
			elems = append(elems, cproj(env, e, depth+1))
		}
		return []any{"arr", elems}
	case *zygo.SexpHash:
		pairs := []any{}
		for _, k := range v.KeyOrder {
			// exact key lookup (HashGet would walk a dotted symbol key as a path)
			val, err := v.HashGetDefault(nil, k, zygo.SexpEnd)
			if err == nil && val == zygo.SexpEnd {
				err = fmt.Errorf("missing")
			}
			if err != nil {
				pairs = append(pairs, []any{cproj(env, k, depth+1), []any{"missing"}})
				continue
			}
			pairs = append(pairs, []any{cproj(env, k, depth+1), cproj(env, val, depth+1)})
		}
		return []any{"hash", cpsOf(v.TypeName), pairs}
	case *zygo.SexpRaw:
		return []any{"raw", len(v.Val)}
	}
	return []any{"other", fmt.Sprintf("%T", x)}
}

func cprojOutcome(env *zygo.Zlisp, o outcome) any {
	switch o.Kind {
	case "val":
		return cproj(env, o.Val, 0)
	case "err":
		return []any{"err", "error"}
	case "panic":
		return []any{"err", "panic"}
	}
	return []any{"err", o.Kind}
}

// ---------------------------------------------------------------- character classes

// The classes of spec/Codec.tla.  A member's class follows from its code
// point and from strconv.IsPrint (the documented criterion of strconv.Quote).
var codecClasses = []string{"plain", "dquote", "squote", "backslash", "nl", "cr", "tab", "bel", "bs", "ff", "vt",
	"c0", "del", "bmp_np", "bmp_p", "astral_p", "astral_np", "invalid"}

func cdClassOf(cp int) string {
	if cp < 0 {
		return "invalid"
	}
	r := rune(cp)
	switch {
	case r == '"':
		return "dquote"
	case r == '\'':
		return "squote"
	case r == '\\':
		return "backslash"
	case r == '\n':
		return "nl"
	case r == '\r':
		return "cr"
	case r == '\t':
		return "tab"
	case r == 7:
		return "bel"
	case r == 8:
		return "bs"
	case r == 12:
		return "ff"
	case r == 11:
		return "vt"
	case r < 0x20:
		return "c0"
	case r == 0x7f:
		return "del"
	case r < 0x7f:
		return "plain"
	case r >= 0xd800 && r <= 0xdfff, r > 0x10ffff:
		return "invalid"
	case r < 0x10000:
		if strconv.IsPrint(r) {
			return "bmp_p"
		}
		return "bmp_np"
	}
	if strconv.IsPrint(r) {
		return "astral_p"
	}
	return "astral_np"
}

// boundary members of every class (as strings; "invalid" members are byte strings)
var classBoundary = map[string][]string{
	"plain":     {"a", " ", "~", "!", "/", "#", "`", "%", ":", ";", "(", ")", "[", "]", "{", "}", ",", "&", "|", "^", "@", "$", "<", ">", "-", "+", ".", "=", "*", "?", "0", "9", "A", "Z", "_", "z"},
	"dquote":    {"\""},
	"squote":    {"'"},
	"backslash": {"\\"},
	"nl":        {"\n"},
	"cr":        {"\r"},
	"tab":       {"\t"},
	"bel":       {"\a"},
	"bs":        {"\b"},
	"ff":        {"\f"},
	"vt":        {"\v"},
	"c0":        {"\x00", "\x01", "\x06", "\x0e", "\x1b", "\x1f"},
	"del":       {"\x7f"},
	"bmp_np":    {"\u0080", "\u009f", "\u00a0", "\u00ad", "\u0378", "\u2028", "\u2029", "\u200b", "\u202e", "\ue000", "\uf8ff", "\ufeff", "\ufdd0", "\ufffe", "\uffff", "\u3000"},
	"bmp_p":     {"\u00a1", "\u00e9", "\u00ff", "\u0100", "\u03a9", "\u0416", "\u05d0", "\u0301", "\u4e2d", "\ud7a3", "\uff01", "\ufffd", "\u20ac", "\u07ff", "\u0800"},
	"astral_p":  {"\U00010000", "\U0001f600", "\U00020000", "\U0001d11e", "\U0002fa1d"},
	"astral_np": {"\U0010ffff", "\U000e0001", "\U000f0000", "\U0001fffe", "\U00040000", "\U000effff"},
	"invalid":   {"\xff", "\x80", "\xc3", "\xe2\x82", "\xed\xa0\x80", "\xf4\x90\x80\x80", "\xc0\xaf"},
}

// cdRandMember draws a seeded random member of a class.
func cdRandMember(r *rng, cls string) string {
	bs := classBoundary[cls]
	switch cls {
	case "plain":
		for {
			c := rune(0x20 + r.intn(0x5f))
			if cdClassOf(int(c)) == "plain" {
				return string(c)
			}
		}
	case "c0":
		for {
			c := rune(r.intn(0x20))
			if cdClassOf(int(c)) == "c0" {
				return string(c)
			}
		}
	case "bmp_np", "bmp_p":
		for i := 0; i < 2000; i++ {
			c := rune(0x80 + r.intn(0x10000-0x80))
			if cdClassOf(int(c)) == cls {
				return string(c)
			}
		}
	case "astral_p", "astral_np":
		for i := 0; i < 2000; i++ {
			var c rune
			if cls == "astral_p" && r.intn(3) > 0 {
				c = rune(0x10000 + r.intn(0x24000)) // planes 1-3 are densely assigned
			} else {
				c = rune(0x10000 + r.intn(0x100000))
			}
			if cdClassOf(int(c)) == cls {
				return string(c)
			}
		}
	case "invalid":
		if r.intn(2) == 0 {
			return string([]byte{byte(0x80 + r.intn(0x80))})
		}
	}
	return bs[r.intn(len(bs))]
}

// ccOf lists [code point, class] for the distinct code points of the given texts.
func ccOf(texts ...string) []any {
	seen := map[int]bool{}
	out := []any{}
	for _, t := range texts {
		for _, cp := range cpsOf(t) {
			if !seen[cp] {
				seen[cp] = true
				out = append(out, []any{cp, cdClassOf(cp)})
			}
		}
	}
	return out
}

// ccOfProj lists [code point, class] for the distinct code points of every
// text (string, symbol, character, hash key, type name) of a projected value.
func ccOfProj(p any) []any {
	seen := map[int]bool{}
	out := []any{}
	add := func(cp int) {
		if !seen[cp] {
			seen[cp] = true
			out = append(out, []any{cp, cdClassOf(cp)})
		}
	}
	var walk func(x any)
	walk = func(x any) {
		t, ok := x.([]any)
		if !ok || len(t) == 0 {
			return
		}
		tag, _ := t[0].(string)
		switch tag {
		case "str", "sym":
			for _, cp := range t[1].([]int) {
				add(cp)
			}
		case "chr":
			add(t[1].(int))
		case "list", "arr":
			for _, e := range t[1].([]any) {
				walk(e)
			}
		case "hash":
			for _, cp := range t[1].([]int) {
				add(cp)
			}
			for _, kv := range t[2].([]any) {
				pair := kv.([]any)
				walk(pair[0])
				walk(pair[1])
			}
		}
	}
	walk(p)
	return out
}

// lexLiteral splits a quoted literal as printed (Go / JSON / zygomys escape
// syntax) into escape tokens: ["raw",cp] ["rawbyte",b] ["esc",letter]
// ["x2",v] ["u4",v] ["U8",v] ["other",c].  ok=false: not a quoted literal.
func lexLiteral(text string, quote byte) ([]any, bool) {
	if len(text) < 2 || text[0] != quote || text[len(text)-1] != quote {
		return []any{}, false
	}
	s := text[1 : len(text)-1]
	toks := []any{}
	hex := func(n int) (int, bool) {
		if len(s) < n {
			return 0, false
		}
		v, err := strconv.ParseUint(s[:n], 16, 32)
		if err != nil {
			return 0, false
		}
		s = s[n:]
		return int(v), true
	}
	for len(s) > 0 {
		if s[0] == '\\' {
			if len(s) < 2 {
				return toks, false
			}
			c := s[1]
			s = s[2:]
			switch c {
			case 'x':
				v, ok := hex(2)
				if !ok {
					return toks, false
				}
				toks = append(toks, []any{"x2", v})
			case 'u':
				v, ok := hex(4)
				if !ok {
					return toks, false
				}
				toks = append(toks, []any{"u4", v})
			case 'U':
				v, ok := hex(8)
				if !ok {
					return toks, false
				}
				toks = append(toks, []any{"U8", v})
			default:
				if strings.IndexByte("abfnrtv\\'\"/#", c) >= 0 {
					toks = append(toks, []any{"esc", int(c)})
				} else {
					toks = append(toks, []any{"other", int(c)})
				}
			}
			continue
		}
		r, n := utf8.DecodeRuneInString(s)
		if r == utf8.RuneError && n == 1 {
			toks = append(toks, []any{"rawbyte", int(s[0])})
		} else {
			toks = append(toks, []any{"raw", int(r)})
		}
		s = s[n:]
	}
	return toks, true
}

// ---------------------------------------------------------------- JSON token tree

// cdJSONTree parses bytes with encoding/json (well-formedness is delegated to
// it) into ["jnull"] ["jbool",b] ["jnum",exact,f64] ["jstr",cps] ["jarr",[..]]
// ["jobj",[[name cps,tree]..]] (members in document order), or ["jbad",why].
func cdJSONTree(b []byte) any {
	if !utf8.Valid(b) {
		return []any{"jbad", "utf8"}
	}
	if !json.Valid(b) {
		return []any{"jbad", "syntax"}
	}
	dec := json.NewDecoder(bytes.NewReader(b))
	dec.UseNumber()
	t, err := cdJSONValue(dec)
	if err != nil {
		return []any{"jbad", "decode"}
	}
	if _, err := dec.Token(); err != io.EOF {
		return []any{"jbad", "trailing"}
	}
	return t
}

func cdJSONValue(dec *json.Decoder) (any, error) {
	tok, err := dec.Token()
	if err != nil {
		return nil, err
	}
	switch v := tok.(type) {
	case nil:
		return []any{"jnull"}, nil
	case bool:
		return []any{"jbool", v}, nil
	case json.Number:
		ex, f := numJSONText(v.String())
		return []any{"jnum", ex, f}, nil
	case string:
		return []any{"jstr", cpsOf(v)}, nil
	case json.Delim:
		switch v {
		case '[':
			elems := []any{}
			for dec.More() {
				e, err := cdJSONValue(dec)
				if err != nil {
					return nil, err
				}
				elems = append(elems, e)
			}
			if _, err := dec.Token(); err != nil {
				return nil, err
			}
			return []any{"jarr", elems}, nil
		case '{':
			ms := []any{}
			for dec.More() {
				kt, err := dec.Token()
				if err != nil {
					return nil, err
				}
				name, ok := kt.(string)
				if !ok {
					return nil, fmt.Errorf("member name is not a string")
				}
				e, err := cdJSONValue(dec)
				if err != nil {
					return nil, err
				}
				ms = append(ms, []any{cpsOf(name), e})
			}
			if _, err := dec.Token(); err != nil {
				return nil, err
			}
			return []any{"jobj", ms}, nil
		}
	}
	return nil, fmt.Errorf("unexpected token %v", tok)
}

// ---------------------------------------------------------------- value recipes

// gval is a recipe for a data value, built through the Go API so that the
// original does not depend on the reader under test.
type gval struct {
	K    string  `json:"k"` // nil bool int uint flt chr str sym list arr hash expr
	B    bool    `json:"b,omitempty"`
	I    int64   `json:"i,omitempty"`
	U    uint64  `json:"u,omitempty"`
	F    string  `json:"f,omitempty"` // float64 bits, hex
	Sci  bool    `json:"sci,omitempty"`
	R    int32   `json:"r,omitempty"`
	S    []byte  `json:"s,omitempty"` // string contents / symbol name / type name / script text
	Keys []gkey  `json:"keys,omitempty"`
	E    []*gval `json:"e,omitempty"`
}

type gkey struct {
	Str bool   `json:"str,omitempty"`
	Raw bool   `json:"raw,omitempty"` // a symbol made from the name as it is (MakeSymbol), as the JSON decoder does
	N   []byte `json:"n"`
}

func gNil() *gval          { return &gval{K: "nil"} }
func gBool(b bool) *gval   { return &gval{K: "bool", B: b} }
func gInt(i int64) *gval   { return &gval{K: "int", I: i} }
func gUint(u uint64) *gval { return &gval{K: "uint", U: u} }
func gFlt(f float64, sci bool) *gval {
	return &gval{K: "flt", F: strconv.FormatUint(math.Float64bits(f), 16), Sci: sci}
}
func gChr(r rune) *gval     { return &gval{K: "chr", R: int32(r)} }
func gStr(s string) *gval   { return &gval{K: "str", S: []byte(s)} }
func gSym(s string) *gval   { return &gval{K: "sym", S: []byte(s)} }
func gExpr(s string) *gval  { return &gval{K: "expr", S: []byte(s)} }
func gArr(e ...*gval) *gval { return &gval{K: "arr", E: e} }
func gList(e ...*gval) *gval {
	return &gval{K: "list", E: e}
}
func gHash(tn string, keys []gkey, e ...*gval) *gval {
	return &gval{K: "hash", S: []byte(tn), Keys: keys, E: e}
}
func symKeys(names ...string) []gkey {
	ks := []gkey{}
	for _, n := range names {
		ks = append(ks, gkey{N: []byte(n)})
	}
	return ks
}

func (g *gval) float() float64 {
	b, _ := strconv.ParseUint(g.F, 16, 64)
	return math.Float64frombits(b)
}

// texts collects every string/char/key text of the recipe (for the class list).
func (g *gval) texts(acc []string) []string {
	switch g.K {
	case "str", "sym":
		acc = append(acc, string(g.S))
	case "chr":
		acc = append(acc, string(rune(g.R)))
	case "hash":
		for _, k := range g.Keys {
			acc = append(acc, string(k.N))
		}
	}
	for _, e := range g.E {
		acc = e.texts(acc)
	}
	return acc
}

func (g *gval) hasStrKey() bool {
	for _, k := range g.Keys {
		if k.Str {
			return true
		}
	}
	for _, e := range g.E {
		if e.hasStrKey() {
			return true
		}
	}
	return false
}

func (g *gval) hasKind(kinds ...string) bool {
	for _, k := range kinds {
		if g.K == k {
			return true
		}
	}
	for _, e := range g.E {
		if e.hasKind(kinds...) {
			return true
		}
	}
	return false
}

func (g *gval) depth() int {
	d := 0
	for _, e := range g.E {
		if x := e.depth() + 1; x > d {
			d = x
		}
	}
	if len(g.E) == 0 && (g.K == "arr" || g.K == "hash" || g.K == "list") {
		return 1
	}
	return d
}

// build constructs the real value.
func (g *gval) build(env *zygo.Zlisp) (zygo.Sexp, error) {
	switch g.K {
	case "nil":
		return zygo.SexpNull, nil
	case "bool":
		return &zygo.SexpBool{Val: g.B}, nil
	case "int":
		return &zygo.SexpInt{Val: g.I}, nil
	case "uint":
		return &zygo.SexpUint64{Val: g.U}, nil
	case "flt":
		return &zygo.SexpFloat{Val: g.float(), Scientific: g.Sci}, nil
	case "chr":
		return &zygo.SexpChar{Val: rune(g.R)}, nil
	case "str":
		return &zygo.SexpStr{S: string(g.S)}, nil
	case "sym":
		return env.MakeSymbol(string(g.S)), nil
	case "expr":
		o := evalSafe(env, string(g.S)+"\n")
		if o.Kind != "val" {
			return nil, fmt.Errorf("expr %q: %s %s", g.S, o.Kind, o.Err)
		}
		return o.Val, nil
	case "arr", "list":
		es := []zygo.Sexp{}
		for _, e := range g.E {
			x, err := e.build(env)
			if err != nil {
				return nil, err
			}
			es = append(es, x)
		}
		if g.K == "list" {
			return zygo.MakeList(es), nil
		}
		return &zygo.SexpArray{Val: es, Env: env}, nil
	case "hash":
		args := []zygo.Sexp{}
		for i, e := range g.E {
			x, err := e.build(env)
			if err != nil {
				return nil, err
			}
			if g.Keys[i].Str {
				args = append(args, &zygo.SexpStr{S: string(g.Keys[i].N)})
			} else if name := string(g.Keys[i].N); strings.Contains(name, ".") && !g.Keys[i].Raw {
				// a dotted symbol as the reader makes it (it carries the path flag)
				o := evalSafe(env, "(quote "+name+")\n")
				if o.Kind != "val" {
					return nil, fmt.Errorf("dotted key %q: %s %s", name, o.Kind, o.Err)
				}
				args = append(args, o.Val)
			} else {
				args = append(args, env.MakeSymbol(name))
			}
			args = append(args, x)
		}
		h, err := zygo.MakeHash(args, string(g.S), env)
		if err != nil {
			return nil, err
		}
		return h, nil
	}
	return nil, fmt.Errorf("unknown recipe kind %q", g.K)
}

func (g *gval) json() string {
	b, err := json.Marshal(g)
	if err != nil {
		fatal("marshal recipe: %v", err)
	}
	return string(b)
}

// ---------------------------------------------------------------- scalar palettes

type cdMember struct {
	g   *gval
	cls string // scalar class (for coverage counting)
}

var gridInts = []int64{0, 1, -1, 7, 255, 65536, 1<<31 - 1, 1 << 31, -(1 << 31) - 1, 1 << 53, 1<<53 + 1, -(1<<53 + 1),
	1 << 62, math.MaxInt64, math.MinInt64, math.MaxInt64 - 1024, 1000000000000000000, 123456789012345678, -42}

func gridFloats(jsonOnly bool) []cdMember {
	ms := []cdMember{}
	add := func(cls string, g *gval) { ms = append(ms, cdMember{g, cls}) }
	for _, f := range []float64{1.0, -1.0, 0.0, math.Copysign(0, -1), 100.0, 123456789.0, 1e15, 9007199254740992.0, 9007199254740994.0} {
		add("flt-integral", gFlt(f, false))
	}
	for _, f := range []float64{0.5, -2.5, 0.1, 1e-7, 3.141592653589793, 1.0000000000000002, 0.30000000000000004} {
		add("flt-fraction", gFlt(f, false))
	}
	add("flt-arith", gExpr("(+ 0.1 0.2)"))
	add("flt-arith", gExpr("(/ 1.0 3.0)"))
	add("flt-arith", gExpr("(* 1e10 1e11)"))
	add("flt-arith", gExpr("(- 0.0 (/ 22.0 7.0))"))
	add("flt-arith", gExpr("(* 3.0 0.5)"))
	add("flt-arith", gExpr("(+ 0.5 0.5)"))
	for _, f := range []float64{1e21, 1e22, 1e300, math.MaxFloat64, 9.223372036854775808e18, 1.5e19, 1.8446744073709552e19, -9.223372036854775808e18, -9.3e18, 1e19} {
		add("flt-huge", gFlt(f, false))
		add("flt-huge-sci", gFlt(f, true))
	}
	for _, f := range []float64{5e-324, 2.2250738585072014e-308, 2.225073858507201e-308, 1e-300, -5e-324} {
		add("flt-tiny", gFlt(f, false))
		add("flt-tiny-sci", gFlt(f, true))
	}
	for _, f := range []float64{1e5, 1.5, 1.0, 0.001, 123456.789} {
		add("flt-sci", gFlt(f, true))
	}
	if !jsonOnly {
		add("flt-inf", gFlt(math.Inf(1), false))
		add("flt-inf", gFlt(math.Inf(-1), false))
		add("flt-nan", gFlt(math.NaN(), false))
		add("flt-arith", gExpr("(/ 1.0 0.0)"))
	}
	return ms
}

// stringMembers: every boundary member of every class alone, every ordered
// pair of classes, and seeded random class sequences of length <= 3.
func stringMembers(r *rng, nTriples int, withInvalid bool) []cdMember {
	ms := []cdMember{{gStr(""), "str-empty"}}
	classes := codecClasses
	if !withInvalid {
		classes = classes[:len(classes)-1]
	}
	for _, c := range classes {
		for _, m := range classBoundary[c] {
			ms = append(ms, cdMember{gStr(m), "str-" + c})
		}
		for i := 0; i < 3; i++ {
			ms = append(ms, cdMember{gStr(cdRandMember(r, c)), "str-" + c})
		}
	}
	for _, a := range classes {
		for _, b := range classes {
			ms = append(ms, cdMember{gStr(cdRandMember(r, a) + cdRandMember(r, b)), "str-" + a + "+" + b})
		}
	}
	for i := 0; i < nTriples; i++ {
		a, b, c := pick(r, classes), pick(r, classes), pick(r, classes)
		ms = append(ms, cdMember{gStr(cdRandMember(r, a) + cdRandMember(r, b) + cdRandMember(r, c)), "str-" + a + "+" + b + "+" + c})
	}
	ms = append(ms, cdMember{gStr("hello world"), "str-plain"}, cdMember{gStr("Atype"), "str-plain"}, cdMember{gStr("null"), "str-plain"},
		cdMember{gStr("a\"b\\c\nd"), "str-mixed"}, cdMember{gStr("</script>"), "str-plain"}, cdMember{gStr("\u00e9\u4e2d\U0001f600"), "str-mixed"})
	return ms
}

// ---------------------------------------------------------------- contexts

// A context places a value x at a position of a nested value (depth <= 3).
type cdCtx struct {
	name string
	mk   func(x *gval) *gval
}

func codecContexts(withRec bool) []cdCtx {
	one := gInt(1)
	s := gStr("s")
	cs := []cdCtx{
		{"top", func(x *gval) *gval { return x }},
		{"[x]", func(x *gval) *gval { return gArr(x) }},
		{"[1 x s]", func(x *gval) *gval { return gArr(one, x, s) }},
		{"{a:x}", func(x *gval) *gval { return gHash("hash", symKeys("a"), x) }},
		{"{z:x a:1}", func(x *gval) *gval { return gHash("hash", symKeys("z", "a"), x, one) }},
		{"{b:1 zz:x A:s}", func(x *gval) *gval { return gHash("hash", symKeys("b", "zz", "A"), one, x, s) }},
		{"[[x]]", func(x *gval) *gval { return gArr(gArr(x)) }},
		{"[{a:x}]", func(x *gval) *gval { return gArr(gHash("hash", symKeys("a"), x)) }},
		{"{a:[x]}", func(x *gval) *gval { return gHash("hash", symKeys("a"), gArr(x)) }},
		{"{m:{z:x a:1} b:1}", func(x *gval) *gval {
			return gHash("hash", symKeys("m", "b"), gHash("hash", symKeys("z", "a"), x, one), one)
		}},
		{"[[[x]]]", func(x *gval) *gval { return gArr(gArr(gArr(x))) }},
		{"{a:{b:{c:x}}}", func(x *gval) *gval {
			return gHash("hash", symKeys("a"), gHash("hash", symKeys("b"), gHash("hash", symKeys("c"), x)))
		}},
		{"[{k:[x 1]} s]", func(x *gval) *gval { return gArr(gHash("hash", symKeys("k"), gArr(x, one)), s) }},
	}
	if withRec {
		cs = append(cs,
			cdCtx{"(rec f:x)", func(x *gval) *gval { return gHash("rec", symKeys("f"), x) }},
			cdCtx{"(rec z:1 f:x)", func(x *gval) *gval { return gHash("rec", symKeys("z", "f"), one, x) }},
			cdCtx{"{a:(rec f:x)}", func(x *gval) *gval { return gHash("hash", symKeys("a"), gHash("rec", symKeys("f"), x)) }},
			cdCtx{"(rec r:(Other y:x b:1))", func(x *gval) *gval {
				return gHash("rec", symKeys("r"), gHash("Other", symKeys("y", "b"), x, one))
			}},
			cdCtx{"[(rec f:{q:x})]", func(x *gval) *gval {
				return gArr(gHash("rec", symKeys("f"), gHash("hash", symKeys("q"), x)))
			}},
		)
	}
	return cs
}

// cdEnumTrees lists every value of depth <= 2 with <= 2 children per container
// over the given leaves, container kinds and key sets.
func cdEnumTrees(leaves []*gval, kinds []string, depth int) []*gval {
	level := append([]*gval(nil), leaves...)
	all := append([]*gval(nil), leaves...)
	for d := 1; d <= depth; d++ {
		var next []*gval
		mk := func(kind string, es ...*gval) *gval {
			switch kind {
			case "arr":
				return gArr(es...)
			case "list":
				return gList(es...)
			}
			names := []string{"z", "a"}
			if kind == "rec" {
				names = []string{"f", "b"}
			}
			return gHash(kind, symKeys(names[:len(es)]...), es...)
		}
		for _, k := range kinds {
			if d == 1 {
				next = append(next, mk(k))
			}
			// at least one child from the previous level so that depth is exactly d
			for _, x := range level {
				next = append(next, mk(k, x))
				for _, y := range all {
					next = append(next, mk(k, x, y))
					if !cdContainsPtr(level, y) {
						next = append(next, mk(k, y, x))
					}
				}
			}
		}
		all = append(all, next...)
		level = next
	}
	return all
}

func cdContainsPtr(xs []*gval, y *gval) bool {
	for _, x := range xs {
		if x == y {
			return true
		}
	}
	return false
}

// cdRandTree draws a nested value of depth <= maxDepth.
func cdRandTree(r *rng, leaves []cdMember, kinds []string, keyNames []string, strKeys bool, maxDepth int) *gval {
	if maxDepth == 0 || r.intn(10) < 3 {
		return pick(r, leaves).g
	}
	kind := pick(r, kinds)
	n := r.intn(4)
	es := []*gval{}
	for i := 0; i < n; i++ {
		es = append(es, cdRandTree(r, leaves, kinds, keyNames, strKeys, maxDepth-1))
	}
	switch kind {
	case "arr":
		return gArr(es...)
	case "list":
		return gList(es...)
	}
	perm := append([]string(nil), keyNames...)
	for i := len(perm) - 1; i > 0; i-- {
		j := r.intn(i + 1)
		perm[i], perm[j] = perm[j], perm[i]
	}
	keys := []gkey{}
	for i := 0; i < n; i++ {
		keys = append(keys, gkey{N: []byte(perm[i]), Str: strKeys && r.intn(2) == 0})
	}
	return gHash(kind, keys, es...)
}

// ---------------------------------------------------------------- the codec driver

type codecDriver struct {
	env *zygo.Zlisp
}

func newCodecDriver() *codecDriver {
	for cls, ms := range classBoundary {
		for _, m := range ms {
			if got := cdClassOf(cpsOf(m)[0]); got != cls {
				fatal("class table: %q listed as %s but classified %s", m, cls, got)
			}
		}
	}
	d := &codecDriver{env: zygo.NewZlisp()}
	d.env.StandardSetup()
	for _, t := range []string{"(defmap rec)\n", "(defmap Other)\n",
		// a record type with declared field types, one per scalar type
		"(struct Typed [(field i:int64) (field u:uint64) (field f:float64) (field s:string) (field b:bool)])\n"} {
		if o := evalSafe(d.env, t); o.Kind != "val" && o.Kind != "nilres" {
			fatal("setup %q: %s %s", t, o.Kind, o.Err)
		}
	}
	return d
}

func (d *codecDriver) reset() {
	// an escaping error can leave operands behind; start every case at rest
	d.env.Clear()
}

// rtCase executes one round-trip case.
func (d *codecDriver) rtCase(id string, g *gval, cls string) map[string]any {
	c := map[string]any{"id": id, "kind": "rt", "recipe": g.json(), "lab": cls}
	d.reset()
	v, err := g.build(d.env)
	if err != nil {
		fatal("build %s: %v", id, err)
	}
	d.env.AddGlobal("v", v)
	c["v"] = cproj(d.env, v, 0)
	c["cc"] = ccOfProj(c["v"])
	c["skeys"] = g.hasStrKey()
	o := evalSafe(d.env, "(json v)\n")
	if raw, ok := o.Val.(*zygo.SexpRaw); o.Kind == "val" && ok {
		c["json"] = cdJSONTree(raw.Val)
		c["jtext"] = trunc(strconv.QuoteToASCII(string(raw.Val)), 400)
	} else {
		c["json"] = []any{"jbad", "nojson"}
		c["jtext"] = trunc(o.Kind+" "+o.Err, 200)
	}
	d.reset()
	d.env.AddGlobal("v", v)
	c["uj"] = cprojOutcome(d.env, evalSafe(d.env, "(unjson (json v))\n"))
	d.reset()
	d.env.AddGlobal("v", v)
	c["um"] = cprojOutcome(d.env, evalSafe(d.env, "(unmsgpack (msgpack v))\n"))
	// the encoding stays what it was while other values are encoded: decode it afterwards
	d.reset()
	d.env.AddGlobal("v", v)
	um2 := cprojOutcome(d.env, evalSafe(d.env, "(def mv (msgpack v))\n(msgpack (hash zz: 1 yy: \"other\" xx: [1 2 3]))\n(msgpack [9 8 7 \"w\"])\n(json (hash q: 2))\n(unmsgpack mv)\n"))
	b1, _ := json.Marshal(c["um"])
	b2, _ := json.Marshal(um2)
	if string(b1) != string(b2) {
		// report the later decoding: it is the one that differs from the value
		c["um"] = um2
	}
	return c
}

// clsCase records the escape the encoder emits for one class member.
func (d *codecDriver) clsCase(id string, cls string, m string) map[string]any {
	c := map[string]any{"id": id, "kind": "cls", "cls": cls, "recipe": gStr(m).json()}
	d.reset()
	d.env.AddGlobal("v", &zygo.SexpStr{S: m})
	c["m"] = cpsOf(m)
	o := evalSafe(d.env, "(json v)\n")
	c["emit"] = []any{}
	c["lexed"] = false
	if raw, ok := o.Val.(*zygo.SexpRaw); o.Kind == "val" && ok {
		toks, lexed := lexLiteral(string(raw.Val), '"')
		c["emit"], c["lexed"] = toks, lexed
		c["json"] = cdJSONTree(raw.Val)
		c["jtext"] = trunc(strconv.QuoteToASCII(string(raw.Val)), 200)
	} else {
		c["json"] = []any{"jbad", "nojson"}
		c["jtext"] = trunc(o.Kind+" "+o.Err, 200)
	}
	return c
}

func codecScalars(r *rng, thorough bool) []cdMember {
	ms := []cdMember{{gNil(), "nil"}, {gBool(true), "bool"}, {gBool(false), "bool"}}
	for _, i := range gridInts {
		ms = append(ms, cdMember{gInt(i), "int"})
	}
	for _, u := range []uint64{0, 12, 1 << 63, math.MaxUint64} {
		ms = append(ms, cdMember{gUint(u), "uint"})
	}
	ms = append(ms, gridFloats(false)...) // +-Inf and NaN are floats of the language
	nt := 150
	if thorough {
		nt = 1500
	}
	ms = append(ms, stringMembers(r, nt, true)...)
	return ms
}

func init() {
	register("codec", "C11: JSON / msgpack round trips and JSON well-formedness", func(args []string) int {
		part, nparts := 0, 1
		c := commonFlags("codec", args, func(fs *flag.FlagSet) {
			fs.IntVar(&part, "part", 0, "produce only the cases of this part (the check validates a large run in parts)")
			fs.IntVar(&nparts, "nparts", 1, "number of parts")
		})
		d := newCodecDriver()
		w := newWriter(c.out)
		defer w.close()
		if c.replay != "" {
			return codecReplay(d, c, w)
		}
		idx := 0
		mine := func(i int) bool { return i%nparts == part && c.mine(i/nparts) }
		emit := func(prefix string, g *gval, cls string) {
			if mine(idx) {
				w.write(d.rtCase(fmt.Sprintf("%s%d", prefix, idx), g, cls))
			}
			idx++
		}
		// (0) per character class: every boundary member and seeded random members
		r0 := newRng(c.seed, 11)
		nrand := 20
		if c.thorough() {
			nrand = 200
		}
		for _, cls := range codecClasses {
			ms := append([]string(nil), classBoundary[cls]...)
			for i := 0; i < nrand; i++ {
				ms = append(ms, cdRandMember(r0, cls))
			}
			for _, m := range ms {
				if mine(idx) {
					w.write(d.clsCase(fmt.Sprintf("c%d", idx), cls, m))
				}
				idx++
			}
		}
		// (a) every scalar member in every context of depth <= 3
		scalars := codecScalars(newRng(c.seed, 12), c.thorough())
		ctxs := codecContexts(true)
		for _, m := range scalars {
			for ci, cx := range ctxs {
				// quick tier: every member at top and in three rotating contexts
				if !c.thorough() && ci != 0 && (idx+ci)%4 != 0 {
					continue
				}
				emit("a", cx.mk(m.g), m.cls+" in "+cx.name)
			}
		}
		// (b) every value of depth <= 2 with <= 2 children over a palette of scalar classes
		palette := []*gval{gNil(), gBool(true), gInt(7), gFlt(2.5, false), gFlt(1.0, false), gStr("x")}
		trees := cdEnumTrees(palette, []string{"arr", "hash", "rec"}, 2)
		for i, t := range trees {
			if !c.thorough() && t.depth() == 2 && len(t.E) == 2 && !hashSel(c.seed, i, 1, 16) {
				continue
			}
			emit("b", t, "tree")
		}
		// (c) hashes with string keys (JSON-style source literals): well-formedness half only
		skeyNames := []string{"t", "u v", "Atype2", "k\"q", "b\\s", "n\nl", "\u00e9", "", "a:b", "z",
			"growth%", "100%%", "cpu %d", "%s", "%v%v", "a%b", "{0}", "$1", "\\n", "<k>", "k&k", "\t"}
		for i, kn := range skeyNames {
			for _, val := range []*gval{gInt(1), gStr("s"), gArr(gInt(1))} {
				emit("k", gHash("hash", []gkey{{Str: true, N: []byte(kn)}}, val), "strkey")
				emit("k", gHash("hash", []gkey{{N: []byte("a")}, {Str: true, N: []byte(kn)}}, gInt(0), val), "strkey")
				if i < 3 {
					emit("k", gArr(gHash("hash", []gkey{{Str: true, N: []byte(kn)}, {N: []byte("b")}}, val, gInt(2))), "strkey")
				}
			}
		}
		// (d) seeded random nested values to depth 3, <= 3 children
		n := c.n
		if n == 0 {
			n = 1500
			if c.thorough() {
				n = 60000
			}
		}
		keyNames := []string{"a", "b", "z", "zz", "A", "k1", "\u00e9t\u00e9", "name", "m_n"}
		for i := 0; i < n; i++ {
			r := newRng(c.seed, uint64(1000+i))
			strKeys := i%10 == 9
			t := cdRandTree(r, scalars, []string{"arr", "hash", "rec", "Other"}, keyNames, strKeys, 3)
			emit("r", t, "random")
		}
		// (e) key names: the names of the reserved members as user keys, dotted symbols
		one, str := gInt(1), gStr("rec")
		for _, kn := range []string{"Atype", "zKeyOrder", "a.b", "x.y.z", "Atypes", "zKeyOrder2"} {
			for _, asStr := range []bool{false, true} {
				// a dotted symbol made by the reader names a path and is refused as a key (hset, C14); the
				// symbol of that name that the JSON decoder makes (no path flag) is an ordinary key
				k := gkey{Str: asStr, N: []byte(kn), Raw: !asStr && strings.Contains(kn, ".")}
				a := gkey{N: []byte("a")}
				lab := "keyname-" + kn
				emit("e", gHash("hash", []gkey{k}, one), lab)
				emit("e", gHash("hash", []gkey{k, a}, str, one), lab)
				emit("e", gHash("hash", []gkey{a, k}, one, gArr(one)), lab)
				emit("e", gHash("rec", []gkey{k, a}, one, one), lab)
				emit("e", gArr(gHash("hash", []gkey{a}, gHash("hash", []gkey{k, a}, one, str))), lab)
			}
		}
		// (f) record type names with every kind of character (MakeHash takes any name; the
		// lexer takes a control character inside a symbol)
		for _, tn := range []string{"we\"ird", "back\\slash", "a\x01b", "t\u00e9", "two words", "new\nline", "\U0001f600", "q\u2028", "A", "hash2"} {
			emit("f", gHash(tn, symKeys("a"), one), "typename")
			emit("f", gHash(tn, symKeys("z", "a"), gStr("s"), one), "typename")
			emit("f", gArr(gHash("hash", symKeys("r"), gHash(tn, symKeys("x"), one))), "typename")
			emit("f", gHash(tn, nil), "typename")
		}
		// (g) records of a type with declared field types: every field alone over its scalar grid,
		// and together in both orders
		typed := map[string][]*gval{
			"i": {gInt(0), gInt(-1), gInt(math.MaxInt64), gInt(math.MinInt64), gInt(1 << 53)},
			"u": {gUint(0), gUint(5), gUint(1<<63 - 1), gUint(1 << 63), gUint(math.MaxUint64)},
			"f": {gFlt(1.0, false), gFlt(2.5, false), gFlt(1e21, false), gFlt(-0.5, true), gFlt(5e-324, false), gFlt(9.223372036854775808e18, false)},
			"s": {gStr(""), gStr("x\"\n\u00e9"), gStr("\a")},
			"b": {gBool(true), gBool(false)},
		}
		fields := []string{"i", "u", "f", "s", "b"}
		for _, f := range fields {
			for _, x := range typed[f] {
				emit("g", gHash("Typed", symKeys(f), x), "typed-"+f)
				if f != "s" {
					emit("g", gArr(gHash("Typed", symKeys(f, "s"), x, gStr("t"))), "typed-"+f)
				}
			}
		}
		for k := 0; k < 3; k++ {
			var vals, rev []*gval
			for _, f := range fields {
				vals = append(vals, typed[f][k%len(typed[f])])
			}
			emit("g", gHash("Typed", symKeys(fields...), vals...), "typed-all")
			revf := []string{"b", "s", "f", "u", "i"}
			for _, f := range revf {
				rev = append(rev, typed[f][k%len(typed[f])])
			}
			emit("g", gHash("hash", symKeys("t"), gHash("Typed", symKeys(revf...), rev...)), "typed-all")
		}
		return 0
	})
}

// codecReplay re-executes recorded cases from their recipes.
func codecReplay(d *codecDriver, c *common, w *ndWriter) int {
	readLines(c.replay, func(line []byte) {
		var in struct {
			ID     string `json:"id"`
			Kind   string `json:"kind"`
			Cls    string `json:"cls"`
			Lab    string `json:"lab"`
			Recipe string `json:"recipe"`
		}
		if err := json.Unmarshal(line, &in); err != nil {
			fatal("bad replay file: %v", err)
		}
		var g gval
		if err := json.Unmarshal([]byte(in.Recipe), &g); err != nil {
			fatal("bad recipe in %s: %v", in.ID, err)
		}
		switch in.Kind {
		case "cls":
			w.write(d.clsCase(in.ID, in.Cls, string(g.S)))
		default:
			w.write(d.rtCase(in.ID, &g, in.Lab))
		}
	})
	return 0
}

var _ = os.Stderr
