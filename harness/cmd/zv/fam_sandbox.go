package main

// Family "sandbox" (C08): a sandboxed interpreter cannot reach the outside world.
//
//   zv sandbox -dump FILE [-zygo BIN] [-repo DIR]
//       the universe of names: every name bound in each LIVE configuration
//       (bare = NewZlispSandbox(), std = NewZlispSandbox()+StandardSetup(),
//       cmd = the real `zygo -sandbox` binary asked through (defined? ...),
//       full = NewZlisp()+StandardSetup(), the unsandboxed control), the macro
//       names, the builtin table, the special forms of GenerateCallBySymbol
//       (read from the source of zygo/generator.go, so that a new special form
//       is in the universe), the reserved words and the repl commands.
//   zv sandbox -in VECTORS -out CASES [-zygo BIN]
//       VECTORS (written by TLC from spec/MCSandbox.tla): one (cfg, name, route)
//       per line; the harness renders it under every argument shape and runs
//       every probe; plus seeded grammar-generated programs (-progs N).
//   zv sandbox -replay FILE
//       re-executes the probes of recorded cases, every probe in a process of its own.
//
// Every probe of the in-process configurations runs in a SUBPROCESS (this
// binary re-executed as `zv sandbox-worker`), on a fresh interpreter, in a
// throw-away directory that is the worker's cwd, HOME and TMPDIR, holding
//   zvcanary   a file whose content is a secret token (a legal symbol, so that a
//              reader that parses the file quotes it in its error message),
//   zvcanary2  a file of zygo source, (stop "<the same secret>"): evaluating it
//              raises an error whose text carries the secret,
//   zvmarker   must not appear (the canary shell command is `touch zvmarker`),
//   zvcreate   must not appear (target of the write shapes); nor anything else,
// with the environment variable ZV_CANARY_ENV holding a second secret.  The
// directory is watched with inotify (open/access/modify/create/delete) and
// listed before and after each probe.  Observed events of one probe:
//   leak       the file secret occurs in the result, the error text or the output
//   open       zvcanary was opened or read (inotify; implied by leak)
//   modify     zvcanary was written, truncated, removed or its attributes changed
//   create     a new path appeared in the directory (other than zvmarker)
//   marker     zvmarker appeared: the canary command ran
//   envleak    the environment secret occurs in the result, the error text or the output
//   envchange  the process environment differs afterwards
//   exit       the process ended during the probe without a Go panic or fatal error
//   fatal      the Go runtime ended the process during the probe: a fatal error (stack overflow: recover()
//              cannot stop it) or a panic that nothing recovered (the in-process hosts recover every panic of
//              the evaluating goroutine, as a careful embedder does; cmd/zygo is taken as it is)
// exit and fatal are the two observations of ONE effect, the end of the host process.  They are judged by
// the host protocol: after every probe the host must still be there and answer (the worker writes the
// observation of the probe and goes on; the repl evaluates the sentinel lines); the field host of a probe is
// "up", "exit", "fatal", or -- no observation of the effect, the harness or the machine ended the host --
// "stopped" (no answer within the time limit: the harness stopped it) and "starved" (the machine refused
// memory: fatal error out of memory, or a kill from outside).  Every host of this family bounds its goroutine
// stacks to sbMaxStack bytes (debug.SetMaxStack; cmd/zygo through the environment variable ZV_MAXSTACK read by
// one init function that lib/props/C08.py adds to the build with -overlay): Go recursion without a bound ends
// in the same fatal error as at Go's default of 1 GB, within a second instead of minutes.
// Reading the canary NAME back is not an event.  A probe that raised an event
// in a batch is re-run alone in a fresh process and directory; the recorded
// event set is the union (the detail field keeps both).
// The cmd configuration feeds the same probe lines to the stdin of the real
// binary `zygo -sandbox -quiet -no-liner` (batches; alone after any anomaly);
// its directory is watched from outside; an environment change cannot be seen there.

import (
	"bytes"
	"encoding/json"
	"flag"
	"fmt"
	"go/ast"
	"go/parser"
	"go/token"
	"io"
	"os"
	"os/exec"
	"path/filepath"
	"runtime"
	"runtime/debug"
	"sort"
	"strconv"
	"strings"
	"syscall"
	"time"
	"unsafe"

	zygo "github.com/glycerine/zygomys/v9/zygo"
)

// ---------------------------------------------------------------- vocabulary

var sbCfgs = []string{"bare", "std", "cmd", "full"}

// The last three routes have the call COMPILED AND RUN INSIDE A DUPLICATE of the
// interpreter (env.Duplicate()): a macro body that is not a template runs at
// expansion time in a duplicate and compiles the arguments of its calls there
// (macrun; also under macexpand), and the expectError builder evaluates both
// of its arguments in a duplicate (expect).
var sbRoutes = []string{"direct", "alias", "eval", "sym", "apply", "macro", "builder", "fn", "macrun", "macexpand", "expect"}

type sbArg struct {
	text string
	bare bool // an unevaluated symbol: quoted where the route evaluates its arguments
}

type sbShape struct {
	name string
	args []sbArg
	// value: an argument shape about the VALUE handed over, not about a canary: rendered for the vectors of the
	// base variant (no prelude, first interpreter of the process) and the direct route only: what a script has
	// bound, what the process did before and by which derivation the callee was reached are dimensions of the
	// binding, not of the data (which Go code walks the value is decided by the name that is called; the walkers
	// that the routes themselves apply -- eval, str, apply, macro expansion -- are names of the universe; the
	// grammar-generated programs combine value shapes with every wrapper)
	value bool
}

const sbPH = "@D@" // placeholder of the throw-away directory in recorded texts

var sbShapes = []sbShape{
	{"none", nil, false},
	{"path-str", []sbArg{{`"` + sbPH + `/zvcanary"`, false}}, false},
	{"path-sym", []sbArg{{"zvcanary", true}}, false},
	{"path2-str", []sbArg{{`"` + sbPH + `/zvcanary2"`, false}}, false},
	{"path-arr", []sbArg{{`["` + sbPH + `/zvcanary"]`, false}}, false},
	{"val-path", []sbArg{{`"zvdata"`, false}, {`"` + sbPH + `/zvcreate"`, false}}, false},
	{"path-val", []sbArg{{`"` + sbPH + `/zvcreate"`, false}, {`"zvdata"`, false}}, false},
	{"val-canary", []sbArg{{`["zvdata"]`, false}, {`"` + sbPH + `/zvcanary"`, false}}, false},
	{"hash-path", []sbArg{{`(hash a: 1)`, false}, {`"` + sbPH + `/zvcreate"`, false}}, false},
	{"cmd-str", []sbArg{{`"touch ` + sbPH + `/zvmarker"`, false}}, false},
	{"cmd-words", []sbArg{{"touch", true}, {"zvmarker", true}}, false},
	{"env-name", []sbArg{{`"ZV_CANARY_ENV"`, false}}, false},
	{"env-sym", []sbArg{{"ZV_CANARY_ENV", true}}, false},
	{"env-set", []sbArg{{`"ZV_CANARY_ENV"`, false}, {`"zvchanged"`, false}}, false},
	{"env-new", []sbArg{{`"ZV_NEW_ENV"`, false}, {`"zvnew"`, false}}, false},
	{"int", []sbArg{{"7", false}}, false},
	{"int0", []sbArg{{"0", false}}, false},
	// value shapes: data a script can build with the names of every sandboxed configuration, on which Go code
	// of the library that walks its argument by recursion does not come back (the host must survive the call):
	// a value that contains itself, through an array / a hash / both and a list / handed over twice; a text nested without bound;
	// a form that leaves no value in the place of an argument, alone and inside an array literal
	{"cyc-arr", []sbArg{{sbCycArr, false}}, true},
	{"cyc-hash", []sbArg{{sbCycHash, false}}, true},
	{"cyc-two", []sbArg{{sbCycArr, false}, {"zvc", false}}, true},
	{"cyc-mix", []sbArg{{sbCycMix, false}}, true},
	{"deep-sq", []sbArg{{sbDeepText("["), false}}, true},
	{"deep-par", []sbArg{{sbDeepText("("), false}}, true},
	{"noval", []sbArg{{"(begin)", false}}, true},
	{"noval-arr", []sbArg{{"1", false}, {"[(begin)]", false}}, true},
}

const (
	sbCycArr  = `(begin (def zvc [1]) (aset zvc 0 zvc) zvc)`
	sbCycHash = `(begin (def zvh (hash a: 1)) (hset zvh a: zvh) zvh)`
	// an array in a list in a hash in the array
	sbCycMix = `(begin (def zvm [1 2]) (aset zvm 1 (hash a: (list 1 zvm))) zvm)`
	// sbDeepDoublings: the nested text has 2^sbDeepDoublings opening brackets: far more levels than the stack
	// limit of the hosts of this family (sbMaxStack) has room for at one Go frame per level
	sbDeepDoublings = 18
)

// sbDeepText: script text that builds a string of 2^sbDeepDoublings times open (by doubling: 18 steps).
func sbDeepText(open string) string {
	return `(begin (def zvs "` + open + `") (for [(def zvi 0) (< zvi ` + strconv.Itoa(sbDeepDoublings) +
		`) (set zvi (+ zvi 1))] (set zvs (concat zvs zvs))) zvs)`
}

// sbDeepOpen + x + "@" in a recorded text stands for x repeated 2^sbDeepDoublings times (texts nested without
// bound as PROGRAM text: the script itself, not a string it builds); expanded, like sbPH, when the text is run.
const sbDeepOpen = "@OPEN:"

func sbExpand(l, dir string) string {
	l = strings.ReplaceAll(l, sbPH, dir)
	for {
		i := strings.Index(l, sbDeepOpen)
		if i < 0 {
			return l
		}
		j := strings.IndexByte(l[i+len(sbDeepOpen):], '@')
		if j < 0 {
			return l
		}
		x := l[i+len(sbDeepOpen) : i+len(sbDeepOpen)+j]
		l = l[:i] + strings.Repeat(x, 1<<sbDeepDoublings) + l[i+len(sbDeepOpen)+j+1:]
	}
}

// sbDeepProgs: program texts nested 2^sbDeepDoublings levels, one per bracket and prefix of the reader.
var sbDeepProgs = []string{
	sbDeepOpen + "[@ 1 " + sbDeepOpen + "]@",
	sbDeepOpen + "(@" + sbDeepOpen + ")@",
	"(quote " + sbDeepOpen + "(@" + sbDeepOpen + ")@)",
	sbDeepOpen + "{@ 1 " + sbDeepOpen + "}@",
	sbDeepOpen + "'@zva",
	sbDeepOpen + "^@zva",
	"^" + sbDeepOpen + "~@zva",
}

func sbShapeByName(n string) *sbShape {
	for i := range sbShapes {
		if sbShapes[i].name == n {
			return &sbShapes[i]
		}
	}
	return nil
}

func sbJoin(args []sbArg, quoted bool) string {
	var b strings.Builder
	for _, a := range args {
		b.WriteByte(' ')
		if a.bare && quoted {
			b.WriteString("(quote " + a.text + ")")
		} else {
			b.WriteString(a.text)
		}
	}
	return b.String()
}

// sbRender gives the lines (each evaluated by a call of its own, in order) of
// the probe that calls name through route with the arguments of shape; uniq
// makes the helper names of one vector its own (the vectors of the cmd
// configuration share a repl process: a failed (def zvalias X) must not leave
// the alias of an earlier vector in place).
func sbRender(name, route string, args []sbArg, uniq string) []string {
	if strings.HasPrefix(name, ".") && len(name) > 1 && name != ".." {
		if isReplCmd(name) {
			// a repl command: the line is the command and its words
			w := name
			for _, a := range args {
				w += " " + strings.Trim(a.text, `"`)
			}
			if route == "direct" {
				return []string{w}
			}
		}
	}
	a := sbJoin(args, false)
	aq := sbJoin(args, true)
	switch route {
	case "direct":
		return []string{"(" + name + a + ")"}
	case "alias":
		return []string{"(def zvalias" + uniq + " " + name + ")", "(zvalias" + uniq + a + ")"}
	case "eval":
		return []string{"(eval (quote (" + name + a + ")))"}
	case "sym":
		return []string{"(eval (list (str2sym " + strconv.Quote(name) + ")" + aq + "))"}
	case "apply":
		return []string{"(apply " + name + " [" + strings.TrimPrefix(aq, " ") + "])"}
	case "macro":
		return []string{"(defmac zvmac" + uniq + " [] ^(" + name + a + "))", "(zvmac" + uniq + ")"}
	case "builder":
		return []string{"(infix [(" + name + a + ")])"}
	case "fn":
		return []string{"((fn [] (" + name + a + ")))"}
	case "macrun":
		return []string{"(defmac zvmrun" + uniq + " [] (str (" + name + a + ")))", "(zvmrun" + uniq + ")"}
	case "macexpand":
		return []string{"(defmac zvmexp" + uniq + " [] (str (" + name + a + ")))", "(macexpand (zvmexp" + uniq + "))"}
	case "expect":
		return []string{"(expectError \"zvnone\" (" + name + a + "))", "(expectError (str (" + name + a + ")) 1)"}
	}
	return []string{"(" + name + a + ")"}
}

// sbPrelude: the definitions by which a script binds the names of shadow itself.
// sameText: only those that compile in any case (a reserved word cannot be
// defined: its definition would stop the compilation of the whole text).
func sbPrelude(kind string, shadow []string, sameText bool) []string {
	var out []string
	for _, n := range shadow {
		if sameText && sbReserved(n) {
			continue
		}
		switch kind {
		case "def":
			out = append(out, "(def "+n+" 0)")
		case "defn":
			out = append(out, "(defn "+n+" [& zvr] 0)")
		case "defmac":
			out = append(out, "(defmac "+n+" [& zvr] 0)")
		}
	}
	return out
}

func sbReserved(n string) bool {
	for _, w := range zygo.ReservedWords {
		if w == n {
			return true
		}
	}
	return false
}

var sbReplCmds = []string{".quit", ".cd", ".dump", ".gls", ".ls", ".verb", ".debug", ".undebug"}

func isReplCmd(n string) bool {
	for _, c := range sbReplCmds {
		if c == n {
			return true
		}
	}
	return false
}

// ---------------------------------------------------------------- interpreters

func sbNewEnv(cfg string) *zygo.Zlisp {
	switch cfg {
	case "bare":
		return zygo.NewZlispSandbox()
	case "std":
		env := zygo.NewZlispSandbox()
		env.StandardSetup()
		return env
	}
	env := zygo.NewZlisp()
	env.StandardSetup()
	// the control of the observation "fatal": two primitives of the HOST with the capability to end it, bound
	// in the unsandboxed configuration only (Sandbox!HostFaults).  Called without arguments they end the
	// process the way a defect of the library would: Go recursion without a bound, and a panic that no
	// recover() of the host can reach (in a goroutine of its own).
	env.AddFunction("zvhostoverflow", func(env *zygo.Zlisp, name string, args []zygo.Sexp) (zygo.Sexp, error) {
		if len(args) == 0 {
			return &zygo.SexpInt{Val: int64(sbRecurse(1))}, nil
		}
		return zygo.SexpNull, nil
	})
	env.AddFunction("zvhostpanic", func(env *zygo.Zlisp, name string, args []zygo.Sexp) (zygo.Sexp, error) {
		if len(args) == 0 {
			go func() { panic("zvhostpanic: a panic outside the evaluating goroutine") }()
			time.Sleep(2 * time.Second)
		}
		return zygo.SexpNull, nil
	})
	return env
}

//go:noinline
func sbRecurse(n int) int {
	var pad [64]int
	pad[n%64] = n
	return sbRecurse(n+1) + pad[(n+1)%64]
}

// ---------------------------------------------------------------- universe dump

type sbName struct {
	N       string   `json:"n"`
	Kind    []string `json:"kind"`    // per configuration (order of sbCfgs): unbound | gofunc | builder | closure | value | bound | replcmd
	Mac     []bool   `json:"mac"`     // per configuration: a macro of that name exists
	Special bool     `json:"special"` // handled by GenerateCallBySymbol without any binding
}

type sbUniverse struct {
	Cfgs     []string `json:"cfgs"`
	Routes   []string `json:"routes"`
	Shapes   []string `json:"shapes"`
	Names    []sbName `json:"names"`
	Special  []string `json:"special"`
	Builtins []string `json:"builtins"` // names of the builtin table of the full configuration
	CmdSeen  bool     `json:"cmdseen"`  // the cmd column was observed on the real binary
	Unstable []string `json:"unstable"` // names whose binding in bare/std differs when an unsandboxed interpreter was set up first
}

// sbSpecialForms reads the case labels of the switch on sym.name in
// GenerateCallBySymbol from the source the harness was built against.
func sbSpecialForms(repo string) []string {
	path := filepath.Join(repo, "zygo", "generator.go")
	fset := token.NewFileSet()
	f, err := parser.ParseFile(fset, path, nil, 0)
	if err != nil {
		fatal("cannot read the special forms: %v", err)
	}
	var out []string
	for _, d := range f.Decls {
		fd, ok := d.(*ast.FuncDecl)
		if !ok || fd.Name.Name != "GenerateCallBySymbol" || fd.Body == nil {
			continue
		}
		ast.Inspect(fd.Body, func(n ast.Node) bool {
			cc, ok := n.(*ast.CaseClause)
			if !ok {
				return true
			}
			for _, e := range cc.List {
				if bl, ok := e.(*ast.BasicLit); ok && bl.Kind == token.STRING {
					if s, err := strconv.Unquote(bl.Value); err == nil {
						out = append(out, s)
					}
				}
			}
			return true
		})
	}
	if len(out) == 0 {
		fatal("no special forms found in %s (GenerateCallBySymbol moved?)", path)
	}
	sort.Strings(out)
	return out
}

func sbDump(c *common, zygoBin, repo string) int {
	u := sbUniverse{Cfgs: sbCfgs, Routes: sbRoutes}
	for _, s := range sbShapes {
		u.Shapes = append(u.Shapes, s.name)
	}
	u.Special = sbSpecialForms(repo)
	names := map[string]*sbName{}
	get := func(n string) *sbName {
		if n == "" || strings.ContainsAny(n, "\"\\ \t\n()[]{}'`~^;#") {
			return nil // cannot be spelled as a symbol in script text
		}
		x := names[n]
		if x == nil {
			x = &sbName{N: n, Kind: []string{"unbound", "unbound", "unbound", "unbound"}, Mac: []bool{false, false, false, false}}
			names[n] = x
		}
		return x
	}
	skipped := []string{}
	for ci, cfg := range sbCfgs {
		if cfg == "cmd" {
			continue
		}
		env := sbNewEnv(cfg)
		for _, n := range env.VerifGlobalNames() {
			if x := get(n); x != nil {
				x.Kind[ci] = env.VerifGlobalKind(n)
			} else {
				skipped = append(skipped, n)
			}
		}
		for _, n := range env.VerifMacroNames() {
			if x := get(n); x != nil {
				x.Mac[ci] = true
			}
		}
		for _, n := range env.VerifBuiltinNames() {
			get(n)
			if cfg == "full" {
				u.Builtins = append(u.Builtins, n)
			}
		}
		env.Close()
	}
	// process history: the same sandboxed configurations created AFTER the unsandboxed
	// one was set up and used; a name bound in either order counts as bound
	u.Unstable = []string{}
	for ci, cfg := range sbCfgs[:2] {
		env := sbNewEnv(cfg)
		seen := map[string]bool{}
		for _, n := range env.VerifGlobalNames() {
			seen[n] = true
			if x := get(n); x != nil && x.Kind[ci] == "unbound" {
				x.Kind[ci] = env.VerifGlobalKind(n)
				u.Unstable = append(u.Unstable, cfg+":"+n)
			}
		}
		for _, n := range env.VerifMacroNames() {
			if x := get(n); x != nil && !x.Mac[ci] {
				x.Mac[ci] = true
				u.Unstable = append(u.Unstable, cfg+":"+n)
			}
		}
		for n, x := range names {
			if x.Kind[ci] != "unbound" && !seen[n] {
				u.Unstable = append(u.Unstable, cfg+":"+n)
			}
		}
		env.Close()
	}
	sort.Strings(u.Unstable)
	for _, n := range u.Special {
		if x := get(n); x != nil {
			x.Special = true
		}
	}
	for _, n := range zygo.ReservedWords {
		get(n)
	}
	for _, n := range sbReplCmds {
		if x := get(n); x != nil {
			x.Kind[2] = "replcmd"
		}
	}
	// the cmd column: ask the real binary
	if zygoBin != "" {
		order := make([]string, 0, len(names))
		for n := range names {
			order = append(order, n)
		}
		sort.Strings(order)
		bound, ok := sbCmdDefined(zygoBin, order)
		if ok {
			u.CmdSeen = true
			for _, n := range order {
				if names[n].Kind[2] == "replcmd" {
					continue
				}
				if bound[n] {
					names[n].Kind[2] = "bound"
				}
			}
			// macros cannot be listed from outside: the cmd column takes those of std
			for _, n := range order {
				names[n].Mac[2] = names[n].Mac[1]
			}
		}
	}
	if !u.CmdSeen {
		for _, x := range names {
			if x.Kind[2] != "replcmd" {
				x.Kind[2] = x.Kind[1]
				if x.Kind[2] != "unbound" {
					x.Kind[2] = "bound"
				}
			}
			x.Mac[2] = x.Mac[1]
		}
	}
	order := make([]string, 0, len(names))
	for n := range names {
		order = append(order, n)
	}
	sort.Strings(order)
	for _, n := range order {
		u.Names = append(u.Names, *names[n])
	}
	sort.Strings(u.Builtins)
	w := newWriter(c.out)
	w.write(u)
	w.close()
	if len(skipped) > 0 {
		fmt.Fprintf(os.Stderr, "zv sandbox: %d bound names cannot be spelled in script text and are skipped: %q\n", len(skipped), skipped)
	}
	return 0
}

// sbCmdDefined asks `zygo -sandbox` which names are bound, through (defined? "name").
func sbCmdDefined(zygoBin string, names []string) (map[string]bool, bool) {
	dir, err := os.MkdirTemp("", "zvsb-def-")
	if err != nil {
		return nil, false
	}
	defer os.RemoveAll(dir)
	var in bytes.Buffer
	for i, n := range names {
		fmt.Fprintf(&in, "(printf \"@@ZVD %%v %%v\\n\" %d (defined? %s))\n", i, strconv.Quote(n))
	}
	cmd := exec.Command(zygoBin, "-sandbox", "-quiet", "-no-liner")
	cmd.Dir = dir
	cmd.Env = sbChildEnv(dir, "zvenvsecretdump")
	cmd.Stdin = &in
	var out bytes.Buffer
	cmd.Stdout = &out
	cmd.Stderr = &out
	if err := sbRunTimeout(cmd, 120*time.Second); err != nil {
		return nil, false
	}
	res := map[string]bool{}
	seen := 0
	for _, line := range strings.Split(out.String(), "\n") {
		k := strings.Index(line, "@@ZVD ")
		if k < 0 {
			continue
		}
		f := strings.Fields(line[k+6:])
		if len(f) != 2 {
			continue
		}
		i, err := strconv.Atoi(f[0])
		if err != nil || i < 0 || i >= len(names) {
			continue
		}
		seen++
		res[names[i]] = f[1] == "true"
	}
	return res, seen == len(names)
}

// ---------------------------------------------------------------- observation

const (
	sbCanary  = "zvcanary"
	sbCanary2 = "zvcanary2" // zygo source: evaluating it raises an error that carries the secret
	sbMarker  = "zvmarker"
	sbEnvVar  = "ZV_CANARY_ENV"
)

func sbSecrets(seed int64, stream uint64) (string, string) {
	r := newRng(seed, 0x5b0000+stream)
	return fmt.Sprintf("zvfilesecret%012x", r.next()&0xffffffffffff), fmt.Sprintf("zvenvsecret%012x", r.next()&0xffffffffffff)
}

func sbChildEnv(dir, envSecret string) []string {
	return []string{
		"PATH=/usr/local/bin:/usr/bin:/bin",
		"HOME=" + dir,
		"TMPDIR=" + dir,
		"LANG=C",
		"GOMAXPROCS=1", // the machine may have hundreds of cores: keep the Go runtime of the child small
		sbEnvVar + "=" + envSecret,
	}
}

// sbWatch observes one throw-away directory: inotify plus listing and stat.
type sbWatch struct {
	dir        string
	fileSecret string
	envSecret  string
	fd         int
	ino        bool
	canaryStat string
	buf        []byte
	always     bool // list the directory on every collect
}

func sbNewWatch(dir, fileSecret, envSecret string) *sbWatch {
	w := &sbWatch{dir: dir, fileSecret: fileSecret, envSecret: envSecret, fd: -1}
	w.reset()
	fd, err := syscall.InotifyInit1(syscall.IN_NONBLOCK | syscall.IN_CLOEXEC)
	if err == nil {
		mask := uint32(syscall.IN_OPEN | syscall.IN_ACCESS | syscall.IN_MODIFY | syscall.IN_ATTRIB | syscall.IN_CREATE |
			syscall.IN_DELETE | syscall.IN_MOVED_FROM | syscall.IN_MOVED_TO | syscall.IN_CLOSE_WRITE)
		if _, err = syscall.InotifyAddWatch(fd, dir, mask); err == nil {
			w.fd, w.ino = fd, true
		} else {
			syscall.Close(fd)
		}
	}
	return w
}

func (w *sbWatch) close() {
	if w.fd >= 0 {
		syscall.Close(w.fd)
		w.fd = -1
	}
}

func statSig(path string) string {
	fi, err := os.Lstat(path)
	if err != nil {
		return "absent"
	}
	return fmt.Sprintf("%d/%d/%v", fi.Size(), fi.ModTime().UnixNano(), fi.Mode())
}

// reset empties the directory and writes a fresh canary.
func (w *sbWatch) reset() {
	ents, _ := os.ReadDir(w.dir)
	for _, e := range ents {
		os.RemoveAll(filepath.Join(w.dir, e.Name()))
	}
	os.WriteFile(filepath.Join(w.dir, sbCanary), []byte(w.fileSecret+"\n"), 0644)
	os.WriteFile(filepath.Join(w.dir, sbCanary2), []byte("(stop \""+w.fileSecret+"\")\n"), 0644)
	w.canaryStat = statSig(filepath.Join(w.dir, sbCanary)) + " " + statSig(filepath.Join(w.dir, sbCanary2))
	w.drain()
}

// drain reads the pending inotify events: name -> mask.
func (w *sbWatch) drain() map[string]uint32 {
	out := map[string]uint32{}
	if w.fd < 0 {
		return out
	}
	if w.buf == nil {
		w.buf = make([]byte, 64*1024)
	}
	buf := w.buf
	for {
		n, err := syscall.Read(w.fd, buf)
		if n <= 0 || err != nil {
			break
		}
		off := 0
		for off+syscall.SizeofInotifyEvent <= n {
			ev := (*syscall.InotifyEvent)(unsafe.Pointer(&buf[off]))
			nameLen := int(ev.Len)
			name := ""
			if nameLen > 0 {
				b := buf[off+syscall.SizeofInotifyEvent : off+syscall.SizeofInotifyEvent+nameLen]
				name = string(bytes.TrimRight(b, "\x00"))
			}
			out[name] |= ev.Mask
			off += syscall.SizeofInotifyEvent + nameLen
		}
	}
	return out
}

// collect returns the file-system events since the last reset/collect and the
// leaks found in texts; it restores the directory when something happened.
func (w *sbWatch) collect(texts ...string) map[string]bool {
	evs := map[string]bool{}
	for name, mask := range w.drain() {
		switch name {
		case "":
		case sbCanary, sbCanary2:
			if mask&(syscall.IN_OPEN|syscall.IN_ACCESS) != 0 {
				evs["open"] = true
			}
			if mask&(syscall.IN_MODIFY|syscall.IN_ATTRIB|syscall.IN_DELETE|syscall.IN_MOVED_FROM|syscall.IN_MOVED_TO|syscall.IN_CLOSE_WRITE|syscall.IN_CREATE) != 0 {
				evs["modify"] = true
			}
		case sbMarker:
			evs["marker"] = true
		default:
			if mask&(syscall.IN_CREATE|syscall.IN_MOVED_TO|syscall.IN_MODIFY|syscall.IN_CLOSE_WRITE) != 0 {
				evs["create"] = true
			}
		}
	}
	if !w.ino || len(evs) > 0 || w.always {
		// (with inotify armed a new path cannot appear without an event)
		ents, _ := os.ReadDir(w.dir)
		for _, e := range ents {
			switch e.Name() {
			case sbCanary, sbCanary2:
			case sbMarker:
				evs["marker"] = true
			default:
				evs["create"] = true
			}
		}
	}
	if statSig(filepath.Join(w.dir, sbCanary))+" "+statSig(filepath.Join(w.dir, sbCanary2)) != w.canaryStat {
		evs["modify"] = true
	}
	for _, t := range texts {
		if strings.Contains(t, w.fileSecret) {
			evs["leak"] = true
			evs["open"] = true
		}
		if strings.Contains(t, w.envSecret) {
			evs["envleak"] = true
		}
	}
	if evs["open"] || evs["modify"] || evs["marker"] || evs["create"] {
		w.reset()
	}
	return evs
}

func sortedKeys(m map[string]bool) []string {
	out := []string{}
	for k, v := range m {
		if v {
			out = append(out, k)
		}
	}
	sort.Strings(out)
	return out
}

// ---------------------------------------------------------------- jobs, worker

type sbJob struct {
	K     int      `json:"k"`
	Sess  int      `json:"sess"` // probes of one session may share an interpreter; -1: always a fresh one
	Cfg   string   `json:"cfg"`
	Lines []string `json:"lines"`          // with the placeholder
	Pre   []string `json:"pre,omitempty"`  // the script's own definitions, evaluated (each by a call of its own) when the session gets its interpreter
	Hist  bool     `json:"hist,omitempty"` // runs in a process that created and used an UNSANDBOXED interpreter first
}

type sbObs struct {
	K      int      `json:"k"`
	Out    string   `json:"out"` // val | err | panic | budget | hang | crash | exit | nilres
	Events []string `json:"events"`
	Host   string   `json:"host"` // the host after the probe: up | exit | fatal | stopped | starved (see the head of this file)
	Note   string   `json:"note,omitempty"`
}

// sbProbeTimeout: how long a host may take over one probe before it is taken for hung (an observation that is
// no event: a busy machine must not look like an effect, nor hide one — the control is re-run with ZV_PROBE_S=60
// before it is called blind).
var sbProbeTimeout = func() time.Duration {
	n := 20
	if v := os.Getenv("ZV_PROBE_S"); v != "" {
		fmt.Sscanf(v, "%d", &n)
	}
	return time.Duration(n) * time.Second
}()

// sbMaxStack: the bound every host of this family puts on its goroutine stacks.
const sbMaxStack = 16 << 20

// sbDeath classifies the end of a host process during a probe from what the Go runtime wrote and how the
// process ended: out, host, and whether the end is an observation of the effect (event "exit" / "fatal").
func sbDeath(text string, signaled, timedOut bool, status string) (out, host, event, note string) {
	switch {
	case timedOut:
		return "hang", "stopped", "", ""
	case strings.Contains(text, "fatal error: runtime: out of memory") || strings.Contains(text, "cannot allocate memory") ||
		strings.Contains(text, "fatal error: out of memory"):
		// the machine refused memory: whether that happens is decided by the machine, not by the library
		return "crash", "starved", "", trunc(sbFatalLine(text), 200)
	case strings.Contains(text, "fatal error:") || strings.Contains(text, "panic:") || strings.Contains(text, "goroutine "):
		return "crash", "fatal", "fatal", trunc(sbFatalLine(text), 200)
	case signaled:
		return "crash", "starved", "", status // killed from outside (memory, ...): not an end the script brought about
	}
	return "exit", "exit", "exit", status
}

// sbFatalLine: what the Go runtime reported, in one line: the fatal error or panic and, of the goroutine
// trace, the functions of the library that occur most often (the ones that recursed).
func sbFatalLine(text string) string {
	at := -1
	for _, m := range []string{"fatal error:", "panic:"} {
		if i := strings.Index(text, m); i >= 0 && (at < 0 || i < at) {
			at = i
		}
	}
	if at < 0 {
		return text
	}
	head := text[at:]
	if i := strings.IndexByte(head, '\n'); i >= 0 {
		head = head[:i]
	}
	const pkg = "/zygo."
	count := map[string]int{}
	var order []string
	for _, line := range strings.Split(text[at:], "\n") {
		i := strings.Index(line, pkg)
		if i < 0 || strings.HasPrefix(line, "\t") {
			continue
		}
		fn := line[i+len(pkg):]
		if j := strings.LastIndexByte(fn, '('); j > 0 {
			fn = fn[:j]
		}
		if count[fn] == 0 {
			order = append(order, fn)
		}
		count[fn]++
	}
	sort.SliceStable(order, func(a, b int) bool { return count[order[a]] > count[order[b]] })
	if len(order) > 3 {
		order = order[:3]
	}
	if len(order) > 0 {
		head += " [in " + strings.Join(order, ", ") + "]"
	}
	return head
}

// sbPhase, when set, is told what the host is about to do with the result of an evaluation.
var sbPhase func(string)

func sbEvalLine(env *zygo.Zlisp, text string) (kind string, shown string) {
	zygo.VerifSetBudget(200000)
	defer zygo.VerifSetBudget(-1)
	defer func() {
		if r := recover(); r != nil {
			kind, shown = "panic", fmt.Sprint(r)
		}
	}()
	if sbPhase != nil {
		sbPhase("eval")
	}
	v, err := env.EvalString(text)
	if err != nil {
		if strings.Contains(err.Error(), "verif: step budget exhausted") {
			return "budget", err.Error()
		}
		return "err", err.Error()
	}
	if v == nil {
		return "nilres", ""
	}
	// the host shows the value with the printer of the library, as an embedder and the repl do
	if sbPhase != nil {
		sbPhase("show")
	}
	s := v.SexpString(nil)
	if len(s) > 1<<20 {
		s = s[:1<<20]
	}
	return "val", s
}

// the worker: `zv sandbox-worker -jobs F -res F -ctl DIR -dir DIR -fsecret S -esecret S`
func sbWorker(args []string) int {
	fs := flag.NewFlagSet("sandbox-worker", flag.ExitOnError)
	jobsPath := fs.String("jobs", "", "")
	resPath := fs.String("res", "", "")
	ctl := fs.String("ctl", "", "")
	dir := fs.String("dir", "", "")
	fsecret := fs.String("fsecret", "", "")
	esecret := fs.String("esecret", "", "")
	history := fs.Bool("history", false, "")
	fs.Parse(args)
	if err := os.Chdir(*dir); err != nil {
		fatal("chdir: %v", err)
	}
	debug.SetMaxStack(sbMaxStack)
	var jobs []sbJob
	readLines(*jobsPath, func(line []byte) {
		var j sbJob
		if err := json.Unmarshal(line, &j); err != nil {
			fatal("bad job: %v", err)
		}
		jobs = append(jobs, j)
	})
	res, err := os.OpenFile(*resPath, os.O_CREATE|os.O_WRONLY|os.O_APPEND, 0644)
	if err != nil {
		fatal("res: %v", err)
	}
	w := sbNewWatch(*dir, *fsecret, *esecret)
	envSnap := append([]string(nil), os.Environ()...)
	sort.Strings(envSnap)
	stdoutPath := filepath.Join(*ctl, "stdout")
	stderrPath := filepath.Join(*ctl, "stderr")
	outF, _ := os.Open(stdoutPath)
	errF, _ := os.Open(stderrPath)
	sizeOf := func(f *os.File) int64 {
		if f == nil {
			return 0
		}
		var st syscall.Stat_t
		if syscall.Fstat(int(f.Fd()), &st) != nil {
			return 0
		}
		return st.Size
	}
	tailBuf := make([]byte, 1<<20)
	tail := func(f *os.File, from int64) string {
		if f == nil || sizeOf(f) <= from {
			return ""
		}
		n, _ := f.ReadAt(tailBuf, from)
		return string(tailBuf[:n])
	}
	inflF, err := os.OpenFile(filepath.Join(*ctl, "inflight"), os.O_CREATE|os.O_WRONLY, 0644)
	if err != nil {
		fatal("inflight: %v", err)
	}
	fmt.Fprintf(res, "{\"hello\":true,\"inotify\":%v}\n", w.ino)
	sbPhase = func(ph string) { inflF.WriteAt([]byte(fmt.Sprintf("%-6s", ph)), 12) }
	// one executor goroutine; the probes of one session (one vector) share an
	// interpreter as long as it stays healthy, like the lines of a repl session
	type lineRes struct{ kind, shown string }
	req := make(chan sbJob)
	done := make(chan []lineRes, 1)
	// process history: an unsandboxed interpreter is created, set up and used
	// before the first sandboxed one, and again before every 4th session
	useUnsandboxed := func() {
		defer func() { recover() }()
		e := zygo.NewZlisp()
		e.StandardSetup()
		for _, t := range []string{"(def zvhist (+ 1 2))\n", "(defn zvhf [x] (str x))\n", "(zvhf zvhist)\n", "(defined? \"sys\")\n"} {
			sbEvalLine(e, t)
		}
		e.Close()
	}
	if *history {
		useUnsandboxed()
	}
	go func() {
		var env *zygo.Zlisp
		sess, cfg := -1, ""
		nsess := 0
		for j := range req {
			if env == nil || j.Sess < 0 || j.Sess != sess || j.Cfg != cfg {
				if env != nil {
					func() {
						defer func() { recover() }()
						env.Close()
					}()
				}
				nsess++
				if *history && nsess%4 == 0 {
					useUnsandboxed()
				}
				env = sbNewEnv(j.Cfg)
				sess, cfg = j.Sess, j.Cfg
				for _, l := range j.Pre {
					if k, _ := sbEvalLine(env, l+"\n"); k != "val" && k != "nilres" {
						func() {
							defer func() { recover() }()
							env.Clear()
						}()
					}
				}
			}
			var out []lineRes
			for _, l := range j.Lines {
				k, s := sbEvalLine(env, sbExpand(l, *dir)+"\n")
				out = append(out, lineRes{k, s})
				switch k {
				case "err":
					func() {
						defer func() {
							if recover() != nil {
								sess = -1
							}
						}()
						env.Clear() // what the repl does after an error
					}()
				case "panic", "budget":
					sess = -1 // the next probe gets a fresh interpreter
				}
			}
			done <- out
		}
	}()
	timer := time.NewTimer(time.Hour)
	for _, j := range jobs {
		inflF.WriteAt([]byte(fmt.Sprintf("%-12d%-6s", j.K, "eval")), 0)
		so, se := sizeOf(outF), sizeOf(errF)
		req <- j
		var lr []lineRes
		hang := false
		if !timer.Stop() {
			select {
			case <-timer.C:
			default:
			}
		}
		timer.Reset(sbProbeTimeout)
		select {
		case lr = <-done:
		case <-timer.C:
			hang = true
		}
		texts := []string{tail(outF, so), tail(errF, se)}
		out := "val"
		for _, r := range lr {
			texts = append(texts, r.shown)
			out = r.kind
		}
		evs := w.collect(texts...)
		now := append([]string(nil), os.Environ()...)
		sort.Strings(now)
		if strings.Join(now, "\x00") != strings.Join(envSnap, "\x00") {
			evs["envchange"] = true
			os.Clearenv()
			for _, kv := range envSnap {
				if i := strings.IndexByte(kv, '='); i > 0 {
					os.Setenv(kv[:i], kv[i+1:])
				}
			}
		}
		syscall.Chdir(*dir)
		// (this line is the host's answer after the probe: it is still there)
		o := sbObs{K: j.K, Out: out, Events: sortedKeys(evs), Host: "up"}
		if hang {
			o.Out, o.Host = "hang", "stopped"
		}
		b, _ := json.Marshal(o)
		res.Write(append(b, '\n'))
		if hang {
			res.Close()
			os.Exit(97) // the blocked goroutine cannot be stopped: the parent resumes in a new worker
		}
	}
	inflF.Close()
	os.Remove(filepath.Join(*ctl, "inflight"))
	fmt.Fprintf(res, "{\"bye\":true}\n")
	res.Close()
	return 0
}

func sbRunTimeout(cmd *exec.Cmd, d time.Duration) error {
	if err := cmd.Start(); err != nil {
		return err
	}
	ch := make(chan error, 1)
	go func() { ch <- cmd.Wait() }()
	select {
	case err := <-ch:
		return err
	case <-time.After(d):
		cmd.Process.Kill()
		<-ch
		return fmt.Errorf("timeout")
	}
}

// ---------------------------------------------------------------- parent: in-process configurations

type sbRunner struct {
	seed    int64
	self    string
	zygoBin string
	base    string // scratch root
	nbatch  uint64
	inotify bool
	notes   map[string]int
}

func newSbRunner(seed int64, zygoBin string) *sbRunner {
	self, err := os.Executable()
	if err != nil {
		fatal("executable: %v", err)
	}
	base, err := os.MkdirTemp("", "zvsb-")
	if err != nil {
		fatal("mkdtemp: %v", err)
	}
	base, _ = filepath.EvalSymlinks(base)
	return &sbRunner{seed: seed, self: self, zygoBin: zygoBin, base: base, inotify: true, notes: map[string]int{}}
}

func (r *sbRunner) cleanup() { os.RemoveAll(r.base) }

func (r *sbRunner) freshDirs() (dir, ctl string, fsec, esec string) {
	r.nbatch++
	root := filepath.Join(r.base, fmt.Sprintf("b%d", r.nbatch))
	dir = filepath.Join(root, "d")
	ctl = filepath.Join(root, "ctl")
	os.MkdirAll(dir, 0755)
	os.MkdirAll(ctl, 0755)
	fsec, esec = sbSecrets(r.seed, r.nbatch)
	return
}

// runWorker executes jobs in worker subprocesses, resuming after the death of
// a worker; every job gets an observation.
func (r *sbRunner) runWorker(jobs []sbJob) map[int]sbObs {
	got := map[int]sbObs{}
	pending := jobs
	for len(pending) > 0 {
		dir, ctl, fsec, esec := r.freshDirs()
		jp := filepath.Join(ctl, "jobs")
		jf := newWriter(jp)
		for _, j := range pending {
			jf.write(j)
		}
		jf.close()
		rp := filepath.Join(ctl, "res")
		so, _ := os.Create(filepath.Join(ctl, "stdout"))
		se, _ := os.Create(filepath.Join(ctl, "stderr"))
		wargs := []string{"sandbox-worker", "-jobs", jp, "-res", rp, "-ctl", ctl, "-dir", dir, "-fsecret", fsec, "-esecret", esec}
		if pending[0].Hist {
			wargs = append(wargs, "-history")
		}
		cmd := exec.Command(r.self, wargs...)
		cmd.Dir = dir
		cmd.Env = sbChildEnv(dir, esec)
		cmd.Stdout, cmd.Stderr = so, se
		devnull, _ := os.Open(os.DevNull)
		cmd.Stdin = devnull
		err := sbRunTimeout(cmd, time.Duration(len(pending))*sbProbeTimeout/4+60*time.Second)
		if devnull != nil {
			devnull.Close()
		}
		so.Close()
		se.Close()
		bye := false
		if _, e := os.Stat(rp); e == nil {
			readLines(rp, func(line []byte) {
				var o struct {
					sbObs
					Hello   bool `json:"hello"`
					Bye     bool `json:"bye"`
					Inotify bool `json:"inotify"`
				}
				if json.Unmarshal(line, &o) != nil {
					return
				}
				switch {
				case o.Hello:
					if !o.Inotify {
						r.inotify = false
					}
				case o.Bye:
					bye = true
				default:
					got[o.K] = o.sbObs
				}
			})
		}
		if bye {
			os.RemoveAll(filepath.Dir(dir))
			break
		}
		// the worker ended before its last job: the job in flight is the cause
		infl, phase := -1, ""
		if b, e := os.ReadFile(filepath.Join(ctl, "inflight")); e == nil {
			if f := strings.Fields(string(b)); len(f) > 0 {
				infl, _ = strconv.Atoi(f[0])
				if len(f) > 1 {
					phase = f[1]
				}
			}
		}
		at := -1
		for i, j := range pending {
			if j.K == infl {
				at = i
			}
		}
		if at < 0 {
			fatal("sandbox worker failed before its first probe: %v\n%s", err, sbReadTail(filepath.Join(ctl, "stderr")))
		}
		if _, have := got[infl]; !have {
			stderr := sbReadHead(filepath.Join(ctl, "stderr"))
			o := sbObs{K: infl, Events: []string{}}
			w := sbNewWatch(dir, fsec, esec)
			evs := w.collect(stderr, sbReadTail(filepath.Join(ctl, "stdout")))
			w.close()
			var ev string
			o.Out, o.Host, ev, o.Note = sbDeath(stderr, sbSignaled(err), err != nil && err.Error() == "timeout", fmt.Sprint(err))
			if ev != "" {
				evs[ev] = true
			}
			if phase == "show" && o.Note != "" {
				o.Note = "(while the host printed the result) " + o.Note
			}
			o.Events = sortedKeys(evs)
			got[infl] = o
		}
		pending = pending[at+1:]
		os.RemoveAll(filepath.Dir(dir))
	}
	return got
}

func sbSignaled(err error) bool {
	if ee, ok := err.(*exec.ExitError); ok && ee.ProcessState != nil {
		if ws, ok := ee.ProcessState.Sys().(syscall.WaitStatus); ok {
			return ws.Signaled()
		}
	}
	return false
}

// sbReadHead: the whole file up to 4 MB, of a longer one the first 3 MB and the last MB (the report of the
// Go runtime on a fatal error starts with its cause and can be long).
func sbReadHead(p string) string {
	f, err := os.Open(p)
	if err != nil {
		return ""
	}
	defer f.Close()
	fi, err := f.Stat()
	if err != nil {
		return ""
	}
	if fi.Size() <= 4<<20 {
		b, _ := io.ReadAll(f)
		return string(b)
	}
	b := make([]byte, 3<<20)
	n, _ := io.ReadFull(f, b)
	return string(b[:n]) + "\n...\n" + sbReadTail(p)
}

func sbReadTail(p string) string {
	b, err := os.ReadFile(p)
	if err != nil {
		return ""
	}
	if len(b) > 1<<20 {
		b = b[len(b)-(1<<20):]
	}
	return string(b)
}

// ---------------------------------------------------------------- parent: the real binary

// sbRepl drives one `zygo -sandbox -quiet -no-liner` process line by line:
// the repl handles one line before it reads the next, so the output and the
// file-system events between two sentinels belong to the probe between them.
type sbRepl struct {
	cmd    *exec.Cmd
	in     *os.File
	chunks chan []byte
	buf    []byte
	dead   bool
	dir    string
	root   string
	w      *sbWatch
}

func (r *sbRunner) startRepl() *sbRepl {
	dir, _, fsec, esec := r.freshDirs()
	p := &sbRepl{dir: dir, root: filepath.Dir(dir), chunks: make(chan []byte, 64)}
	p.w = sbNewWatch(dir, fsec, esec)
	if !p.w.ino {
		r.inotify = false
	}
	inR, inW, err := os.Pipe()
	if err != nil {
		fatal("pipe: %v", err)
	}
	outR, outW, err := os.Pipe()
	if err != nil {
		fatal("pipe: %v", err)
	}
	p.cmd = exec.Command(r.zygoBin, "-sandbox", "-quiet", "-no-liner")
	p.cmd.Dir = dir
	p.cmd.Env = append(sbChildEnv(dir, esec), "ZV_MAXSTACK="+strconv.Itoa(sbMaxStack))
	p.cmd.Stdin, p.cmd.Stdout, p.cmd.Stderr = inR, outW, outW
	if err := p.cmd.Start(); err != nil {
		fatal("cannot start %s: %v", r.zygoBin, err)
	}
	inR.Close()
	outW.Close()
	p.in = inW
	go func() {
		for {
			b := make([]byte, 32*1024)
			n, err := outR.Read(b)
			if n > 0 {
				p.chunks <- b[:n]
			}
			if err != nil {
				close(p.chunks)
				outR.Close()
				return
			}
		}
	}()
	return p
}

// until reads the output up to and including the line that contains mark;
// ok is false when the process ended or stayed silent for too long.
func (p *sbRepl) until(mark string, d time.Duration) (text string, ok bool, timedOut bool) {
	timer := time.NewTimer(d)
	defer timer.Stop()
	for {
		if i := bytes.Index(p.buf, []byte(mark)); i >= 0 {
			if nl := bytes.IndexByte(p.buf[i:], '\n'); nl >= 0 {
				text = string(p.buf[:i+nl+1])
				p.buf = p.buf[i+nl+1:]
				return text, true, false
			}
		}
		select {
		case b, more := <-p.chunks:
			if !more {
				p.dead = true
				text = string(p.buf)
				p.buf = nil
				return text, false, false
			}
			p.buf = append(p.buf, b...)
		case <-timer.C:
			text = string(p.buf)
			p.buf = nil
			return text, false, true
		}
	}
}

func (p *sbRepl) stop() (exit string) {
	p.in.Close()
	done := make(chan error, 1)
	go func() { done <- p.cmd.Wait() }()
	select {
	case err := <-done:
		exit = fmt.Sprint(err)
	case <-time.After(10 * time.Second):
		p.cmd.Process.Kill()
		<-done
		exit = "killed"
	}
	for range p.chunks {
	}
	p.w.close()
	os.RemoveAll(p.root)
	return exit
}

// runCmd executes jobs on the real binary; the probes of one session share a
// process, a new process is started every sbCmdSessions sessions, after the
// death of a process and when the repl no longer echoes values.
const sbCmdSessions = 40

func (r *sbRunner) runCmd(jobs []sbJob) map[int]sbObs {
	obs := map[int]sbObs{}
	var p *sbRepl
	sessions := 0
	lastSess := -2
	preKey := ""
	for _, j := range jobs {
		if p != nil && j.Sess != lastSess {
			sessions++
			if sessions >= sbCmdSessions || j.Sess < 0 {
				p.stop()
				p = nil
			}
		}
		// the script's own definitions stay in the repl: sessions with other definitions get another process
		if key := strings.Join(j.Pre, "\n"); p != nil && key != preKey {
			p.stop()
			p = nil
		}
		lastSess = j.Sess
		if p == nil {
			p = r.startRepl()
			sessions = 0
			preKey = strings.Join(j.Pre, "\n")
			if len(j.Pre) > 0 {
				p.in.Write([]byte(preKey + "\n(println \"@@ZVP\")\n"))
				if _, ok, _ := p.until("@@ZVP", 3*sbProbeTimeout+time.Duration(len(j.Pre))*time.Second); !ok {
					fatal("zygo -sandbox did not get through the prelude definitions")
				}
			}
		}
		var in bytes.Buffer
		fmt.Fprintf(&in, "(println \"@@ZVB %d\")\n", j.K)
		for _, l := range j.Lines {
			in.WriteString(sbExpand(l, p.dir) + "\n")
		}
		fmt.Fprintf(&in, "(println \"@@ZVE %d\")\n(+ 40 2)\n(println \"@@ZVF %d\")\n", j.K, j.K)
		p.in.Write(in.Bytes())
		seg, ok, timedOut := p.until(fmt.Sprintf("@@ZVE %d", j.K), sbProbeTimeout+time.Duration(len(j.Lines))*time.Second)
		o := sbObs{K: j.K, Out: "val", Events: []string{}, Host: "up"}
		evs := map[string]bool{}
		if ok {
			// (the sentinel after the probe was evaluated: the host is still there and answers)
			if i := strings.Index(seg, fmt.Sprintf("@@ZVB %d", j.K)); i >= 0 {
				seg = seg[i:]
			}
			if strings.Contains(seg, "error in ") || strings.Contains(seg, "Error") {
				o.Out = "err"
			}
			evs = p.w.collect(seg)
			chk, ok2, _ := p.until(fmt.Sprintf("@@ZVF %d", j.K), sbProbeTimeout)
			if !ok2 || !strings.Contains(chk, "42") {
				// the repl is no longer in its normal state (echo off, ...): not an event; start afresh
				r.notes["cmd repl restarted because its state was changed by a probe"]++
				o.Note = "repl state changed"
				p.stop()
				p = nil
			}
		} else {
			// the process ended (or hung) during this probe
			for k, v := range p.w.collect(seg) {
				evs[k] = v
			}
			status := ""
			if timedOut {
				p.cmd.Process.Kill()
				p.stop()
			} else {
				status = p.stop()
			}
			var ev string
			o.Out, o.Host, ev, o.Note = sbDeath(seg, strings.HasPrefix(status, "signal:"), timedOut, status)
			if ev != "" {
				evs[ev] = true
			}
			p = nil
		}
		o.Events = sortedKeys(evs)
		obs[j.K] = o
	}
	if p != nil {
		p.stop()
	}
	return obs
}

// ---------------------------------------------------------------- cases

type sbVector struct {
	ID    string     `json:"id"`
	Kind  string     `json:"kind"` // probe | control | prog
	Cfg   string     `json:"cfg"`
	Names []string   `json:"names"`
	Route string     `json:"route"`
	Progs [][]string `json:"progs,omitempty"` // kind prog: the lines of each program
	// Pre: the sandboxed script first binds itself every name of Shadow (the names callable in the
	// unsandboxed configuration and absent here): "" none | def | defn | defmac (a name cannot be a macro and a global at once).
	// The routes eval and sym put the definitions in the SAME text as the probe, the others in earlier evaluations.
	Pre    string   `json:"pre"`
	Shadow []string `json:"shadow"`
	// Hist: "" the sandboxed interpreter is the first of its process | "after": an unsandboxed
	// interpreter (NewZlisp + StandardSetup) was created and used before it, and again between sessions.
	Hist string `json:"hist"`
}

type sbEv struct {
	Shape  string   `json:"shape"`
	Out    string   `json:"out"`
	Events []string `json:"events"`
	Host   string   `json:"host"` // the host process after the probe: up | exit | fatal | stopped | starved
	Text   string   `json:"text,omitempty"`
	Detail string   `json:"detail,omitempty"`
}

type sbCase struct {
	ID      string   `json:"id"`
	Kind    string   `json:"kind"`
	Cfg     string   `json:"cfg"`
	Names   []string `json:"names"`
	Route   string   `json:"route"`
	Pre     string   `json:"pre"`
	Shadow  []string `json:"shadow"`
	Hist    string   `json:"hist"`
	Inotify bool     `json:"inotify"`
	Evs     []sbEv   `json:"evs"`
}

type sbProbe struct {
	vec   int
	shape string
	lines []string
}

func unionEvents(a, b []string) []string {
	m := map[string]bool{}
	for _, x := range a {
		m[x] = true
	}
	for _, x := range b {
		m[x] = true
	}
	return sortedKeys(m)
}

// execute runs the probes of the vectors and assembles the cases.
func (r *sbRunner) execute(vecs []sbVector, alone bool, w *ndWriter) {
	var probes []sbProbe
	for vi, v := range vecs {
		if v.Kind == "prog" {
			for pi, lines := range v.Progs {
				probes = append(probes, sbProbe{vec: vi, shape: fmt.Sprintf("p%d", pi), lines: lines})
			}
			continue
		}
		name := ""
		if len(v.Names) > 0 {
			name = v.Names[0]
		}
		for _, s := range sbShapes {
			if s.value && (v.Pre != "" || v.Hist != "" || v.Route != "direct") {
				continue
			}
			lines := sbRender(name, v.Route, s.args, strconv.Itoa(vi))
			if v.Pre != "" && (v.Route == "eval" || v.Route == "sym") {
				// the definitions and the probe in ONE text: bound at run time, before eval compiles the form
				lines = []string{strings.Join(append(sbPrelude(v.Pre, v.Shadow, true), lines...), " ")}
			}
			probes = append(probes, sbProbe{vec: vi, shape: s.name, lines: lines})
		}
	}
	var inproc, viaCmd []sbJob
	for k, p := range probes {
		v := vecs[p.vec]
		j := sbJob{K: k, Sess: p.vec, Cfg: v.Cfg, Lines: p.lines, Hist: v.Hist == "after"}
		if v.Pre != "" && v.Kind != "prog" && !(v.Route == "eval" || v.Route == "sym") {
			j.Pre = sbPrelude(v.Pre, v.Shadow, false)
		}
		if alone {
			j.Sess = -1
		}
		if j.Cfg == "cmd" {
			viaCmd = append(viaCmd, j)
		} else {
			inproc = append(inproc, j)
		}
	}
	obs := map[int]sbObs{}
	detail := map[int]string{}
	batch := func(jobs []sbJob, size int, run func([]sbJob) map[int]sbObs) {
		if alone {
			size = 1
		}
		for i := 0; i < len(jobs); i += size {
			j := i + size
			if j > len(jobs) {
				j = len(jobs)
			}
			for k, o := range run(jobs[i:j]) {
				obs[k] = o
			}
		}
	}
	var first, after []sbJob
	for _, j := range inproc {
		if j.Hist {
			after = append(after, j)
		} else {
			first = append(first, j)
		}
	}
	batch(first, 2400, r.runWorker)
	batch(after, 2400, r.runWorker)
	sort.SliceStable(viaCmd, func(a, b int) bool { return strings.Join(viaCmd[a].Pre, "\n") < strings.Join(viaCmd[b].Pre, "\n") })
	if len(viaCmd) > 0 && r.zygoBin == "" {
		fatal("vectors of the cmd configuration need -zygo BIN")
	}
	batch(viaCmd, 1<<30, r.runCmd)
	// every probe of an in-process configuration that raised an event in a batch runs again, alone
	if !alone {
		for _, j := range append(append([]sbJob(nil), inproc...), viaCmd...) {
			o, ok := obs[j.K]
			if !ok || len(o.Events) == 0 || j.Cfg == "full" {
				continue // (the control configuration is expected to raise events)
			}
			if len(o.Events) == 1 && o.Events[0] == "fatal" {
				continue // (the end of a host is attributed to the probe in flight: nothing a neighbour in the batch can have caused)
			}
			j.Sess = -1
			var single sbObs
			if j.Cfg == "cmd" {
				single = r.runCmd([]sbJob{j})[j.K]
			} else {
				single = r.runWorker([]sbJob{j})[j.K]
			}
			detail[j.K] = fmt.Sprintf("batch=%v alone=%v", o.Events, single.Events)
			o.Events = unionEvents(o.Events, single.Events)
			if single.Out == "exit" {
				o.Out = "exit"
			}
			for _, e := range o.Events {
				if (e == "exit" || e == "fatal") && o.Host != "exit" {
					o.Host = e
				}
			}
			obs[j.K] = o
		}
	}
	cases := make([]sbCase, len(vecs))
	for vi, v := range vecs {
		cases[vi] = sbCase{ID: v.ID, Kind: v.Kind, Cfg: v.Cfg, Names: v.Names, Route: v.Route, Pre: v.Pre, Shadow: v.Shadow, Hist: v.Hist, Inotify: r.inotify, Evs: []sbEv{}}
		if cases[vi].Shadow == nil {
			cases[vi].Shadow = []string{}
		}
		if cases[vi].Names == nil {
			cases[vi].Names = []string{}
		}
	}
	for k, p := range probes {
		o, ok := obs[k]
		if !ok {
			fatal("probe %d of %s got no observation", k, vecs[p.vec].ID)
		}
		ev := sbEv{Shape: p.shape, Out: o.Out, Events: o.Events, Host: o.Host}
		if ev.Host == "" {
			fatal("probe %d of %s has no record of the host after it", k, vecs[p.vec].ID)
		}
		if ev.Events == nil {
			ev.Events = []string{}
		}
		ev.Text = strings.Join(p.lines, "\n")
		ev.Detail = detail[k]
		if o.Note != "" && (o.Out == "crash" || o.Out == "exit") {
			ev.Detail = strings.TrimSpace(ev.Detail + " " + o.Note)
		}
		cases[p.vec].Evs = append(cases[p.vec].Evs, ev)
	}
	for i := range cases {
		cases[i].Inotify = r.inotify
		w.write(cases[i])
	}
}

// ---------------------------------------------------------------- grammar-generated programs

type sbGen struct {
	r      *rng
	names  []sbName
	n      int        // counter for fresh helper names
	tag    string     // makes the helper names of one program its own
	shadow [][]string // per configuration: names callable unsandboxed and not there
}

func (g *sbGen) fresh(p string) string {
	g.n++
	return fmt.Sprintf("%s%s%d", p, g.tag, g.n)
}

// program returns the lines of one program and the universe names it mentions.
func (g *sbGen) program(ci int) ([]string, []string) {
	r := g.r
	// callee: prefer names that are callable in the configuration
	var nm sbName
	for try := 0; try < 8; try++ {
		nm = g.names[r.intn(len(g.names))]
		if nm.Kind[ci] != "unbound" || nm.Mac[ci] || nm.Special {
			break
		}
	}
	used := []string{nm.N}
	sh := sbShapes[r.intn(len(sbShapes))]
	a := sbJoin(sh.args, false)
	aq := sbJoin(sh.args, true)
	var pre []string
	var form string
	switch r.intn(9) {
	case 0, 1:
		form = "(" + nm.N + a + ")"
	case 2:
		x := g.fresh("zva")
		pre = append(pre, "(def "+x+" "+nm.N+")")
		form = "(" + x + a + ")"
	case 3:
		x, y := g.fresh("zva"), g.fresh("zvb")
		pre = append(pre, "(def "+x+" "+nm.N+")", "(def "+y+" "+x+")")
		form = "(" + y + a + ")"
	case 4:
		h := g.fresh("zvh")
		pre = append(pre, "(def "+h+" (hash f: "+nm.N+"))")
		form = "((hget " + h + " f:)" + aq + ")"
	case 5:
		form = "((aget [" + nm.N + "] 0)" + aq + ")"
	case 6:
		f := g.fresh("zvw")
		pre = append(pre, "(defn "+f+" [& r] (apply "+nm.N+" r))")
		form = "(" + f + aq + ")"
	case 7:
		m := g.fresh("zvma")
		pre = append(pre, "(defmac "+m+" [f & r] ^(~f ~@r))")
		form = "(" + m + " " + nm.N + a + ")"
	case 8:
		half := len(nm.N) / 2
		form = "(eval (cons (str2sym (concat " + strconv.Quote(nm.N[:half]) + " " + strconv.Quote(nm.N[half:]) + ")) (quote (" + strings.TrimPrefix(a, " ") + "))))"
	}
	depth := 1 + r.intn(3)
	for d := 0; d < depth; d++ {
		switch r.intn(16) {
		case 0:
			form = "(eval (quote " + form + "))"
		case 1:
			form = "((fn [] " + form + "))"
		case 2:
			form = "(let [zvx " + form + "] zvx)"
		case 3:
			form = "(begin 1 " + form + ")"
		case 4:
			form = "(cond true " + form + " 0)"
		case 5:
			form = "(and true " + form + ")"
		case 6:
			form = "(infix [" + form + "])"
		case 7:
			m := g.fresh("zvm")
			pre = append(pre, "(defmac "+m+" [] ^"+form+")")
			form = "(" + m + ")"
		case 8:
			form = "(newScope " + form + ")"
		case 9:
			f := g.fresh("zvf")
			pre = append(pre, "(defn "+f+" [] "+form+")")
			form = "(" + f + ")"
		case 10:
			form = "(map (fn [zvi] " + form + ") [1])"
		case 11:
			form = "(eval (read " + strconv.Quote(form) + "))"
		case 12:
			form = "(for [(def zvi 0) (< zvi 1) (def zvi (+ zvi 1))] " + form + ")"
		case 13:
			form = "(letseq [zvy 1 zvx " + form + "] zvx)"
		case 14: // run inside a duplicate: body of a macro that is not a template
			m := g.fresh("zvr")
			pre = append(pre, "(defmac "+m+" [] (str "+form+"))")
			form = "(" + m + ")"
		case 15: // evaluated inside a duplicate by the expectError builder
			form = "(expectError \"zvnone\" " + form + ")"
		}
	}
	// a quarter of the programs first bind the names the sandbox lacks themselves:
	// in earlier evaluations, or in the same text as a form that is compiled at run time
	if len(g.shadow[ci]) > 0 && r.intn(4) == 0 {
		kind := []string{"def", "defn", "defmac"}[r.intn(3)]
		if r.bool() {
			pre = append(sbPrelude(kind, g.shadow[ci], false), pre...)
		} else {
			form = strings.Join(sbPrelude(kind, g.shadow[ci], true), " ") + " (eval (quote " + form + "))"
		}
	}
	return append(pre, form), used
}

// ---------------------------------------------------------------- main

func init() {
	register("sandbox-worker", "(internal) executes sandbox probes in a throw-away directory", sbWorker)
	register("sandbox", "C08: probes of every bound name x route x argument shape in sandboxed configurations, canary effects", func(args []string) int {
		var dump bool
		var zygoBin, repo string
		var progs int
		var universe string
		c := commonFlags("sandbox", args, func(fs *flag.FlagSet) {
			fs.BoolVar(&dump, "dump", false, "write the universe of names to -out")
			fs.StringVar(&zygoBin, "zygo", "", "the cmd/zygo binary built from the repository")
			fs.StringVar(&repo, "repo", "", "repository root (default $VERIF_REPO or /repo)")
			fs.StringVar(&universe, "universe", "", "universe file (of -dump) for the grammar-generated programs")
			fs.IntVar(&progs, "progs", -1, "number of grammar-generated programs per sandboxed configuration (-1: tier default)")
		})
		if repo == "" {
			repo = os.Getenv("VERIF_REPO")
		}
		if repo == "" {
			repo = "/repo"
		}
		runtime.GOMAXPROCS(4) // the work happens in the children
		if dump {
			return sbDump(c, zygoBin, repo)
		}
		r := newSbRunner(c.seed, zygoBin)
		defer r.cleanup()
		w := newWriter(c.out)
		defer w.close()
		if c.replay != "" {
			var vecs []sbVector
			readLines(c.replay, func(line []byte) {
				var in sbCase
				if err := json.Unmarshal(line, &in); err != nil {
					fatal("bad replay file: %v", err)
				}
				v := sbVector{ID: in.ID, Kind: in.Kind, Cfg: in.Cfg, Names: in.Names, Route: in.Route, Pre: in.Pre, Shadow: in.Shadow, Hist: in.Hist}
				if in.Kind == "prog" {
					for _, e := range in.Evs {
						v.Progs = append(v.Progs, strings.Split(e.Text, "\n"))
					}
				}
				vecs = append(vecs, v)
			})
			r.execute(vecs, true, w)
			return 0
		}
		if c.in == "" {
			fatal("sandbox: -in VECTORS (from MCSandbox.tla) or -dump or -replay")
		}
		var vecs []sbVector
		idx := 0
		readLines(c.in, func(line []byte) {
			var v sbVector
			if err := json.Unmarshal(line, &v); err != nil {
				fatal("bad vector: %v", err)
			}
			if v.Kind == "universe" {
				return
			}
			if c.mine(idx) {
				vecs = append(vecs, v)
			}
			idx++
		})
		// grammar-generated programs over the universe of -universe
		if progs < 0 {
			progs = 1000
			if c.thorough() {
				progs = 40000
			}
		}
		if uni := universe; uni != "" && progs > 0 {
			var u sbUniverse
			readLines(uni, func(line []byte) {
				if err := json.Unmarshal(line, &u); err != nil {
					fatal("bad universe: %v", err)
				}
			})
			callable := func(n sbName, ci int) bool { return n.Special || n.Mac[ci] || n.Kind[ci] != "unbound" }
			shadow := make([][]string, len(sbCfgs))
			for ci := range sbCfgs {
				for _, n := range u.Names {
					if callable(n, 3) && !callable(n, ci) {
						shadow[ci] = append(shadow[ci], n.N)
					}
				}
			}
			for ci, cfg := range sbCfgs {
				if cfg == "full" || (cfg == "cmd" && zygoBin == "") {
					continue
				}
				// texts nested without bound as program text
				for i, text := range sbDeepProgs {
					if c.mine(idx) {
						vecs = append(vecs, sbVector{ID: fmt.Sprintf("deep-%s-%d", cfg, i), Kind: "prog", Cfg: cfg, Names: []string{"(text)"}, Route: "prog", Progs: [][]string{{text}}})
					}
					idx++
				}
				for i := 0; i < progs; i++ {
					if !c.mine(idx) {
						idx++
						continue
					}
					idx++
					g := &sbGen{r: newRng(c.seed, uint64(ci)<<32|uint64(i)), names: u.Names, tag: fmt.Sprintf("%dx", i), shadow: shadow}
					lines, used := g.program(ci)
					vecs = append(vecs, sbVector{ID: fmt.Sprintf("g%d-%s-%d", c.seed, cfg, i), Kind: "prog", Cfg: cfg, Names: used, Route: "prog", Progs: [][]string{lines}})
				}
			}
		}
		r.execute(vecs, false, w)
		for k, n := range r.notes {
			fmt.Fprintf(os.Stderr, "zv sandbox: %s: %d\n", k, n)
		}
		return 0
	})
}
