package main

import (
	"encoding/json"
	"fmt"
	"os"

	zygo "github.com/glycerine/zygomys/v9/zygo"
)

// zv eval [-sandbox] [-std] TEXT...: evaluate each TEXT on one interpreter (debug aid).
func init() {
	register("eval", "evaluate texts on one interpreter and print projections (debug aid)", func(args []string) int {
		var env *zygo.Zlisp
		sandbox := false
		std := true
		for len(args) > 0 && (args[0] == "-sandbox" || args[0] == "-nostd") {
			if args[0] == "-sandbox" {
				sandbox = true
			} else {
				std = false
			}
			args = args[1:]
		}
		if sandbox {
			env = zygo.NewZlispSandbox()
		} else {
			env = zygo.NewZlisp()
		}
		if std {
			env.StandardSetup()
		}
		for _, t := range args {
			if t == "-" {
				b, _ := os.ReadFile("/dev/stdin")
				t = string(b)
			}
			o := evalSafe(env, t)
			b, _ := json.Marshal(projOutcome(env, o))
			fmt.Printf("%s\n  => %s depths=%v", t, b, depthsOf(env))
			if o.Kind == "val" {
				fmt.Printf(" printed=%s", o.Val.SexpString(nil))
			}
			if o.Err != "" {
				fmt.Printf(" err=%q", trunc(o.Err, 300))
			}
			fmt.Println()
		}
		return 0
	})
}
