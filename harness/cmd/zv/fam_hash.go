package main

// Family "hash" (C14): histories of script-level hash operations on a real
// SexpHash, every result recorded; validated by TLC against HashMap.tla
// (spec/HashTrace.tla).

import (
	"bytes"
	"encoding/json"
	"fmt"
	"hash/fnv"
	"strconv"
	"strings"

	zygo "github.com/glycerine/zygomys/v9/zygo"
)

type hkey struct {
	src  string // script spelling
	proj any    // projection
	name string // json name if sym/str
}

type hashCase struct {
	ID  string `json:"id"`
	Evs []any  `json:"evs"`
}

type hashDriver struct {
	env    *zygo.Zlisp
	traced [][]zygo.Sexp
	keys   []hkey
}

func newHashDriver() *hashDriver {
	d := &hashDriver{}
	d.env = zygo.NewZlisp()
	d.env.StandardSetup()
	d.env.AddFunction("trace", func(env *zygo.Zlisp, name string, args []zygo.Sexp) (zygo.Sexp, error) {
		cp := append([]zygo.Sexp(nil), args...)
		d.traced = append(d.traced, cp)
		return zygo.SexpNull, nil
	})
	// key universe: every supported key kind, aliases and colliding codes
	symA := d.env.MakeSymbol("a").Number()
	h := fnv.New32()
	h.Write([]byte("s"))
	fnvS := int(h.Sum32())
	d.keys = []hkey{
		{"a:", []any{"sym", "a"}, "a"},
		{"b:", []any{"sym", "b"}, "b"},
		{`"s"`, []any{"str", "s"}, "s"},
		{"7", []any{"int", 7}, ""},
		{"'c'", []any{"chr", 99}, ""},
		{"99", []any{"int", 99}, ""},
		{"[7]", []any{"arr", []any{[]any{"int", 7}}}, ""},
		{strconv.Itoa(symA), []any{"int", symA}, ""},   // same bucket as the symbol a
		{strconv.Itoa(fnvS), projInt(int64(fnvS)), ""}, // same bucket as the string "s"
		{`"t"`, []any{"str", "t"}, "t"},
		{"c:", []any{"sym", "c"}, "c"},
		{"-1", []any{"int", -1}, ""},
		// 12.. spellings at the edge of the key kinds: a one-element array around a one-element
		// array (the key inside, like [7]); a dotted symbol (a symbol by type; hget reads it as a path,
		// so the hash may refuse it -- "dsym" tells the spec which reading applies)
		{"[[7]]", []any{"arr", []any{[]any{"arr", []any{[]any{"int", 7}}}}}, ""},
		{"[['c']]", []any{"arr", []any{[]any{"arr", []any{[]any{"chr", 99}}}}}, ""},
		{"(quote a.b)", []any{"dsym", "a.b"}, "a.b"},
		{"(quote x.y)", []any{"dsym", "x.y"}, "x.y"},
	}
	return d
}

var hashVals = []struct {
	src  string
	proj any
}{{"1", []any{"int", 1}}, {"2", []any{"int", 2}}, {`"x"`, []any{"str", "x"}}}

type hop struct {
	op string
	k  int // key index
	v  int // value index
	i  int
	hv string // iteration forms: the name under which the program holds the hash ("" = h)
}

// the names under which every case holds its hash (one object, see fresh): the range macro and the
// infix loop must present the content whatever the variable is called
var hashNames = []string{"h", "n", "i"}

func (d *hashDriver) run(o hop) map[string]any {
	ev := map[string]any{"op": o.op}
	var text string
	switch o.op {
	case "hset":
		text = fmt.Sprintf("(hset h %s %s)", d.keys[o.k].src, hashVals[o.v].src)
		ev["k"], ev["v"] = d.keys[o.k].proj, hashVals[o.v].proj
	case "hdel":
		text = fmt.Sprintf("(hdel h %s)", d.keys[o.k].src)
		ev["k"] = d.keys[o.k].proj
	case "hget":
		text = fmt.Sprintf("(hget h %s)", d.keys[o.k].src)
		ev["k"] = d.keys[o.k].proj
	case "hgetd":
		text = fmt.Sprintf("(hget h %s %s)", d.keys[o.k].src, hashVals[o.v].src)
		ev["k"], ev["v"] = d.keys[o.k].proj, hashVals[o.v].proj
	case "keys":
		text = "(keys h)"
	// a key list kept across later operations: a value of its own
	case "keep":
		text = "(hset kb (quote k) (keys h))"
	case "kept":
		text = "(hget kb (quote k))"
	case "keptset":
		text = "(aset (hget kb (quote k)) 0 (quote zz))"
	case "keptwalk":
		text = "(for [(def i 0) (< i (len (hget kb (quote k)))) (def i (+ i 1))] (hdel h (aget (hget kb (quote k)) i)))"
	case "len":
		text = "(len h)"
	case "hpair":
		text = fmt.Sprintf("(hpair h %d)", o.i)
		ev["i"] = o.i
	// the three iteration forms, over the hash under the name hv
	case "range":
		text = fmt.Sprintf("(range k v %s (trace k v))", hvName(o.hv))
		ev["hv"] = hvName(o.hv)
	case "rangego":
		text = fmt.Sprintf("{for k, v := range %s { (trace k v) }}", hvName(o.hv))
		ev["hv"] = hvName(o.hv)
	case "rangego1":
		text = fmt.Sprintf("{for k := range %s { (trace k) }}", hvName(o.hv))
		ev["hv"] = hvName(o.hv)
	case "str":
		text = "(str h)"
	case "json":
		text = "(json h)"
	}
	ev["text"] = text
	d.traced = nil
	out := evalSafe(d.env, text)
	switch {
	case out.Kind != "val":
		ev["res"] = projOutcome(d.env, out)
		// an iteration that failed: what it presented before it did
		if o.op == "range" || o.op == "rangego" || o.op == "rangego1" {
			seen := []any{}
			for _, t := range d.traced {
				switch {
				case len(t) == 2 && o.op != "rangego1":
					seen = append(seen, []any{proj(d.env, t[0], 0), proj(d.env, t[1], 0)})
				case len(t) == 1 && o.op == "rangego1":
					seen = append(seen, proj(d.env, t[0], 0))
				}
			}
			ev["seen"] = seen
		}
	case o.op == "range" || o.op == "rangego":
		pairs := []any{}
		for _, t := range d.traced {
			if len(t) == 2 {
				pairs = append(pairs, []any{proj(d.env, t[0], 0), proj(d.env, t[1], 0)})
			}
		}
		ev["res"] = []any{"pairs", pairs}
	case o.op == "rangego1":
		ks := []any{}
		for _, t := range d.traced {
			if len(t) == 1 {
				ks = append(ks, proj(d.env, t[0], 0))
			}
		}
		ev["res"] = []any{"keyseq", ks}
	case o.op == "str":
		s, ok := out.Val.(*zygo.SexpStr)
		if !ok {
			ev["res"] = []any{"unparsed", "not a string"}
		} else {
			ev["res"] = parseHashStr(s.S)
			ev["raw"] = s.S
		}
	case o.op == "json":
		r, ok := out.Val.(*zygo.SexpRaw)
		if !ok {
			ev["res"] = []any{"unparsed", "not raw"}
		} else {
			ev["res"] = d.parseHashJson(r.Val)
			ev["raw"] = string(r.Val)
		}
	default:
		ev["res"] = proj(d.env, out.Val, 0)
	}
	return ev
}

func hvName(hv string) string {
	if hv == "" {
		return "h"
	}
	return hv
}

func atomFromText(t string) (any, bool) {
	switch {
	case len(t) >= 2 && t[0] == '"' && t[len(t)-1] == '"':
		return []any{"str", t[1 : len(t)-1]}, true
	case len(t) >= 3 && t[0] == '\'' && t[len(t)-1] == '\'':
		r := []rune(t[1 : len(t)-1])
		if len(r) == 1 {
			return []any{"chr", int(r[0])}, true
		}
		return nil, false
	}
	if n, err := strconv.ParseInt(t, 10, 64); err == nil {
		return projInt(n), true
	}
	if t == "" || strings.ContainsAny(t, "{}()[] ") {
		return nil, false
	}
	return []any{"sym", t}, true
}

// parseHashStr reads the printed form {k:v k:v} back into ordered pairs.
func parseHashStr(s string) any {
	if len(s) < 2 || s[0] != '{' || s[len(s)-1] != '}' {
		return []any{"unparsed", s}
	}
	body := strings.TrimSpace(s[1 : len(s)-1])
	pairs := []any{}
	if body == "" {
		return []any{"pairs", pairs}
	}
	for _, tok := range strings.Split(body, " ") {
		i := strings.LastIndex(tok, ":")
		if i <= 0 {
			return []any{"unparsed", s}
		}
		k, ok1 := atomFromText(tok[:i])
		v, ok2 := atomFromText(tok[i+1:])
		if !ok1 || !ok2 {
			return []any{"unparsed", s}
		}
		pairs = append(pairs, []any{k, v})
	}
	return []any{"pairs", pairs}
}

// parseHashJson reads the JSON encoding with a standard decoder, keeping the
// member order; the reserved members Atype/zKeyOrder must be consistent.
func (d *hashDriver) parseHashJson(b []byte) any {
	dec := json.NewDecoder(bytes.NewReader(b))
	dec.UseNumber()
	tok, err := dec.Token()
	if err != nil || tok != json.Delim('{') {
		return []any{"unparsed", string(b)}
	}
	pairs := []any{}
	var order []string
	var names []string
	for dec.More() {
		kt, err := dec.Token()
		if err != nil {
			return []any{"unparsed", string(b)}
		}
		name, _ := kt.(string)
		var raw json.RawMessage
		if err := dec.Decode(&raw); err != nil {
			return []any{"unparsed", string(b)}
		}
		switch name {
		case "Atype":
			continue
		case "zKeyOrder":
			if json.Unmarshal(raw, &order) != nil {
				return []any{"unparsed", string(b)}
			}
			continue
		}
		var key any
		for _, k := range d.keys {
			if k.name == name && k.name != "" {
				key = k.proj
			}
		}
		if key == nil {
			return []any{"unparsed", string(b)}
		}
		var v any
		var num json.Number
		var str string
		switch {
		case json.Unmarshal(raw, &str) == nil:
			v = []any{"str", str}
		case json.Unmarshal(raw, &num) == nil:
			n, err := num.Int64()
			if err != nil {
				return []any{"unparsed", string(b)}
			}
			v = projInt(n)
		default:
			return []any{"unparsed", string(b)}
		}
		names = append(names, name)
		pairs = append(pairs, []any{key, v})
	}
	if _, err := dec.Token(); err != nil {
		return []any{"unparsed", string(b)}
	}
	if order != nil {
		if len(order) != len(names) {
			return []any{"badorder", string(b)}
		}
		for i := range order {
			if order[i] != names[i] {
				return []any{"badorder", string(b)}
			}
		}
	}
	return []any{"pairs", pairs}
}

// battery: every observation after a mutation
func (d *hashDriver) battery(nk int, evs []any, salt int) []any {
	ks := make([]int, nk)
	for k := range ks {
		ks[k] = k
	}
	return d.batteryOf(ks, evs, salt)
}

// batteryOf: every view of the hash, lookups for the keys ks; the three iteration forms, each over the
// hash under another of its names (which form gets which name rotates with salt = case index + step)
func (d *hashDriver) batteryOf(ks []int, evs []any, salt int) []any {
	nm := func(j int) string { return hashNames[(salt+j)%len(hashNames)] }
	evs = append(evs, d.run(hop{op: "keys"}), d.run(hop{op: "len"}), d.run(hop{op: "range", hv: nm(0)}),
		d.run(hop{op: "rangego", hv: nm(1)}), d.run(hop{op: "rangego1", hv: nm(2)}),
		d.run(hop{op: "str"}), d.run(hop{op: "json"}))
	for i := 0; i <= 3; i++ {
		evs = append(evs, d.run(hop{op: "hpair", i: i}))
	}
	for _, k := range ks {
		evs = append(evs, d.run(hop{op: "hget", k: k}))
	}
	evs = append(evs, d.run(hop{op: "hgetd", k: 1, v: 1}))
	return evs
}

func (d *hashDriver) fresh() {
	o := evalSafe(d.env, "(def h (hash))\n(def n h)\n(def i h)\n(def kb (hash))\n(hset kb (quote k) (keys h))")
	if o.Kind != "val" {
		fatal("cannot create hash: %v", o.Err)
	}
}

func init() {
	register("hash", "C14: hash operation histories", func(args []string) int {
		c := commonFlags("hash", args, nil)
		d := newHashDriver()
		w := newWriter(c.out)
		defer w.close()
		if c.replay != "" {
			return hashReplay(d, c, w)
		}
		// (a) exhaustive: every sequence of mutations (hset k v / hdel k) of length
		// <= L over the first nk keys, the full battery after every mutation
		nk, L := 9, 2
		if c.thorough() {
			nk, L = 9, 3
		}
		type mut struct{ op hop }
		var muts []hop
		for k := 0; k < nk; k++ {
			for v := 0; v < 2; v++ {
				muts = append(muts, hop{op: "hset", k: k, v: v})
			}
			muts = append(muts, hop{op: "hdel", k: k})
		}
		idx := 0
		var rec func(prefix []hop)
		rec = func(prefix []hop) {
			if len(prefix) > 0 {
				if c.mine(idx) {
					d.fresh()
					evs := []any{}
					for j, m := range prefix {
						evs = append(evs, d.run(m))
						evs = d.battery(nk, evs, idx+j)
					}
					w.write(hashCase{ID: fmt.Sprintf("x%d", idx), Evs: evs})
				}
				idx++
			}
			if len(prefix) == L {
				return
			}
			for _, m := range muts {
				rec(append(append([]hop(nil), prefix...), m))
			}
		}
		rec(nil)
		// (b) longer exhaustive histories over a 3-key core (a:, 'c'/99 alias, [7]/7 alias)
		core := []int{0, 3, 4, 5, 6}
		var cm []hop
		for _, k := range core {
			cm = append(cm, hop{op: "hset", k: k, v: 0}, hop{op: "hset", k: k, v: 1}, hop{op: "hdel", k: k})
		}
		L2 := 3
		if c.thorough() {
			L2 = 4
		}
		var rec2 func(prefix []hop)
		rec2 = func(prefix []hop) {
			if len(prefix) == L2 {
				if c.mine(idx) {
					d.fresh()
					evs := []any{}
					for _, m := range prefix {
						evs = append(evs, d.run(m))
					}
					evs = d.battery(nk, evs, idx)
					w.write(hashCase{ID: fmt.Sprintf("y%d", idx), Evs: evs})
				}
				idx++
				return
			}
			for _, m := range cm {
				rec2(append(append([]hop(nil), prefix...), m))
			}
		}
		rec2(nil)
		// (d) exhaustive histories over the spellings at the edge of the key kinds together with the keys
		// they name or touch: 7 / [7] / [[7]], 'c' / [['c']], a: / a.b / x.y; values of two types (the
		// iteration forms must present them whatever their types are)
		edge := []int{3, 6, 12, 4, 13, 0, 14, 15}
		var em []hop
		for _, k := range edge {
			em = append(em, hop{op: "hset", k: k, v: 0}, hop{op: "hset", k: k, v: 2}, hop{op: "hdel", k: k})
		}
		L3 := 2
		if c.thorough() {
			L3 = 3
		}
		var rec3 func(prefix []hop)
		rec3 = func(prefix []hop) {
			if len(prefix) > 0 {
				if c.mine(idx) {
					d.fresh()
					evs := []any{}
					for j, m := range prefix {
						evs = append(evs, d.run(m))
						if len(prefix) <= 2 || j == len(prefix)-1 { // longer ones: their prefixes are cases of their own
							evs = d.batteryOf(edge, evs, idx+j)
						}
					}
					w.write(hashCase{ID: fmt.Sprintf("e%d", idx), Evs: evs})
				}
				idx++
			}
			if len(prefix) == L3 {
				return
			}
			for _, m := range em {
				rec3(append(append([]hop(nil), prefix...), m))
			}
		}
		rec3(nil)
		// (c) random long histories over all keys
		n := c.n
		if n == 0 {
			n = 300
			if c.thorough() {
				n = 5000
			}
		}
		for i := 0; i < n; i++ {
			if !c.mine(idx) {
				idx++
				continue
			}
			r := newRng(c.seed, uint64(i))
			d.fresh()
			evs := []any{}
			ops := []string{"hset", "hset", "hset", "hdel", "hdel", "hget", "hgetd", "keys", "len", "hpair", "range", "str", "json",
				"keep", "kept", "kept", "keptset", "keptwalk", "rangego", "rangego1"}
			for s := 0; s < 30; s++ {
				o := hop{op: pick(r, ops), k: r.intn(len(d.keys)), v: r.intn(len(hashVals)), i: r.intn(6) - 1, hv: pick(r, hashNames)}
				evs = append(evs, d.run(o))
			}
			evs = d.battery(len(d.keys), evs, idx)
			w.write(hashCase{ID: fmt.Sprintf("r%d-%d", c.seed, i), Evs: evs})
			idx++
		}
		return 0
	})
}

// hashReplay re-executes the operations of one recorded case and writes the
// fresh observations (same format), so that a reported mismatch is confirmed
// on the real code before it is reported.
func hashReplay(d *hashDriver, c *common, w *ndWriter) int {
	readLines(c.replay, func(line []byte) {
		var in struct {
			ID  string           `json:"id"`
			Evs []map[string]any `json:"evs"`
		}
		if err := json.Unmarshal(line, &in); err != nil {
			fatal("bad replay file: %v", err)
		}
		d.fresh()
		evs := []any{}
		for _, e := range in.Evs {
			text, _ := e["text"].(string)
			op, _ := e["op"].(string)
			o := hop{op: op}
			ev := d.runText(o, text, e)
			evs = append(evs, ev)
		}
		w.write(hashCase{ID: in.ID, Evs: evs})
	})
	return 0
}

func (d *hashDriver) runText(o hop, text string, orig map[string]any) map[string]any {
	// find the key/value indices from the recorded projections
	find := func(p any) int {
		b, _ := json.Marshal(p)
		for i, k := range d.keys {
			kb, _ := json.Marshal(k.proj)
			if string(kb) == string(b) {
				return i
			}
		}
		return 0
	}
	findv := func(p any) int {
		b, _ := json.Marshal(p)
		for i, v := range hashVals {
			vb, _ := json.Marshal(v.proj)
			if string(vb) == string(b) {
				return i
			}
		}
		return 0
	}
	if k, ok := orig["k"]; ok {
		o.k = find(k)
	}
	if v, ok := orig["v"]; ok {
		o.v = findv(v)
	}
	if i, ok := orig["i"].(float64); ok {
		o.i = int(i)
	}
	if hv, ok := orig["hv"].(string); ok {
		o.hv = hv
	}
	return d.run(o)
}
