package main

// Family "lazy2" (C16, second oracle): instrumented programs whose host functions record,
// per call, which function body was entered, (type? p) of every parameter at entry, when the
// evaluation of every argument expression started and in which activation's environment, and
// what force / substitute returned.  Validated by TLC against spec/LazyRules.tla
// (LazyRulesTrace.tla).  Beyond the reach of the reference interpreter ZSem: typed func
// declarations, arguments given by name, builder forms inside an argument, a force during a
// force, a force after a failed force, several evaluations of one interpreter.
//
// Shape of a program (text): every function body starts with
//   (def act (enter FID (type? p1) ..))          -- `act`: the number of this activation
// every call form is written (begin (site S act) (callee arg1 ..)), and argument i of call form S
// is an expression around (ae S i act): it records that its evaluation starts and the value of
// `act` where it is being evaluated (the caller's, if it is evaluated in the caller's lexical
// environment) and returns S*10000 + i*100 + act.

import (
	"encoding/json"
	"fmt"
	"strings"

	zygo "github.com/glycerine/zygomys/v9/zygo"
)

type lz2Param struct {
	Name string `json:"name"`
	Lazy bool   `json:"lazy"`
	Raw  bool   `json:"raw"` // not one of the parameters under test (a counter, a function value)
}

type lz2Func struct {
	Params []lz2Param `json:"params"`
	Rest   bool       `json:"rest"`
}

type lz2Arg struct {
	Label string `json:"label"`
	Kind  string `json:"kind"`
	Src   string `json:"src"`
}

type lz2Site struct {
	Args []lz2Arg `json:"args"`
}

type lz2Case struct {
	ID     string    `json:"id"`
	Text   string    `json:"text"`
	Pieces []string  `json:"pieces"`
	Funcs  []lz2Func `json:"funcs"`
	Sites  []lz2Site `json:"sites"`
	Evs    []any     `json:"evs"`
	Errs   []string  `json:"errs"`
}

// ---------------------------------------------------------------- program builder

type lz2b struct {
	funcs []lz2Func
	sites []lz2Site
}

func (b *lz2b) newFunc(ps []lz2Param, rest bool) int {
	cp := append([]lz2Param{}, ps...)
	b.funcs = append(b.funcs, lz2Func{Params: cp, Rest: rest})
	return len(b.funcs)
}

// argSrc: the text of argument i of call form s
func lz2ArgSrc(kind string, s, i int, raw string) string {
	switch kind {
	case "plain":
		return fmt.Sprintf("(ae %d %d act)", s, i)
	case "err":
		return fmt.Sprintf("(aerr %d %d act)", s, i)
	case "reenter":
		// forces the promise it belongs to (the callee stored it in `saved`) while it is being evaluated
		return fmt.Sprintf("(cond (< (are %d %d act) 3) (force (pre savedact savedj saved)) 7)", s, i)
	case "infix":
		return fmt.Sprintf("{(ae %d %d act) + 0}", s, i)
	case "decl":
		return fmt.Sprintf("(begin (func [z:int64] [r:int64] z) (ae %d %d act))", s, i)
	}
	return raw
}

type lz2ArgSpec struct {
	label string
	kind  string
	raw   string
}

// call registers a call form and returns its text
func (b *lz2b) call(callee string, args []lz2ArgSpec) string {
	b.sites = append(b.sites, lz2Site{})
	s := len(b.sites)
	var as []lz2Arg
	var parts []string
	for k, a := range args {
		src := lz2ArgSrc(a.kind, s, k+1, a.raw)
		as = append(as, lz2Arg{Label: a.label, Kind: a.kind, Src: src})
		if a.label != "" {
			parts = append(parts, a.label+":")
		}
		parts = append(parts, src)
	}
	if as == nil {
		as = []lz2Arg{}
	}
	b.sites[s-1].Args = as
	return fmt.Sprintf("(begin (site %d act) (%s))", s, strings.TrimSpace(callee+" "+strings.Join(parts, " ")))
}

// testParams: n parameters p1..pn, lazy where the mask says (bit j-1)
func lz2TestParams(n, mask int) []lz2Param {
	var ps []lz2Param
	for j := 1; j <= n; j++ {
		lazy := mask&(1<<(j-1)) != 0
		name := fmt.Sprintf("p%d", j)
		if lazy {
			name = "#" + name
		}
		ps = append(ps, lz2Param{Name: name, Lazy: lazy})
	}
	return ps
}

// uses: what a body does with its parameters, by force pattern
func lz2Uses(ps []lz2Param, pat, shadow string) (string, bool) {
	var out []string
	firstLazy := 0
	for j, p := range ps {
		if p.Lazy && !p.Raw && firstLazy == 0 {
			firstLazy = j + 1
		}
	}
	if firstLazy != 0 {
		out = append(out, fmt.Sprintf("(set saved %s) (set savedact act) (set savedj %d)", ps[firstLazy-1].Name, firstLazy))
	}
	force := func(j int, name string) string {
		return fmt.Sprintf("(fo act %d (force (pre act %d %s)))", j, j, name)
	}
	var us []string
	for j, p := range ps {
		if p.Raw {
			continue
		}
		if !p.Lazy {
			us = append(us, fmt.Sprintf("(pv act %d %s)", j+1, p.Name))
			continue
		}
		switch pat {
		case "once", "reverse", "oncelater":
			us = append(us, force(j+1, p.Name))
		case "twice":
			us = append(us, force(j+1, p.Name), force(j+1, p.Name))
		case "subst":
			us = append(us, fmt.Sprintf("(sb act %d (str (substitute %s)))", j+1, p.Name))
		case "substforce":
			us = append(us, fmt.Sprintf("(sb act %d (str (substitute %s)))", j+1, p.Name), force(j+1, p.Name))
		}
	}
	if pat == "reverse" {
		for l, r := 0, len(us)-1; l < r; l, r = l+1, r-1 {
			us[l], us[r] = us[r], us[l]
		}
	}
	body := strings.Join(us, " ")
	switch shadow {
	case "infix-let":
		body = "(let [infix 1] " + body + " 0)"
	case "func-let":
		body = "(let [func 1] " + body + " 0)"
	}
	out = append(out, body)
	return strings.Join(out, " "), firstLazy != 0
}

// laterPieces: forces of the stored promise from the top level, after everything has returned
func lz2Later(pat string) []string {
	one := "(fo savedact savedj (force (pre savedact savedj saved)))"
	switch pat {
	case "later", "oncelater":
		return []string{one}
	case "later2":
		return []string{one, one}
	}
	return nil
}

// fnText: the text of a function: decl "defn" | "func" | "fn" (anonymous)
func lz2FnText(decl, name string, fid int, ps []lz2Param, rest bool, body string) string {
	var names, types []string
	for _, p := range ps {
		if decl == "func" {
			names = append(names, p.Name+":int64")
		} else {
			names = append(names, p.Name)
		}
		types = append(types, "(type? "+p.Name+")")
	}
	if rest {
		names = append(names, "&", "more")
	}
	enter := strings.TrimSpace(fmt.Sprintf("(def act (enter %d %s", fid, strings.Join(types, " "))) + "))"
	plist := "[" + strings.Join(names, " ") + "]"
	switch decl {
	case "func":
		return fmt.Sprintf("(func %s %s [r:int64] %s %s)", name, plist, enter, body)
	case "fn":
		return fmt.Sprintf("(fn %s %s %s)", plist, enter, body)
	}
	return fmt.Sprintf("(defn %s %s %s %s)", name, plist, enter, body)
}

type lz2Spec struct {
	route   string
	decl    string // defn | func
	n, mask int
	rest    bool
	pat     string
	ak      string // argument kinds: plain | errlazy | errstrict | reenter | infix | decl
	shadow  string // "" | infix-let | func-let | infix-param
	named   string // "" | fwd | rev
}

func (s lz2Spec) id() string {
	v := 0
	if s.rest {
		v = 1
	}
	id := fmt.Sprintf("z2-%s-%s-n%dm%dv%d-%s-%s", s.route, s.decl, s.n, s.mask, v, s.ak, s.pat)
	if s.shadow != "" {
		id += "-" + s.shadow
	}
	if s.named != "" {
		id += "-" + s.named
	}
	return id
}

const lz2Prelude = "(def act 0) (def saved nil) (def savedact 0) (def savedj 0)"

// args for the test parameters of a receiver with the given lazy flags
func (s lz2Spec) testArgs(recv []lz2Param) []lz2ArgSpec {
	var as []lz2ArgSpec
	firstLazy, firstStrict := true, true
	for _, p := range recv {
		kind := "plain"
		switch s.ak {
		case "errlazy":
			if p.Lazy {
				kind = "err"
			}
		case "errstrict":
			if !p.Lazy && firstStrict {
				kind = "err"
			}
		case "reenter":
			if p.Lazy && firstLazy {
				kind = "reenter"
			}
		case "infix", "decl":
			kind = s.ak
		}
		if p.Lazy {
			firstLazy = false
		} else {
			firstStrict = false
		}
		a := lz2ArgSpec{kind: kind}
		if s.named != "" {
			a.label = p.Name
		}
		as = append(as, a)
	}
	if s.named == "rev" {
		for l, r := 0, len(as)-1; l < r; l, r = l+1, r-1 {
			as[l], as[r] = as[r], as[l]
		}
	}
	if s.rest {
		as = append(as, lz2ArgSpec{kind: "plain"}, lz2ArgSpec{kind: "plain"})
	}
	return as
}

func lz2Complement(ps []lz2Param) []lz2Param {
	var out []lz2Param
	for j, p := range ps {
		name := fmt.Sprintf("q%d", j+1)
		if !p.Lazy {
			name = "#" + name
		}
		out = append(out, lz2Param{Name: name, Lazy: !p.Lazy})
	}
	return out
}

var lz2Cnt = lz2Param{Name: "cnt", Raw: true}

func prepend(p lz2Param, ps []lz2Param) []lz2Param { return append([]lz2Param{p}, ps...) }
func prependArg(a lz2ArgSpec, as []lz2ArgSpec) []lz2ArgSpec {
	return append([]lz2ArgSpec{a}, as...)
}

// build: the pieces (texts evaluated one after the other) and the static tables of a program
func (s lz2Spec) build() (pieces []string, b *lz2b) {
	b = &lz2b{}
	stored := false // some body stores a promise in `saved`
	uses := func(ps []lz2Param) string {
		t, st := lz2Uses(ps, s.pat, s.shadow)
		stored = stored || st
		return t
	}
	ps := lz2TestParams(s.n, s.mask)
	back := []lz2Param{}
	backArgs := []lz2ArgSpec{}
	if s.shadow == "infix-param" && !s.rest {
		// the receiver has a parameter named like the infix builder
		back = append(back, lz2Param{Name: "infix", Raw: true})
		backArgs = append(backArgs, lz2ArgSpec{kind: "raw", raw: "0"})
	}
	withBack := func(as []lz2ArgSpec) []lz2ArgSpec { return append(as, backArgs...) }
	pieces = append(pieces, lz2Prelude)
	switch s.route {
	case "direct", "alias", "computed", "incaller", "param", "redecl":
		all := append(append([]lz2Param{}, ps...), back...)
		if s.route == "redecl" {
			// an earlier declaration of the name with the lazy positions complemented, from an earlier evaluation
			old := b.newFunc(lz2Complement(ps), s.rest)
			pieces = append(pieces, lz2FnText(s.decl, "F", old, lz2Complement(ps), s.rest, "0"))
		}
		f := b.newFunc(all, s.rest)
		pieces = append(pieces, lz2FnText(s.decl, "F", f, all, s.rest, uses(all)+" 0"))
		args := withBack(s.testArgs(ps))
		switch s.route {
		case "direct", "redecl":
			pieces = append(pieces, b.call("F", args))
		case "alias":
			pieces = append(pieces, "(def G F)", b.call("G", args))
		case "computed":
			pieces = append(pieces, b.call("(begin F)", args))
		case "incaller":
			// the call form is inside a function that returns before the stored promise is forced
			w := b.newFunc(nil, false)
			pieces = append(pieces, lz2FnText("defn", "W", w, nil, false, "(let [dummy 1] "+b.call("F", args)+")"))
			pieces = append(pieces, b.call("W", nil))
		case "param":
			hp := []lz2Param{{Name: "fn2", Raw: true}}
			h := b.newFunc(hp, false)
			pieces = append(pieces, lz2FnText("defn", "H", h, hp, false, b.call("fn2", args)))
			pieces = append(pieces, b.call("H", []lz2ArgSpec{{kind: "raw", raw: "F"}}))
		}
	case "rec", "redecl-rec", "deaddefn":
		// self tail call: (F (- cnt 1) args..)
		all := prepend(lz2Cnt, ps)
		cntArg := func(raw string) lz2ArgSpec {
			a := lz2ArgSpec{kind: "raw", raw: raw}
			if s.named != "" {
				a.label = "cnt" // all arguments by name, or none
			}
			return a
		}
		if s.route == "redecl-rec" {
			oldp := prepend(lz2Cnt, lz2Complement(ps))
			old := b.newFunc(oldp, s.rest)
			pieces = append(pieces, lz2FnText(s.decl, "F", old, oldp, s.rest, "0"))
		}
		f := b.newFunc(all, s.rest)
		inner := b.call("F", prependArg(cntArg("(- cnt 1)"), s.testArgs(ps)))
		tail := "(cond (<= cnt 0) 0 " + inner + ")"
		if s.route == "deaddefn" {
			// an inner definition of the same name, with the lazy positions complemented, in a branch never taken
			dp := prepend(lz2Cnt, lz2Complement(ps))
			d := b.newFunc(dp, s.rest)
			tail = "(cond (<= cnt 0) 0 (< cnt 5) " + inner + " (begin " + lz2FnText("defn", "F", d, dp, s.rest, "0") + " 0))"
		}
		pieces = append(pieces, lz2FnText(s.decl, "F", f, all, s.rest, uses(all)+" "+tail))
		pieces = append(pieces, b.call("F", prependArg(cntArg("1"), s.testArgs(ps))))
	case "taillet", "tailparam":
		// the function's own name denotes ANOTHER function (lazy positions complemented) where it is
		// called in tail position: a let variable, or a parameter
		qs := lz2Complement(ps)
		quses := uses(qs)
		if s.route == "taillet" {
			f := b.newFunc(ps, s.rest)
			g := b.newFunc(qs, s.rest)
			innerFn := lz2FnText("fn", "", g, qs, s.rest, quses+" 0")
			body := "(let [F " + innerFn + "] " + b.call("F", s.testArgs(qs)) + ")"
			pieces = append(pieces, lz2FnText(s.decl, "F", f, ps, s.rest, body))
			pieces = append(pieces, b.call("F", s.testArgs(ps)))
		} else {
			// both take the same number of arguments: the call looks like a self call to the compiler
			all := append(append([]lz2Param{}, ps...), lz2Param{Name: "F", Raw: true})
			qall := append(append([]lz2Param{}, qs...), lz2Param{Name: "z", Raw: true})
			f := b.newFunc(all, false)
			g := b.newFunc(qall, false)
			innerFn := lz2FnText("fn", "", g, qall, false, quses+" 0")
			pieces = append(pieces, lz2FnText(s.decl, "F", f, all, false, b.call("F", append(s.testArgs(qs), lz2ArgSpec{kind: "raw", raw: "0"}))))
			pieces = append(pieces, b.call("F", append(s.testArgs(ps), lz2ArgSpec{kind: "raw", raw: innerFn})))
		}
	case "oldclosure":
		// a closure of an old definition kept under another name; its tail call goes to the NEW function
		oldp := prepend(lz2Cnt, ps)
		newp := prepend(lz2Cnt, lz2Complement(ps))
		f := b.newFunc(oldp, s.rest)
		inner := b.call("F", prependArg(lz2ArgSpec{kind: "raw", raw: "(- cnt 1)"}, s.testArgs(ps)))
		pieces = append(pieces, lz2FnText(s.decl, "F", f, oldp, s.rest, "(cond (<= cnt 0) 0 "+inner+")"))
		pieces = append(pieces, "(def old F)")
		g := b.newFunc(newp, s.rest)
		pieces = append(pieces, lz2FnText(s.decl, "F", g, newp, s.rest, uses(newp)+" 0"))
		pieces = append(pieces, b.call("old", prependArg(lz2ArgSpec{kind: "raw", raw: "1"}, s.testArgs(ps))))
	}
	if stored {
		pieces = append(pieces, lz2Later(s.pat)...)
	}
	return
}

func lz2Specs() []lz2Spec {
	var out []lz2Spec
	masks := func(maxn int, fn func(n, mask int)) {
		for n := 1; n <= maxn; n++ {
			for m := 0; m < 1<<n; m++ {
				fn(n, m)
			}
		}
	}
	type dv struct {
		decl string
		rest bool
	}
	decls := []dv{{"defn", false}, {"defn", true}, {"func", false}}
	// 1. call routes x declaration kinds x masks x force patterns, plain arguments
	routes := []string{"direct", "alias", "computed", "incaller", "param", "redecl", "rec", "redecl-rec", "deaddefn", "taillet", "tailparam", "oldclosure"}
	for _, r := range routes {
		for _, d := range decls {
			if r == "tailparam" && (d.decl == "func" || d.rest) {
				continue // a function-valued parameter has no declared type; the extra parameter fixes the arity
			}
			wide := r == "direct" || r == "rec" || r == "taillet" || r == "deaddefn" || r == "oldclosure"
			if d.rest && !wide && r != "incaller" {
				continue
			}
			masks(3, func(n, m int) {
				pats := []string{"none", "once", "twice", "subst", "later2"}
				if n == 3 {
					if !wide || d.rest {
						return
					}
					pats = []string{"once"}
				}
				for _, p := range pats {
					out = append(out, lz2Spec{route: r, decl: d.decl, n: n, mask: m, rest: d.rest, pat: p, ak: "plain"})
				}
			})
		}
	}
	// 2. typed declarations called with arguments given by name, in the declared and in the reverse order
	for _, r := range []string{"direct", "alias", "incaller", "redecl", "rec"} {
		for _, nm := range []string{"fwd", "rev"} {
			masks(3, func(n, m int) {
				for _, p := range []string{"none", "once", "later2"} {
					out = append(out, lz2Spec{route: r, decl: "func", n: n, mask: m, pat: p, ak: "plain", named: nm})
				}
			})
		}
	}
	// 3. argument expressions that fail, or force their own promise
	for _, ak := range []string{"errlazy", "errstrict", "reenter"} {
		for _, r := range []string{"direct", "incaller", "rec", "named"} {
			for _, d := range []string{"defn", "func"} {
				if r == "named" && d != "func" {
					continue
				}
				masks(2, func(n, m int) {
					if ak == "errstrict" && m == 1<<n-1 || ak != "errstrict" && m == 0 {
						return // no position of that kind
					}
					for _, p := range []string{"once", "twice", "later2", "oncelater"} {
						if ak == "errstrict" && p != "once" {
							continue // the body is never entered
						}
						s := lz2Spec{route: r, decl: d, n: n, mask: m, pat: p, ak: ak}
						if r == "named" {
							s.route, s.named = "direct", "rev"
						}
						out = append(out, s)
					}
				})
			}
		}
	}
	// 4. builder forms inside an argument x receivers whose own variables are named like builders
	for _, ak := range []string{"infix", "decl"} {
		for _, sh := range []string{"", "infix-let", "func-let", "infix-param"} {
			for _, r := range []string{"direct", "incaller", "rec"} {
				for _, d := range []string{"defn", "func"} {
					if r == "rec" && (sh == "infix-param" || d == "func") {
						continue
					}
					masks(2, func(n, m int) {
						for _, p := range []string{"once", "later"} {
							out = append(out, lz2Spec{route: r, decl: d, n: n, mask: m, pat: p, ak: ak, shadow: sh})
						}
					})
				}
			}
		}
	}
	return out
}

// ---------------------------------------------------------------- execution

func lz2Run(id string, pieces []string, funcs []lz2Func, sites []lz2Site) lz2Case {
	env := zygo.NewZlisp()
	env.StandardSetup()
	evs := []any{}
	nact := 0
	counts := map[[3]int64]int64{}
	ints := func(args []zygo.Sexp, n int) ([]int64, error) {
		if len(args) < n {
			return nil, fmt.Errorf("lazy2 host function: %d arguments wanted", n)
		}
		out := make([]int64, n)
		for i := 0; i < n; i++ {
			v, ok := args[i].(*zygo.SexpInt)
			if !ok {
				return nil, fmt.Errorf("lazy2 host function: argument %d is %T, not an integer", i, args[i])
			}
			out[i] = v.Val
		}
		return out, nil
	}
	ev := func(args []zygo.Sexp) ([]int64, error) {
		v, err := ints(args, 3)
		if err != nil {
			return nil, err
		}
		evs = append(evs, []any{"ev", v[0], v[1], v[2]})
		counts[[3]int64{v[0], v[1], v[2]}]++
		return v, nil
	}
	add := func(name string, fn func(env *zygo.Zlisp, args []zygo.Sexp) (zygo.Sexp, error)) {
		env.AddFunction(name, func(env *zygo.Zlisp, _ string, args []zygo.Sexp) (zygo.Sexp, error) { return fn(env, args) })
	}
	add("site", func(env *zygo.Zlisp, args []zygo.Sexp) (zygo.Sexp, error) {
		v, err := ints(args, 2)
		if err != nil {
			return zygo.SexpNull, err
		}
		evs = append(evs, []any{"site", v[0], v[1]})
		return zygo.SexpNull, nil
	})
	add("ae", func(env *zygo.Zlisp, args []zygo.Sexp) (zygo.Sexp, error) {
		v, err := ev(args)
		if err != nil {
			return zygo.SexpNull, err
		}
		return &zygo.SexpInt{Val: v[0]*10000 + v[1]*100 + v[2]}, nil
	})
	add("aerr", func(env *zygo.Zlisp, args []zygo.Sexp) (zygo.Sexp, error) {
		if _, err := ev(args); err != nil {
			return zygo.SexpNull, err
		}
		return zygo.SexpNull, fmt.Errorf("lazy2: this argument expression fails")
	})
	add("are", func(env *zygo.Zlisp, args []zygo.Sexp) (zygo.Sexp, error) {
		v, err := ev(args)
		if err != nil {
			return zygo.SexpNull, err
		}
		return &zygo.SexpInt{Val: counts[[3]int64{v[0], v[1], v[2]}]}, nil
	})
	add("enter", func(env *zygo.Zlisp, args []zygo.Sexp) (zygo.Sexp, error) {
		v, err := ints(args, 1)
		if err != nil {
			return zygo.SexpNull, err
		}
		types := []any{}
		for _, a := range args[1:] {
			s, ok := a.(*zygo.SexpStr)
			if !ok {
				return zygo.SexpNull, fmt.Errorf("lazy2 enter: a type name is %T", a)
			}
			types = append(types, s.S)
		}
		nact++
		evs = append(evs, []any{"enter", v[0], nact, types})
		return &zygo.SexpInt{Val: int64(nact)}, nil
	})
	add("pv", func(env *zygo.Zlisp, args []zygo.Sexp) (zygo.Sexp, error) {
		v, err := ints(args, 2)
		if err != nil || len(args) != 3 {
			return zygo.SexpNull, fmt.Errorf("lazy2 pv: %v", err)
		}
		evs = append(evs, []any{"pv", v[0], v[1], obsProj(env, args[2])})
		return args[2], nil
	})
	add("pre", func(env *zygo.Zlisp, args []zygo.Sexp) (zygo.Sexp, error) {
		v, err := ints(args, 2)
		if err != nil || len(args) != 3 {
			return zygo.SexpNull, fmt.Errorf("lazy2 pre: %v", err)
		}
		evs = append(evs, []any{"fs", v[0], v[1]})
		return args[2], nil
	})
	add("fo", func(env *zygo.Zlisp, args []zygo.Sexp) (zygo.Sexp, error) {
		v, err := ints(args, 2)
		if err != nil || len(args) != 3 {
			return zygo.SexpNull, fmt.Errorf("lazy2 fo: %v", err)
		}
		evs = append(evs, []any{"fo", v[0], v[1], obsProj(env, args[2])})
		return args[2], nil
	})
	add("sb", func(env *zygo.Zlisp, args []zygo.Sexp) (zygo.Sexp, error) {
		v, err := ints(args, 2)
		if err != nil || len(args) != 3 {
			return zygo.SexpNull, fmt.Errorf("lazy2 sb: %v", err)
		}
		s, ok := args[2].(*zygo.SexpStr)
		if !ok {
			return zygo.SexpNull, fmt.Errorf("lazy2 sb: not a string")
		}
		evs = append(evs, []any{"sb", v[0], v[1], s.S})
		return args[2], nil
	})
	errs := []string{}
	for _, p := range pieces {
		o := evalSafe(env, p+"\n")
		k := o.Kind
		if k == "nilres" {
			k = "val"
		}
		evs = append(evs, []any{"end", k})
		errs = append(errs, trunc(o.Err, 120))
		if k != "val" {
			env.Clear() // as an embedding does after a failed evaluation
		}
	}
	if funcs == nil {
		funcs = []lz2Func{}
	}
	if sites == nil {
		sites = []lz2Site{}
	}
	for i := range funcs {
		if funcs[i].Params == nil {
			funcs[i].Params = []lz2Param{}
		}
	}
	return lz2Case{ID: id, Text: strings.Join(pieces, splitMark), Pieces: pieces, Funcs: funcs, Sites: sites, Evs: evs, Errs: errs}
}

func init() {
	register("lazy2", "C16: instrumented calls (typed func, named arguments, builders, nested/failed forces) vs LazyRules", func(args []string) int {
		c := commonFlags("lazy2", args, nil)
		w := newWriter(c.out)
		defer w.close()
		if c.replay != "" {
			readLines(c.replay, func(line []byte) {
				var in lz2Case
				if err := json.Unmarshal(line, &in); err != nil {
					fatal("bad replay: %v", err)
				}
				w.write(lz2Run(in.ID, in.Pieces, in.Funcs, in.Sites))
			})
			return 0
		}
		seen := map[string]bool{}
		i := 0
		for _, s := range lz2Specs() {
			pieces, b := s.build()
			text := strings.Join(pieces, splitMark)
			if seen[text] {
				continue // the same program under another name (a force pattern does not show without lazy parameters)
			}
			seen[text] = true
			if c.mine(i) {
				w.write(lz2Run(s.id(), pieces, b.funcs, b.sites))
			}
			i++
		}
		return 0
	})
}
