package main

// Family "noop" (C05): a text that fails before any of it runs (parse error,
// compile error, macro-expansion error) changes nothing. For every kind of
// definition of the surface language: an interpreter evaluates a set-up text,
// then a failing text that (re)defines the same names, then probes; a twin
// evaluates the set-up text and the probes only. Both must answer the probes
// alike (NoopTrace.tla: the failing evaluation is a stuttering step).
//
// The rejected text comes in these classes (NoopTrace.tla says what each
// requires):
//   - rejected at top level: parse error, compile error, expansion error, bad jump;
//   - the ill-formed form in every evaluated nesting position, among them the
//     operand of an unquote inside a syntax-quote template;
//   - rejected on a nested compile route: the text is an argument of a call
//     (compiled when the call is executed), the argument of eval, a lazy
//     argument that is forced, a sourced or included file;
//   - the (re)definition itself fails in the middle (its value expression
//     calls a failing host function, or the binding is refused);
//   - special forms whose operand is an improper list, and forms that generate
//     no value used where a value is needed below a caller's value: these may
//     be given a meaning, but must not panic and, when they fail, change nothing.

import (
	"encoding/json"
	"fmt"
	"os"
	"path/filepath"
	"regexp"
	"strings"

	zygo "github.com/glycerine/zygomys/v9/zygo"
)

type noopDef struct {
	name   string
	setup  string   // defines the names
	redef  string   // a valid re-definition that behaves differently
	broken string   // a re-definition whose body does not compile ("" if the form has no body)
	probes []string // what a later evaluation can see of the names
	// re-definitions that begin to run and fail in the middle: the value expression calls the host
	// function that fails, or the binding is refused (a string for a name that holds an int64)
	failing []string
}

// %d is replaced by a number unique to the case (type names are registered process-wide)
var noopDefs = []noopDef{
	{"def", `(def v%d 1)`, `(def v%d 2)`, `(def v%d (let [a] 1))`, []string{`v%d`},
		[]string{`(def v%d (zvfail))`, `(def v%d "s")`, `(def v%d (zvgopanic))`}},
	{"set", `(def w%d 1)`, `(set w%d 2)`, `(set w%d (let [a] 1))`, []string{`w%d`}, []string{`(set w%d (zvfail))`}},
	{"defn", `(defn f%d [x] (+ x 1))`, `(defn f%d [x] (+ x 100))`, `(defn f%d [x] (let [a] 1))`, []string{`(f%d 2)`}, nil},
	{"defmac", `(defmac m%d [x] ^(+ ~x 1))`, `(defmac m%d [x] ^(+ ~x 100))`, `(defmac m%d [x] (let [a] 1))`, []string{`(m%d 2)`, `(macexpand (m%d 2))`}, nil},
	{"defmac-nested", `(defmac n%d [x] ^(+ ~x 1))`, `(defmac n%d [x] ^(+ ~x 100))`, `(defmac n%d [x] (cond true (let [a b c] 1) 2))`, []string{`(n%d 2)`}, nil},
	{"struct", `(struct S%d [(field A: int64)])`, `(struct S%d [(field B: string)])`, ``, []string{`(S%d A: 1)`, `(S%d B: "s")`},
		[]string{`(struct S%d [(field B: string) (zvfail)])`, `(struct S%d [(field B: string)] 5)`, `(struct S%d [(field B: string) (zvgopanic)])`, `(struct S%d [(field B: string) 7])`}},
	{"func", `(func g%d [a:int64] [r:int64] (return (+ a 1)))`, `(func g%d [a:int64] [r:int64] (return (+ a 100)))`, `(func g%d [a:int64] [r:int64] (return (let [a] 1)))`, []string{`(g%d 2)`}, nil},
	{"var", `(var u%d int64)`, `(var u%d string)`, ``, []string{`u%d`, `(type? u%d)`}, nil},
	{"package", `(def p%d (package "p%d" { A := 1; (defn F [x] (+ x A)) }))`, `(def p%d (package "p%d" { A := 100; (defn F [x] (+ x A)) }))`,
		`(def p%d (package "p%d" { A := (let [a] 1) }))`, []string{`(p%d.F 1)`, `(+ 0 p%d.A)`},
		[]string{`(def p%d (package "p%d" { A := 100; (defn F [x] (+ x A)); (zvfail) }))`, `(def p%d (package "p%d" { A := (zvfail); (defn F [x] (+ x A)) }))`}},
	{"mdef", `(mdef a%d b%d (list 1 2))`, `(mdef a%d b%d (list 3 4))`, `(mdef a%d b%d (let [a] 1))`, []string{`(list a%d b%d)`},
		[]string{`(mdef a%d b%d (list 3 (zvfail)))`, `(mdef a%d b%d (list "s" 5))`}},
	{"infix-assign", `{x%d := 1}`, `{x%d = 2}`, `{x%d = (let [a] 1)}`, []string{`x%d`}, []string{`{x%d = (zvfail)}`}},
	{"multi-assign", `(def c%d 1) (def d%d 1)`, `(c%d d%d = 3 4)`, `(c%d d%d = 3 (let [a] 1))`, []string{`(list c%d d%d)`},
		[]string{`(c%d d%d = (zvfail) 4)`, `(c%d d%d = "s" 4)`}},
	{"hash-value", `(def h%d (hash a: 1))`, `(hset h%d a: 2)`, `(hset h%d a: (let [a] 1))`, []string{`(hget h%d a:)`}, []string{`(hset h%d a: (zvfail))`}},
	{"array-value", `(def r%d [1 2])`, `(aset r%d 0 9)`, `(aset r%d 0 (let [a] 1))`, []string{`r%d`}, []string{`(aset r%d 0 (zvfail))`}},
	{"closure-state", `(def k%d (let [c 0] (fn [] (set c (+ c 1)) c)))`, `(k%d)`, `(begin (k%d) (let [a] 1))`, []string{`(k%d)`}, []string{`(begin (zvfail) (k%d))`}},
	{"method", `(struct T%d [(field X: int64)]) (method [(p *T%d)] M%d [] [s:string] (return "one"))`,
		`(method [(p *T%d)] M%d [] [s:string] (return "two"))`, `(method [(p *T%d)] M%d [] [s:string] (return (let [a] 1)))`, []string{`(type? T%d)`}, nil},
}

type noopCase struct {
	ID      string   `json:"id"`
	Def     string   `json:"def"`
	Variant string   `json:"variant"`
	HasSet  bool     `json:"hasset"`
	Setup   string   `json:"setup"`
	Prep    string   `json:"prep"` // a text both interpreters evaluate after the set-up (it completes: it is not part of the failing evaluation)
	Fail    string   `json:"fail"`
	File    string   `json:"file"` // contents of the file the failing text sources or includes ("" if none)
	Probes  []string `json:"probes"`
	FOut    any      `json:"fout"`   // outcome of the failing text
	Depths  []int    `json:"depths"` // after the failing text
	A       []any    `json:"a"`      // probe outcomes after set-up + failing text
	Twin    []any    `json:"twin"`   // probe outcomes after set-up only
	Twin2   []any    `json:"twin2"`  // probe outcomes after set-up and the valid re-definition (catalogue variants only)
	UA      any      `json:"ua"`     // a fresh definition and its use, after the probes
	UT      any      `json:"ut"`     // the same on the twin
	ErrText string   `json:"errtext"`
}

// zvboom: a macro whose expansion fails; zvnoop: a macro that expands to a form without code;
// zvid, zvid2: functions whose arguments are compiled when the call is executed; zvlz forces a lazy argument
const noopPrelude = "(defmac zvboom [] (aget [1] 5))\n(defmac zvnoop [] ^(begin))\n" +
	"(defn zvid [x] x)\n(defn zvid2 [x y] y)\n(defn zvlz [#x] (force #x))\n"

// the use of a fresh definition after everything else: the interpreter is still usable (NoopTrace: Usable)
const noopUsable = "(defn zvu [x] (+ x 1)) (zvu 41)\n"

type noopVar struct {
	text string // %F stands for the path of the file
	file string // contents of the file, "" if the variant has none
	// the text is the valid re-definition followed by a form of a catalogue: when the form is refused at
	// run time, the re-definition has run (NoopTrace: the state is that of the twin or that of twin2)
	redefFirst bool
}

// forms that no reading makes well-formed: a compile error wherever they are evaluated
const illFormed = "(let [a] 1)"

// special forms whose operand is an improper list, or otherwise not of the shape the form walks
var noopMalformed = []string{
	`(include ("%F" \ b))`,
	`(include ["%F" ("%F" \ b)])`,
	`(eval (quote (include ("%F" \ b))))`,
	`(source ("%F" \ b))`,
	`(source ["%F" ("%F" \ b)])`,
	`(include 5)`,
	`(for (quote \ a) [(def zvi 0) (< zvi 1) (def zvi (+ zvi 1))] 1)`,
	`(struct (quote \ a) [])`,
	`(def (quote \ a) 1)`,
	`(mdef (quote \ a) zvb (list 1 2))`,
	`(func zvg (a \ b) [r:int64] (return 1))`,
	`(method (p \ T) M [] [s:string] (return "x"))`,
	`(struct ZvS [(field A: \ b)])`,
	`(package (a \ b) {})`,
	`(interface ZvI [(method (a \ b))])`,
	`(defmac zvmm (a \ b) 1)`,
	`(infix (a \ b))`,
	`(range k v (a \ b) 1)`,
	`^(1 ~@(2 \ 3))`,
	`(macexpand (zvboom \ 1))`,
}

// forms that generate no value x positions that need one, inside an argument of a call that
// already has a value of the caller on the data stack
var noopValueless = []string{`(begin)`, `(newScope)`, `(zvnoop)`}
var noopValuePos = []string{
	`[%V]`, `(cond %V 2 3)`, `(let [zvx %V] 5)`, `(+ 1 %V)`, `(and %V 2)`, `(def zvy %V)`, `(hash a: %V)`, `(zvid %V)`, `^(1 ~%V)`,
}

func noopVariants(d noopDef) map[string]noopVar {
	t := func(s string) noopVar { return noopVar{text: s} }
	nested := "(begin " + d.redef + " " + illFormed + ")"
	v := map[string]noopVar{
		"then-compile-error":   t(d.redef + "\n" + illFormed + "\n"),
		"then-parse-error":     t(d.redef + "\n(def q (\n)))\n"),
		"then-unbalanced":      t(d.redef + "\n)\n"),
		"after-compile-error":  t(illFormed + "\n" + d.redef + "\n"),
		"then-expansion-error": t(d.redef + "\n(zvboom)\n"),
		"then-bad-jump":        t(d.redef + "\n(break)\n"),
		"inside-begin":         t("(begin " + d.redef + " " + illFormed + ")\n"),
		"inside-fn":            t("(defn zvw [] " + d.redef + " " + illFormed + ")\n"),
		// the ill-formed form as the operand of an unquote: it is evaluated, so it is compiled
		"unquote-list":   t(d.redef + "\n^(1 ~" + illFormed + " 3)\n"),
		"unquote-array":  t(d.redef + "\n^[1 ~" + illFormed + " 3]\n"),
		"unquote-deep":   t(d.redef + "\n^(1 (2 ~" + illFormed + ") 3)\n"),
		"unquote-in-fn":  t(d.redef + "\n(defn zvq [] ^(1 ~" + illFormed + " 3))\n"),
		"unquote-in-mac": t(d.redef + "\n(defmac zvqm [x] ^(list ~" + illFormed + " ~x))\n"),
		"unquote-splice": t(d.redef + "\n^(1 ~@" + illFormed + " 3)\n"),
		// the text is compiled on a nested route, and rejected there
		"route-arg":           t("(zvid " + nested + ")\n"),
		"route-eval":          t("(eval (quote " + nested + "))\n"),
		"route-fn-arg":        t("(defn zvw [] (zvid " + nested + "))\n(zvw)\n"),
		"route-lazy":          t("(zvlz " + nested + ")\n"),
		"route-source":        {"(source \"%F\")\n", d.redef + "\n" + illFormed + "\n", false},
		"route-source-parse":  {"(source \"%F\")\n", d.redef + "\n(def q (\n", false},
		"route-include":       {"(include \"%F\")\n", d.redef + "\n" + illFormed + "\n", false},
		"route-include-parse": {"(include \"%F\")\n", d.redef + "\n(def q (\n", false},
		"route-array":         t("[1 " + nested + "]\n"),
		// a host macro (AddMacro) that panics or fails while the text is compiled
		"then-hostmacro-panic": t(d.redef + "\n(zvhostmacpanic)\n"),
		"then-hostmacro-error": t(d.redef + "\n(zvhostmacfail)\n"),
		// the failing evaluation is entered through the host API: env.Apply on a host function that
		// panics or fails, and on a script function that calls one before it re-defines the names
		"apply-host-panic":   t("#apply zvgopanic\n"),
		"apply-host-error":   t("#apply zvfail\n"),
		"apply-script-panic": t("(defn zvw [] (zvgopanic) " + d.redef + ")\n#apply zvw\n"),
		"apply-script-error": t("(defn zvw [] (zvfail) " + d.redef + ")\n#apply zvw\n"),
	}
	if d.broken != "" {
		v["broken-body"] = t(d.broken + "\n")
	}
	for i, f := range d.failing {
		v[fmt.Sprintf("failing-%d", i)] = t(f + "\n")
	}
	for i, m := range noopMalformed {
		v[fmt.Sprintf("malformed-%02d", i)] = noopVar{d.redef + "\n" + m + "\n", "1\n", true}
	}
	for i, vl := range noopValueless {
		for j, pos := range noopValuePos {
			v[fmt.Sprintf("valueless-%d-%d", i, j)] = noopVar{d.redef + "\n(zvid2 1 " + strings.ReplaceAll(pos, "%V", vl) + ")\n", "", true}
		}
	}
	return v
}

// which cases are run: the variants of the rejected text x every kind of definition x with/without set-up,
// except that the two catalogues (malformed-*, valueless-*) are paired with defmac (the macro table is the
// state a compile-time panic skips to restore) and two kinds in rotation, and that a refused binding needs
// the set-up that gives the name its type
func noopWanted(di int, d noopDef, vn string, vi int, hs int, thorough bool) bool {
	if strings.HasPrefix(vn, "malformed-") || strings.HasPrefix(vn, "valueless-") {
		if hs == 0 {
			return false
		}
		return thorough || d.name == "defmac" || di == vi%len(noopDefs) || di == (vi+5)%len(noopDefs)
	}
	for _, pre := range []string{"unquote-", "route-", "then-hostmacro-", "apply-"} {
		// the nesting, route and entry dimensions without set-up: only for the kinds whose first
		// definition has an effect when the text is compiled or declares process-wide names
		if strings.HasPrefix(vn, pre) && hs == 0 && !thorough {
			return d.name == "def" || d.name == "defmac" || d.name == "struct" || d.name == "package"
		}
	}
	if strings.HasPrefix(vn, "failing-") && hs == 0 {
		var i int
		fmt.Sscanf(vn, "failing-%d", &i)
		return strings.Contains(d.failing[i], "(zvfail)") || strings.Contains(d.failing[i], "(zvgopanic)")
	}
	return true
}

var genNameRe = regexp.MustCompile(`__(gensym|anon|loop[A-Za-z_]*?)[0-9]+`)

// maskedOutcome is printedOutcome with the numbers of generated names masked: a generated name is an
// identity like an address (gensym promises a fresh name, not a particular number), and the counter moves
// with every symbol a parsed text interns
func maskedOutcome(env *zygo.Zlisp, o outcome) any {
	r := printedOutcome(env, o)
	if v, ok := r.([]any); ok && len(v) == 2 && v[0] == "val" {
		if str, ok := v[1].(string); ok {
			return []any{"val", genNameRe.ReplaceAllString(str, "__${1}N")}
		}
	}
	return r
}

// newFailEnv is an interpreter with the host functions that fail on demand
func newFailEnv() *zygo.Zlisp {
	env := newSessEnv()
	env.AddMacro("zvhostmacpanic", func(env *zygo.Zlisp, name string, args []zygo.Sexp) (zygo.Sexp, error) {
		panic("injected Go panic inside a host macro")
	})
	env.AddMacro("zvhostmacfail", func(env *zygo.Zlisp, name string, args []zygo.Sexp) (zygo.Sexp, error) {
		return zygo.SexpNull, fmt.Errorf("injected failure of a host macro")
	})
	env.AddFunction("zvfail", func(env *zygo.Zlisp, name string, args []zygo.Sexp) (zygo.Sexp, error) {
		return zygo.SexpNull, fmt.Errorf("injected failure")
	})
	env.AddFunction("zvgopanic", func(env *zygo.Zlisp, name string, args []zygo.Sexp) (zygo.Sexp, error) {
		panic("injected Go panic inside a builtin")
	})
	return env
}

// evalOrApply evaluates a text; a text "#apply NAME" is an evaluation entered through the host API:
// the host calls env.Apply on the function bound to NAME
func evalOrApply(env *zygo.Zlisp, text string) outcome {
	if !strings.HasPrefix(text, "#apply ") {
		return evalSafe(env, text)
	}
	name := strings.TrimSpace(strings.TrimPrefix(text, "#apply "))
	obj, ok := env.FindObject(name)
	fn, isFn := obj.(*zygo.SexpFunction)
	if !ok || !isFn {
		return outcome{Kind: "nilres", Err: "no function " + name}
	}
	var o outcome
	func() {
		defer func() {
			if r := recover(); r != nil {
				o = outcome{Kind: "panic", Err: fmt.Sprint(r)}
			}
		}()
		v, err := env.Apply(fn, nil)
		switch {
		case err != nil:
			o = outcome{Kind: "err", Err: err.Error()}
		case v == nil:
			o = outcome{Kind: "nilres"}
		default:
			o = outcome{Kind: "val", Val: v}
		}
	}()
	return o
}

var noopDir string

func caseFile(id, contents string) string {
	if noopDir == "" {
		var err error
		noopDir, err = os.MkdirTemp("", "zvnoop")
		if err != nil {
			fatal("%v", err)
		}
	}
	p := filepath.Join(noopDir, id+".zy")
	if err := os.WriteFile(p, []byte(contents), 0644); err != nil {
		fatal("%v", err)
	}
	return p
}

func runNoop(id string, d noopDef, variant string, nv noopVar, hasSet bool, uid int) noopCase {
	c := noopCase{ID: id, Def: d.name, Variant: variant, HasSet: hasSet}
	c.Fail = inst(nv.text, uid)
	if i := strings.Index(c.Fail, "#apply "); i > 0 {
		// the definition of the function that the host applies is a completed evaluation of its own
		c.Prep, c.Fail = c.Fail[:i], c.Fail[i:]
	}
	if nv.file != "" {
		c.File = inst(nv.file, uid)
		c.Fail = strings.ReplaceAll(c.Fail, "%F", caseFile(id, c.File))
	}
	if hasSet {
		c.Setup = inst(d.setup, uid) + "\n"
	}
	for _, p := range d.probes {
		c.Probes = append(c.Probes, inst(p, uid)+"\n")
	}
	quiet(func() {
		run := func(withFail bool, more string) ([]any, any) {
			env := newFailEnv()
			defer env.Close()
			evalSafe(env, noopPrelude)
			if c.Setup != "" {
				evalSafe(env, c.Setup)
			}
			if c.Prep != "" {
				evalSafe(env, c.Prep)
			}
			if more != "" {
				evalSafe(env, more)
			}
			if withFail {
				o := evalOrApply(env, c.Fail)
				c.FOut = maskedOutcome(env, o)
				c.ErrText = trunc(o.Err, 200)
				c.Depths = depthsOf(env)
			}
			var outs []any
			for _, p := range c.Probes {
				outs = append(outs, maskedOutcome(env, evalSafe(env, p)))
			}
			return outs, maskedOutcome(env, evalSafe(env, noopUsable))
		}
		c.A, c.UA = run(true, "")
		// the twin declares its own type names: the registry is process-wide
		saved := c
		c.Probes = append([]string(nil), c.Probes...)
		c.Setup = strings.ReplaceAll(c.Setup, fmt.Sprint(uid), fmt.Sprint(uid+1))
		c.Prep = strings.ReplaceAll(c.Prep, fmt.Sprint(uid), fmt.Sprint(uid+1))
		for i := range c.Probes {
			c.Probes[i] = strings.ReplaceAll(c.Probes[i], fmt.Sprint(uid), fmt.Sprint(uid+1))
		}
		c.Twin, c.UT = run(false, "")
		c.Twin2 = []any{}
		// twin2 also models the deviation "nested-reject-keeps-macros" (NoopTrace: Explains)
		if nv.redefFirst || (strings.HasPrefix(variant, "route-") && strings.HasPrefix(d.name, "defmac")) {
			c.Setup = strings.ReplaceAll(c.Setup, fmt.Sprint(uid+1), fmt.Sprint(uid+2))
			for i := range c.Probes {
				c.Probes[i] = strings.ReplaceAll(c.Probes[i], fmt.Sprint(uid+1), fmt.Sprint(uid+2))
			}
			c.Twin2, _ = run(false, inst(d.redef, uid+2)+"\n")
		}
		c.Setup, c.Prep, c.Probes = saved.Setup, saved.Prep, saved.Probes
	})
	return c
}

func init() {
	register("noop", "C05: a text that fails before it runs changes nothing (every kind of definition)", func(args []string) int {
		c := commonFlags("noop", args, nil)
		w := newWriter(c.out)
		defer w.close()
		defer func() {
			if noopDir != "" {
				os.RemoveAll(noopDir)
			}
		}()
		if c.replay != "" {
			readLines(c.replay, func(line []byte) {
				var in noopCase
				if err := json.Unmarshal(line, &in); err != nil {
					fatal("bad replay: %v", err)
				}
				var uid int
				fmt.Sscanf(in.ID, "n%d", &uid)
				for _, d := range noopDefs {
					if d.name == in.Def {
						w.write(runNoop(in.ID, d, in.Variant, noopVariants(d)[in.Variant], in.HasSet, uid))
					}
				}
			})
			return 0
		}
		idx := 0
		for di, d := range noopDefs {
			vs := noopVariants(d)
			var names []string
			for n := range vs {
				names = append(names, n)
			}
			sortStrings(names)
			for vi, vn := range names {
				for hs := 0; hs < 2; hs++ {
					if !noopWanted(di, d, vn, vi, hs, c.thorough()) {
						continue
					}
					if c.mine(idx) {
						uid := 3000000 + di*20000 + vi*100 + hs*10
						w.write(runNoop(fmt.Sprintf("n%d", uid), d, vn, vs[vn], hs == 1, uid))
					}
					idx++
				}
			}
		}
		return 0
	})
}

func sortStrings(xs []string) {
	for i := 1; i < len(xs); i++ {
		for j := i; j > 0 && xs[j] < xs[j-1]; j-- {
			xs[j], xs[j-1] = xs[j-1], xs[j]
		}
	}
}
