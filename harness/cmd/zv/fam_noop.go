package main

// Family "noop" (C05): a text that fails before any of it runs (parse error,
// compile error, macro-expansion error) changes nothing. For every kind of
// definition of the surface language: an interpreter evaluates a set-up text,
// then a failing text that (re)defines the same names, then probes; a twin
// evaluates the set-up text and the probes only. Both must answer the probes
// alike (NoopTrace.tla: the failing evaluation is a stuttering step).

import (
	"encoding/json"
	"fmt"
	"strings"
)

type noopDef struct {
	name   string
	setup  string   // defines the names
	redef  string   // a valid re-definition that behaves differently
	broken string   // a re-definition whose body does not compile ("" if the form has no body)
	probes []string // what a later evaluation can see of the names
}

// %d is replaced by a number unique to the case (type names are registered process-wide)
var noopDefs = []noopDef{
	{"def", `(def v%d 1)`, `(def v%d 2)`, `(def v%d (let [a] 1))`, []string{`v%d`}},
	{"set", `(def w%d 1)`, `(set w%d 2)`, `(set w%d (let [a] 1))`, []string{`w%d`}},
	{"defn", `(defn f%d [x] (+ x 1))`, `(defn f%d [x] (+ x 100))`, `(defn f%d [x] (let [a] 1))`, []string{`(f%d 2)`}},
	{"defmac", `(defmac m%d [x] ^(+ ~x 1))`, `(defmac m%d [x] ^(+ ~x 100))`, `(defmac m%d [x] (let [a] 1))`, []string{`(m%d 2)`, `(macexpand (m%d 2))`}},
	{"defmac-nested", `(defmac n%d [x] ^(+ ~x 1))`, `(defmac n%d [x] ^(+ ~x 100))`, `(defmac n%d [x] (cond true (let [a b c] 1) 2))`, []string{`(n%d 2)`}},
	{"struct", `(struct S%d [(field A: int64)])`, `(struct S%d [(field B: string)])`, ``, []string{`(S%d A: 1)`, `(S%d B: "s")`}},
	{"func", `(func g%d [a:int64] [r:int64] (return (+ a 1)))`, `(func g%d [a:int64] [r:int64] (return (+ a 100)))`, `(func g%d [a:int64] [r:int64] (return (let [a] 1)))`, []string{`(g%d 2)`}},
	{"var", `(var u%d int64)`, `(var u%d string)`, ``, []string{`u%d`, `(type? u%d)`}},
	{"package", `(def p%d (package "p%d" { A := 1; (defn F [x] (+ x A)) }))`, `(def p%d (package "p%d" { A := 100; (defn F [x] (+ x A)) }))`,
		`(def p%d (package "p%d" { A := (let [a] 1) }))`, []string{`(p%d.F 1)`, `(+ 0 p%d.A)`}},
	{"mdef", `(mdef a%d b%d (list 1 2))`, `(mdef a%d b%d (list 3 4))`, `(mdef a%d b%d (let [a] 1))`, []string{`(list a%d b%d)`}},
	{"infix-assign", `{x%d := 1}`, `{x%d = 2}`, `{x%d = (let [a] 1)}`, []string{`x%d`}},
	{"multi-assign", `(def c%d 1) (def d%d 1)`, `(c%d d%d = 3 4)`, `(c%d d%d = 3 (let [a] 1))`, []string{`(list c%d d%d)`}},
	{"hash-value", `(def h%d (hash a: 1))`, `(hset h%d a: 2)`, `(hset h%d a: (let [a] 1))`, []string{`(hget h%d a:)`}},
	{"array-value", `(def r%d [1 2])`, `(aset r%d 0 9)`, `(aset r%d 0 (let [a] 1))`, []string{`r%d`}},
	{"closure-state", `(def k%d (let [c 0] (fn [] (set c (+ c 1)) c)))`, `(k%d)`, `(begin (k%d) (let [a] 1))`, []string{`(k%d)`}},
	{"method", `(struct T%d [(field X: int64)]) (method [(p *T%d)] M%d [] [s:string] (return "one"))`,
		`(method [(p *T%d)] M%d [] [s:string] (return "two"))`, `(method [(p *T%d)] M%d [] [s:string] (return (let [a] 1)))`, []string{`(type? T%d)`}},
}

type noopCase struct {
	ID      string   `json:"id"`
	Def     string   `json:"def"`
	Variant string   `json:"variant"`
	HasSet  bool     `json:"hasset"`
	Setup   string   `json:"setup"`
	Fail    string   `json:"fail"`
	Probes  []string `json:"probes"`
	FOut    any      `json:"fout"`   // outcome of the failing text
	Depths  []int    `json:"depths"` // after the failing text
	A       []any    `json:"a"`      // probe outcomes after set-up + failing text
	Twin    []any    `json:"twin"`   // probe outcomes after set-up only
	ErrText string   `json:"errtext"`
}

const noopPrelude = "(defmac zvboom [] (aget [1] 5))\n"

func noopVariants(d noopDef) map[string]string {
	v := map[string]string{
		"then-compile-error":   d.redef + "\n(let [a] 1)\n",
		"then-parse-error":     d.redef + "\n(def q (\n)))\n",
		"then-unbalanced":      d.redef + "\n)\n",
		"after-compile-error":  "(let [a] 1)\n" + d.redef + "\n",
		"then-expansion-error": d.redef + "\n(zvboom)\n",
		"then-bad-jump":        d.redef + "\n(break)\n",
		"inside-begin":         "(begin " + d.redef + " (let [a] 1))\n",
		"inside-fn":            "(defn zvw [] " + d.redef + " (let [a] 1))\n",
	}
	if d.broken != "" {
		v["broken-body"] = d.broken + "\n"
	}
	return v
}

func runNoop(id string, d noopDef, variant, fail string, hasSet bool, uid int) noopCase {
	c := noopCase{ID: id, Def: d.name, Variant: variant, HasSet: hasSet}
	c.Fail = inst(fail, uid)
	if hasSet {
		c.Setup = inst(d.setup, uid) + "\n"
	}
	for _, p := range d.probes {
		c.Probes = append(c.Probes, inst(p, uid)+"\n")
	}
	quiet(func() {
		run := func(withFail bool) []any {
			env := newSessEnv()
			defer env.Close()
			evalSafe(env, noopPrelude)
			if c.Setup != "" {
				evalSafe(env, c.Setup)
			}
			if withFail {
				o := evalSafe(env, c.Fail)
				c.FOut = printedOutcome(env, o)
				c.ErrText = trunc(o.Err, 200)
				c.Depths = depthsOf(env)
			}
			var outs []any
			for _, p := range c.Probes {
				outs = append(outs, printedOutcome(env, evalSafe(env, p)))
			}
			return outs
		}
		c.A = run(true)
		// the twin declares its own type names: the registry is process-wide
		saved := c
		c.Setup = strings.ReplaceAll(c.Setup, fmt.Sprint(uid), fmt.Sprint(uid+1))
		for i := range c.Probes {
			c.Probes[i] = strings.ReplaceAll(c.Probes[i], fmt.Sprint(uid), fmt.Sprint(uid+1))
		}
		c.Twin = run(false)
		c.Setup, c.Probes = saved.Setup, saved.Probes
	})
	return c
}

func init() {
	register("noop", "C05: a text that fails before it runs changes nothing (every kind of definition)", func(args []string) int {
		c := commonFlags("noop", args, nil)
		w := newWriter(c.out)
		defer w.close()
		if c.replay != "" {
			readLines(c.replay, func(line []byte) {
				var in noopCase
				if err := json.Unmarshal(line, &in); err != nil {
					fatal("bad replay: %v", err)
				}
				var uid int
				fmt.Sscanf(in.ID, "n%d", &uid)
				for _, d := range noopDefs {
					if d.name == in.Def {
						w.write(runNoop(in.ID, d, in.Variant, noopVariants(d)[in.Variant], in.HasSet, uid))
					}
				}
			})
			return 0
		}
		idx := 0
		for di, d := range noopDefs {
			vs := noopVariants(d)
			var names []string
			for n := range vs {
				names = append(names, n)
			}
			sortStrings(names)
			for vi, vn := range names {
				for hs := 0; hs < 2; hs++ {
					if c.mine(idx) {
						uid := 3000000 + di*10000 + vi*100 + hs*10
						w.write(runNoop(fmt.Sprintf("n%d", uid), d, vn, vs[vn], hs == 1, uid))
					}
					idx++
				}
			}
		}
		return 0
	})
}

func sortStrings(xs []string) {
	for i := 1; i < len(xs); i++ {
		for j := i; j > 0 && xs[j] < xs[j-1]; j-- {
			xs[j], xs[j-1] = xs[j-1], xs[j]
		}
	}
}
