"""The generic check flow shared by the property families.

  build harness (from /repo's working tree, hooks on)
  -> model-check the spec itself (design audit; its failure is a modelling
     problem, exit 2, never a VIOLATION)
  -> harness records executions of the real code (ndjson, one case per line)
  -> TLC validates every recorded case against the spec (trace spec)
  -> every rejected case is re-executed from its replay file and re-validated
     before it is reported
  -> known findings (named deviations listed in known_findings.json) are
     reported as KNOWN-FINDING, anything else as VIOLATION
  -> evidence/<id>.json
"""
import json, os, sys, time
import vlib
from vlib import Inconclusive, log


class Outcome:
    def __init__(self, prop):
        self.prop = prop
        self.violations = []   # (case id, replay path, note)
        self.known = {}        # deviation name -> [case ids]
        self.states = 0
        self.transitions = 0
        self.traces = 0
        self.samples = []
        self.notes = []
        self.mc_runs = []
        self.extra = {}


def mc_runs(out, runs):
    """runs: list of dict(module, cfg, expect='ok'|'violation', workers, timeout, env)."""
    for r in runs:
        t = vlib.tlc(r["module"], r["cfg"], env=r.get("env"), workers=r.get("workers"),
                     timeout=r.get("timeout", 1500), extra=r.get("extra", ()))
        rec = {"module": r["module"], "cfg": r["cfg"], "distinct": t.distinct, "generated": t.generated,
               "wall_s": round(t.wall, 1), "violated": t.violated, "expect": r.get("expect", "ok")}
        out.mc_runs.append(rec)
        out.states += t.distinct
        out.transitions += t.generated
        if "timeout" in t.errors:
            raise Inconclusive("TLC timeout on %s/%s" % (r["module"], r["cfg"]))
        if r.get("expect", "ok") == "ok":
            if t.violated or t.errors or not t.completed:
                raise Inconclusive("specification audit failed (modelling problem, not a verdict about the code): %s %s %s\n%s"
                                   % (r["module"], r["cfg"], t.violated or t.errors, t.stdout[-2500:]))
        else:
            # a self-test: the named-deviation variant of the spec must be refuted by TLC
            if not t.violated:
                raise Inconclusive("self-test: %s/%s was expected to be refuted by TLC" % (r["module"], r["cfg"]))
        log("TLC %s/%s: %d distinct, %d generated, %.1fs %s" % (r["module"], r["cfg"], t.distinct, t.generated, t.wall,
                                                                 "(refuted as expected)" if t.violated else ""))


def validate(out, family, module, cfg, trace, zv, replay_args=(), env=None, deque=False, timeout=1500,
             max_confirm=25, workers=None, confirm=True, replay_env=None, noise=None):
    """Validate recorded cases; confirm rejections by re-execution; fill out."""
    prop = out.prop
    cases = vlib.load_cases(trace)
    if not cases:
        raise Inconclusive("harness produced no cases for " + family)
    v, t = vlib.validate_trace(module, cfg, trace, env=env, deque=deque, timeout=timeout, workers=workers)
    out.states += t.distinct
    out.transitions += t.generated
    missing = [i for i in cases if i not in v]
    if missing:
        raise Inconclusive("%d cases of %s got no verdict from TLC (e.g. %s)\n%s" % (len(missing), family, missing[:3], t.stdout[-2000:]))
    out.traces += len(cases)
    bad = [i for i in cases if v[i][0] == "bad"]
    for i in cases:
        if v[i][0].startswith("known:"):
            out.known.setdefault(v[i][0][6:], []).append(i)
    log("%s: %d cases validated by %s in %.1fs: %d rejected, %d explained by known deviations"
        % (family, len(cases), module, t.wall, len(bad), sum(len(x) for x in out.known.values())))
    if not out.samples:
        for i in list(cases)[:3]:
            out.samples.append(cases[i])
    # confirm rejections on the real code before reporting
    confirmed = []
    if bad and not confirm:
        # the recorded case is itself the evidence (e.g. two recorded runs of one program differ)
        for i in sorted(bad)[:max_confirm]:
            confirmed.append((i, vlib.save_replay(prop, cases[i], {"family": family, "verdict": list(v[i])}), v[i][1]))
    elif bad:
        todo = sorted(bad)[:max_confirm]
        rp = os.path.join(vlib.scratch(), "replay-%s.ndjson" % family)
        paths = {}
        with open(rp, "w") as f:
            for i in todo:
                paths[i] = vlib.save_replay(prop, cases[i], {"family": family, "verdict": list(v[i])})
                f.write(json.dumps(cases[i]) + "\n")
        fresh = os.path.join(vlib.scratch(), "fresh-%s.ndjson" % family)
        vlib.run_zv1(zv, family, ["-replay", rp, "-seed", str(vlib.seed()), "-tier", vlib.tier()] + list(replay_args), out=fresh, env=replay_env,
                     timeout=1500 if replay_env else 600)
        v2, _ = vlib.validate_trace(module, cfg, fresh, env=env, deque=deque, timeout=timeout, workers=workers)
        for i in todo:
            if v2.get(i, ("missing",))[0] == "bad":
                confirmed.append((i, paths[i], v[i][1]))
            else:
                out.notes.append("case %s rejected once but not on re-execution (%s)" % (i, v2.get(i)))
                try:
                    os.unlink(paths[i])
                except OSError:
                    pass
        # noise(case): the recorded rejection rests on a time limit of the harness (a call "did not return" on a busy
        # machine); when the re-execution, with a longer limit, is accepted, the first observation was the machine's
        unrepro = [i for i in todo if i not in [c[0] for c in confirmed]]
        if not confirmed and bad and noise and all(noise(cases[i]) for i in unrepro) and len(bad) == len(todo):
            out.notes.append("%d rejections rested on the harness's time limit and were accepted on re-execution with a longer one" % len(unrepro))
        elif not confirmed and bad:
            raise Inconclusive("rejections were not reproducible on re-execution: " + ", ".join(todo[:5]))
        if len(bad) > len(todo):
            out.notes.append("%d further rejected cases not individually confirmed" % (len(bad) - len(todo)))
    out.violations += confirmed
    return cases, v


def finish(out, level, coverage, assumptions, known_desc=None):
    """Print KNOWN-FINDING / VIOLATION lines, write evidence, return exit code."""
    prop = out.prop
    open_known = {k["id"]: k for k in vlib.known_findings(prop)}
    code = 0
    for dev, ids in sorted(out.known.items()):
        if dev in open_known:
            print("KNOWN-FINDING: property=%s %s: %s (%d cases, e.g. %s)" % (prop, dev, open_known[dev].get("what", ""), len(ids), ids[0]))
        else:
            # a deviation that is not listed as open is a violation
            out.violations.append((ids[0], "-", "deviation %s observed but not listed as an open finding" % dev))
    for (cid, path, note) in out.violations:
        print("VIOLATION property=%s replay=%s" % (prop, path))
        log("  case %s %s" % (cid, note))
        code = 1
    coverage = dict(coverage)
    coverage.setdefault("samples", out.samples[:3] or ["(none)"])
    if out.mc_runs:
        coverage["tlc_runs"] = out.mc_runs
    if out.notes:
        coverage["notes"] = out.notes[:20]
    coverage["known_findings_observed"] = {k: len(v) for k, v in out.known.items()}
    coverage.update(out.extra)
    path = vlib.write_evidence(prop, level, coverage, assumptions, len(out.violations))
    log("evidence written to", path, "exit", code)
    return code
