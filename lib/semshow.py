import json,sys
want=set(l.strip() for l in open('/tmp/semtry/bad.txt'))
n=int(sys.argv[1]) if len(sys.argv)>1 else 3
k=0
for l in open('/tmp/semtry/sem.ndjson'):
    d=json.loads(l)
    if d['id'] in want:
        print('=====',d['id']); print(d['text']); print('OUT',d['out'],d.get('errtext')); print('FX',d['fx']); k+=1
        if k>=n: break
