#!/bin/bash
# development aid: confirm a seeded change delivered by a sub-agent, then test the checks against it.
# usage: [MUT=/tmp/mut2] lib/seedconfirm.sh <PROP> <A|B> [check ids... default PROP]
# seeds of the second round (MUT=/tmp/mut2) are stored as <PROP>-C / <PROP>-D
P=$1; V=$2; shift 2; CHECKS=${@:-$P}
MUT=${MUT:-/tmp/mut}
W=$MUT/$P; D=$MUT/$P-demo
L=$V; if [ "$MUT" != /tmp/mut ]; then case $V in A) L=C;; B) L=D;; esac; fi
export GOFLAGS=-mod=mod GOPROXY=off
cd $W || exit 2
git checkout -q -- . ; git apply --check $D/$V.diff || { echo "CONFIRM $P-$V: diff does not apply"; exit 2; }
# without the change: demo passes
without=$(cd $D/$V && go test -count=1 ./... 2>&1 | tail -1)
git apply $D/$V.diff
build=$(cd zygo && go build ./ 2>&1 && go build -tags verif ./ 2>&1 && echo built)
suite=$(cd zygo && go test -vet=off -count=1 ./ 2>&1 | tail -1)
with=$(cd $D/$V && go test -count=1 ./... 2>&1 | grep -c "^--- FAIL\|^FAIL")
git checkout -q -- .
echo "CONFIRM $P-$V build=[$build] suite=[$suite] demo-without=[$without] demo-with-fails=$with"
case "$suite" in ok*) ;; *) echo "suite does not pass with the change"; exit 1;; esac
[ "$with" -gt 0 ] || { echo "demo does not fail with the change"; exit 1; }
case "$without" in ok*) ;; *) echo "demo does not pass without the change"; exit 1;; esac
# does it still apply to the current /repo?
out=$(/verif/lib/seedtest.sh $D/$V.diff $CHECKS 2>&1); echo "$out" | grep "RESULT\|does not apply\|INCONCLUSIVE" 
S=/verif/seeded/$P-$L; mkdir -p $S; cp $D/$V.diff $S/patch.diff; rm -rf $S/demo; mkdir -p $S/demo; cp $D/$V/*.go $S/demo/ 2>/dev/null
echo "$out" | grep RESULT > $S/check_results.txt
