#!/bin/bash
# development aid: confirm a seeded change delivered by a sub-agent, then test the checks against it.
# usage: [MUT=/tmp/mut2] lib/seedconfirm.sh <PROP> <A|B> [check ids... default PROP]
# seeds of the second round (MUT=/tmp/mut2) are stored as <PROP>-C / <PROP>-D, of the fifth (MUT=/tmp/mut5) as -E / -F
P=$1; V=$2; shift 2; CHECKS=${@:-$P}
MUT=${MUT:-/tmp/mut}
W=$MUT/$P; D=$MUT/$P-demo
L=$V
case "$MUT" in
  /tmp/mut) ;;
  /tmp/mut5) case $V in A) L=E;; B) L=F;; esac;;
  *) case $V in A) L=C;; B) L=D;; esac;;
esac
export GOFLAGS=-mod=mod GOPROXY=off
cd $W || exit 2
git checkout -q -- . ; git apply --check $D/$V.diff || { echo "CONFIRM $P-$V: diff does not apply"; exit 2; }
# without the change: demo passes
without=$(cd $D/$V && go test -count=1 ./... 2>&1 | tail -1)
git apply $D/$V.diff
build=$(cd zygo && go build ./ 2>&1 && go build -tags verif ./ 2>&1 && echo built)
suite=$(cd zygo && go test -vet=off -count=1 ./ 2>&1 | tail -1)
with=$(cd $D/$V && go test -count=1 ./... 2>&1 | grep -c "^--- FAIL\|^FAIL")
git checkout -q -- .
echo "CONFIRM $P-$V build=[$build] suite=[$suite] demo-without=[$without] demo-with-fails=$with"
case "$suite" in ok*) ;; *) echo "suite does not pass with the change"; exit 1;; esac
[ "$with" -gt 0 ] || { echo "demo does not fail with the change"; exit 1; }
case "$without" in ok*) ;; *) echo "demo does not pass without the change"; exit 1;; esac
# does it still apply to the current /repo?
out=$(/verif/lib/seedtest.sh $D/$V.diff $CHECKS 2>&1); echo "$out" | grep "RESULT\|does not apply\|INCONCLUSIVE" 
S=/verif/seeded/$P-$L; mkdir -p $S; cp $D/$V.diff $S/patch.diff; rm -rf $S/demo; mkdir -p $S/demo; cp $D/$V/*.go $S/demo/ 2>/dev/null
echo "$out" | grep RESULT > $S/check_results.txt
# meta.json from the agent's description (round 5: $D/$V.json), completed with what was run here
if [ -f $D/$V.json ]; then python3 - "$D/$V.json" "$S/meta.json" "$P" "$L" "$MUT" "$V" <<'PY'
import json,sys
src,dst,P,L,MUT,V=sys.argv[1:]
try: m=json.load(open(src))
except Exception as e: m={"note":"agent description unreadable: %s"%e}
out={"id":P+"-"+L,"property":P,"round":5 if MUT=="/tmp/mut5" else None}
out.update(m)
out["demonstration"]="demo/x_test.go"
out["confirmed"]="MUT=%s lib/seedconfirm.sh %s %s (stored as -%s): patch applied in a scratch git worktree of /repo; library builds with and without -tags verif; zygo test suite passes with the patch; demo passes without the patch and fails with it"%(MUT,P,V,L)
json.dump(out,open(dst,"w"),indent=1)
PY
fi
