#!/bin/bash
# development aid: run the quick check of its property against every seeded change (scratch copy of /repo
# with the change applied) and write seeded/<id>/final_result.txt. usage: lib/seedsweep.sh [id...]
cd /verif
ids=${@:-$(ls seeded)}
for id in $ids; do
  d=seeded/$id; [ -d "$d" ] || continue
  p=${id%%-*}
  patch=$d/patch.diff; [ -f $d/patch-rebased.diff ] && patch=$d/patch-rebased.diff
  out=$(lib/seedtest.sh $patch $p 2>&1)
  if echo "$out" | grep -q "patch does not apply"; then
    echo "patch does not apply to the current tree" > $d/final_result.txt
  else
    echo "$out" | grep "^RESULT" | sed 's/^RESULT //' > $d/final_result.txt
    echo "$out" | grep "rejected" | head -2 | sed 's/^\[check\] //' >> $d/final_result.txt
  fi
  echo "$id: $(head -1 $d/final_result.txt)"
done
