#!/bin/bash
# development aid: does the demonstration of a seed still fail with its (rebased) patch on the current tree,
# and pass without it? usage: lib/seeddemo.sh <seed-id>
id=$1; d=/verif/seeded/$id
patch=$d/patch.diff; [ -f $d/patch-rebased.diff ] && patch=$d/patch-rebased.diff
R=$(mktemp -d /tmp/seeddemo-XXXXXX); trap 'rm -rf "$R"' EXIT
mkdir $R/repo $R/demo; rsync -a --exclude .git /repo/ $R/repo/
cp $d/demo/*.go $R/demo/
cat > $R/demo/go.mod <<EOM
module demo
go 1.24.2
require github.com/glycerine/zygomys/v9 v9.0.0
replace github.com/glycerine/zygomys/v9 => $R/repo
EOM
cp /repo/go.sum $R/demo/
export GOFLAGS=-mod=mod GOPROXY=off
without=$(cd $R/demo && timeout 600 go test -count=1 ./... 2>&1 | tail -1)
( cd $R/repo && patch -p1 -s < $patch ) || { echo "$id: patch does not apply"; exit 2; }
with=$(cd $R/demo && timeout 600 go test -count=1 ./... 2>&1 | grep -c "^--- FAIL\|^FAIL\|panic:")
echo "$id: demo-without=[$without] demo-with-fails=$with"
