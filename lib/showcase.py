import json,sys
rec=json.load(open(sys.argv[1]))
c=rec['case']; v=rec.get('verdict',['',''])
try: pos=int(str(v[1]).split(',')[0])
except Exception: pos=None
print('case',c['id'],'verdict',v)
for i,e in enumerate(c.get('evs',[])):
    mark='>>' if pos==i+1 else '  '
    if pos is None or abs(i+1-pos)<=int(sys.argv[2]) if len(sys.argv)>2 else True:
        print(mark,i+1,e.get('text'),'=>',json.dumps(e.get('res')),e.get('raw',''))
