#!/bin/bash
# development aid: apply the ```diff block of a proposed_fixes/*.md to /repo, run the suite, commit as "fix: ..."
md=$1; msg=$2
python3 - "$md" > /tmp/applyfix.diff <<'PY'
import sys,re
s=open(sys.argv[1]).read()
out = []
for b in re.findall(r"```diff\n(.*?)```", s, re.S):
    # split into per-file diffs; drop those about backup files (*.orig, *.rej) that a diff tool picked up
    parts = re.split(r"(?m)^(?=diff --git |--- a/|--- /dev/null|deleted file mode)", b)
    cur = ""
    files = []
    for part in re.split(r"(?m)^(?=diff --git )", b) if "diff --git " in b else re.split(r"(?m)^(?=(?:deleted file mode.*\n)?--- )", b):
        if not part.strip():
            continue
        m = re.search(r"(?m)^--- (?:a/)?(\S+)", part)
        m2 = re.search(r"(?m)^\+\+\+ (?:b/)?(\S+)", part)
        name = (m2.group(1) if m2 and m2.group(1) != "/dev/null" else (m.group(1) if m else ""))
        if name.endswith(".orig") or name.endswith(".rej") or (m and m.group(1).endswith(".orig")):
            continue
        out.append(part)
sys.stdout.write("".join(out))
PY
cd /repo || exit 1
if ! patch -p1 --dry-run < /tmp/applyfix.diff >/dev/null; then echo "PATCH DOES NOT APPLY: $md"; patch -p1 --dry-run < /tmp/applyfix.diff | tail -5; exit 1; fi
patch -p1 --no-backup-if-mismatch < /tmp/applyfix.diff >/dev/null
export GOFLAGS=-mod=mod GOPROXY=off
gofmt -l zygo/*.go | grep -v "blake2.go\|jsonmsgp_test.go\|scopes.go" 
if ! (cd zygo && go build ./ && go test -vet=off -count=1 ./ 2>&1 | tail -1 | grep -q "^ok"); then echo "TESTS FAIL after $md"; git checkout -- .; exit 1; fi
git commit -qam "$msg" && git log --oneline | head -1
