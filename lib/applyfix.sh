#!/bin/bash
# development aid: apply the ```diff block of a proposed_fixes/*.md to /repo, run the suite, commit as "fix: ..."
md=$1; msg=$2
python3 - "$md" > /tmp/applyfix.diff <<'PY'
import sys,re
s=open(sys.argv[1]).read()
for b in re.findall(r"```diff\n(.*?)```", s, re.S): sys.stdout.write(b)
PY
cd /repo || exit 1
if ! patch -p1 --dry-run < /tmp/applyfix.diff >/dev/null; then echo "PATCH DOES NOT APPLY: $md"; patch -p1 --dry-run < /tmp/applyfix.diff | tail -5; exit 1; fi
patch -p1 < /tmp/applyfix.diff >/dev/null
export GOFLAGS=-mod=mod GOPROXY=off
gofmt -l zygo/*.go | grep -v "blake2.go\|jsonmsgp_test.go\|scopes.go" 
if ! (cd zygo && go build ./ && go test -vet=off -count=1 ./ 2>&1 | tail -1 | grep -q "^ok"); then echo "TESTS FAIL after $md"; git checkout -- .; exit 1; fi
git commit -qam "$msg" && git log --oneline | head -1
