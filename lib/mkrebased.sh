#!/bin/bash
# development aid: make seeded/<id>/patch-rebased.diff from an edit script applied to a scratch copy of /repo
# usage: lib/mkrebased.sh <seed-id> <python-edit-script>   (the script edits files under $R)
id=$1; script=$2
R=$(mktemp -d /tmp/rebase-XXXXXX); trap 'rm -rf "$R"' EXIT
rsync -a --exclude .git /repo/ "$R"/
( cd "$R" && git init -q && git add -A >/dev/null && git -c user.email=a@b -c user.name=x commit -qm base )
R="$R" python3 "$script" || exit 1
( cd "$R" && git diff ) > /verif/seeded/$id/patch-rebased.diff
( cd "$R/zygo" && GOFLAGS=-mod=mod GOPROXY=off go build ./ && go build -tags verif ./ && go test -vet=off -count=1 ./ 2>&1 | tail -1 )
wc -l /verif/seeded/$id/patch-rebased.diff
