#!/usr/bin/env python3
"""Regenerate /verif/MANIFEST.json from the table below (python3 lib/mkmanifest.py)."""
import json, os
ROOT = os.path.dirname(os.path.dirname(os.path.abspath(__file__)))

HOOK_COMMITS = ["9aaf85a", "64428c4"]

# id -> (engine, category, text, note, technique)
CHECKS = {
 "C14": ("HashMap", "model_checking",
  "TLC checks the refinement HashImpl => HashMap over every history of a key universe with aliases and colliding bucket codes (finite state space, so histories of every length), and validates every script-level result of exhaustive short and random long histories on a real hash against HashMap!Apply.",
  "key universe of 12 keys / 3 values; printed form and JSON parsed back by the harness; HashImpl is a hand transcription of hashutils.go, verdicts come only from recorded executions",
  "TLA+ spec (HashMap/HashImpl); TLC refinement check + TLC trace validation of recorded executions"),
 "C19": ("Symtab", "model_checking",
  "TLC explores all interleavings of intern/gensym/duplicate over a family of <=3 interpreters sharing one table with a name pool containing generated-shaped names (Injective, FreshGensym), and validates histories recorded on a real family (Go API and script level) against the bijection/freshness monitor.",
  "only the relation name<->number is judged; root interpreter built with a small function table; Symtab.tla mirrors environment.go by hand",
  "TLA+ spec (Symtab); TLC exhaustive exploration + TLC trace validation of recorded executions"),
 "C02": ("ZSem", "model_checking",
  "A definitional interpreter of the core language written in TLA+ (ZSem) is the reference evaluator; TLC evaluates it on every program the harness ran on the real interpreter (all depth-2 nestings of the control forms with traced leaves, top level and tail positions; seeded random programs per feature slice with random layout) and compares value/error and the order of host calls.",
  "only the fragment ZSem defines is judged (undefined outcomes and fuel exhaustion are skipped and counted); errors compared as 'some error'; programs are bounded in size",
  "TLA+ reference semantics (ZSem); TLC trace validation of recorded executions"),
 "C03": ("ZSem", "model_checking",
  "ZSem models frames as heap objects with parent pointers and closures capturing their frame of creation; TLC validates programs over a tiny name pool (shadowing/capture collisions in almost every program; closures returned, stored, passed, collected in loops, called after their creator returned, tail calls) run on the real interpreter.",
  "as C02; the scoping grammar is generated randomly (seeded), not exhaustively",
  "TLA+ reference semantics (ZSem); TLC trace validation of recorded executions"),
 "C04": ("Session+Bytecode", "model_checking",
  "SessionTrace: the four stack depths of a long-lived real interpreter are validated by TLC around every evaluation of sequences over a catalogue of ~85 surface-language forms (rest <<0,1,0,0>>, empty evaluation is nil, piecewise = together, 200-1000 repetitions without growth). Bytecode: the real compiler's listings (catalogue, generated programs, tail shapes) are executed abstractly by TLC along all control paths (no underflow, one value and no open scope at every return/end, exact state at self tail calls, bounded height).",
  "depths read through the verif accessor; Bytecode.tla's per-instruction effect table is hand-written from vm.go; failing forms are C05's",
  "TLA+ spec (SessionTrace, Bytecode); TLC trace validation + TLC exploration of all control paths of dumped bytecode"),
 "C07": ("NumTower", "exploration",
  "Every pair of a 92-value boundary grid (min/max int64/uint64, 2^53+-1, 2^63, +-0, subnormals, +-Inf, NaNs) in both orders under 11 operators and all 16 type combinations, plus seeded random 64-bit patterns, evaluated on the real interpreter; TLC validates every recorded result against NumTower!Expect and the trichotomy/antisymmetry laws on the recorded results; the NumTower definitions are model-checked exhaustively against integer/rational arithmetic at 6/8-bit word size.",
  "float64 + - * / results delegated (math/big, cross-checked); uint64 mixed with int/char, mod values, min/-1 and int-vs-char order beyond the laws are not judged (statement silent); the 64-bit instance shares the module audited at 6/8 bits",
  "TLA+ spec (NumTower); TLC exhaustive audit at small width + TLC trace validation of recorded evaluations"),
 "C09": ("ZSem+TailTrace", "model_checking",
  "All nestings (depth 2, thorough 3) of the 8 tail contexts x 5 body features: n=0..3 with traced effects (incl. what closures of earlier iterations return) validated by TLC against ZSem, which has no tail-call optimisation; n=10..10^4 (some 10^5) with the high-water marks of the data/scope/address stacks sampled at every VM step validated against TailTrace (independent of n, run completes); the real bytecode of every shape is checked by Bytecode.tla (TailExact) under C04.",
  "space is judged in VM stack entries via the verif step hook; shapes are the enumerated ones",
  "TLA+ reference semantics (ZSem) + TailTrace; TLC trace validation of recorded executions"),
 "C05": ("ZSem+FaultTrace", "fault_enumeration",
  "Seeded programs with (fail) host calls in every context (top level, function, loop, let, newScope, map/apply callbacks, lazy forcing, eval); for EVERY k the k-th call fails (script error / Go panic inside the builtin), plus parse and compile errors in the text; the error, the stack depths, the effect trace and a battery of follow-up evaluations are validated by TLC against ZSem (store after failure = store at the failure point).",
  "one injected failure per case, at most 14 failure points per program; macro-expansion-time failures not injected; ZSem's defined fragment only",
  "TLA+ reference semantics (ZSem) + FaultTrace; fault enumeration over every host-call index; TLC trace validation"),
 "C16": ("ZSem", "model_checking",
  "Complete enumeration of parameter masks {lazy,strict}^{1..3} x variadic tail x 11 call routes (direct, alias, parameter, computed callee, apply on array/list, map, tail recursion, forcing after the caller returned with shadowing locals, erroring argument in a lazy/strict position) x 5 force patterns; value and effect trace (count and order of argument evaluations) validated by TLC against ZSem's thunk rules.",
  "typed func declarations are not among the routes; ZSem's defined fragment only",
  "TLA+ reference semantics (ZSem); TLC trace validation of recorded executions"),
 "C15": ("Quasi", "translation_validation",
  "Quasi!Subst is an independent substitution function over templates with unquote / unquote-splicing in lists, arrays and hash forms (its laws are model-checked by TLC over all small templates). Every ^template of width <= 3 over 18 element kinds plus depth-3 nestings is evaluated on the real interpreter and compared by TLC with Subst; 8 macro bodies x 5 call sites: macexpand vs Subst, macro call vs hand-written expansion (value and effects), caller depths/globals around the expansion.",
  "template language of Quasi.tla (no nested syntax-quotes, no top-level splice); hand expansion text written by the harness's own substitution",
  "TLA+ spec (Quasi); TLC law audit + TLC trace validation of recorded evaluations"),
 "C17": ("Records", "model_checking",
  "TLC explores every history (up to 4 steps over the full palette, 5 over a reduced one) of declare / redeclare / construct / decode / field write (direct, non-symbol key, through a struct or pointer field) / element assignment / whole-instance assignment of the typed-record machine and checks WellTyped, RejectedUnchanged, KeepsDefinition; every step of exhaustive route x field-type x value-kind matrices, redeclaration histories, all short operation histories and seeded random histories executed on the real interpreter is validated by TLC against the same transition relation (result and the keys / value types of every live instance).",
  "2-4 struct names, 8 field types, 21 value kinds, 35 routes; struct/pointer values across redeclared versions and cross-version derefSet are unconstrained; value types are read off Go values; one open known finding (slice-element-unchecked) is a named deviation",
  "TLA+ spec (Records); TLC bounded exhaustive exploration + TLC trace validation of recorded executions; named deviations"),
 "C01": ("CrashTrace", "exploration",
  "In worker subprocesses with the verif step budget armed: every special form x arity 0..3 x 15 argument shapes, every callable name of a live sandboxed+StandardSetup interpreter x arity 0..3 x a 15-value palette, all strings over a 40-token alphabet up to length 3, sequences of calls on one interpreter and byte/token mutants of the script corpus, through EvalString, LoadString+Run, ParseTokens+EvalExpressions and macexpand; TLC validates every recorded outcome sequence against the one-state machine whose only outcomes are value / error / more-input / budget (escaped panic, nil result, process death are rejected).",
  "names whose purpose is to leave the process or to block (exit, sys, sleep, stdin readers, file writers) are outside the universe; a single huge allocation request is not in the palette; cmd/zygo and the interactive reader are exercised under C08",
  "TLA+ spec (CrashTrace); exhaustive input enumeration in isolated workers + TLC trace validation"),
 "C11": ("Codec", "exploration",
  "Every generated data value (scalar classes x 18 contexts to depth 3, all trees to depth 2 over a palette, strings of <= 3 character classes over the full Unicode range, int/float boundary grid, seeded random trees) is encoded by the real library; TLC decides for each recorded case that the JSON token tree (parsed by encoding/json) denotes the value (Codec!JDen) and that unjson/unmsgpack results equal it (Eq11), and audits the character-class escape table against the JSON grammar.",
  "well-formedness delegated to encoding/json; NaN/Inf and invalid UTF-8 excluded; MCCodec is a design audit of the spec, verdicts only from recorded executions; one open known finding (uint64 >= 2^63 does not decode)",
  "TLA+ spec (Codec/Decimal); TLC audit of the spec + TLC trace validation of recorded executions; named deviations"),
 "C12": ("Codec+NumLit", "exploration",
  "Every generated data value is printed by the real library and read back as data, evaluated, and saved/sourced (hashes); every numeric literal spelling of <= 3 (thorough 4) symbols over an 18-symbol alphabet plus directed and grammar-drawn spellings is read; TLC decides identity (Codec!Same) and, with NumLit!Classify, the exact integer value or the correct rounding of the exact decimal value of each spelling.",
  "float rounding intervals from math/big (trusted); texts padded with white space (C13's statement covers unpadded texts); records and non-lexable symbols not generated",
  "TLA+ spec (Codec/NumLit/Decimal); TLC audit of the spec + TLC trace validation of recorded executions"),
 "C18": ("Packages", "exploration",
  "TLC evaluates the visibility function of Packages.tla on every (tree, path, route, alias kind, alias prefix) up to the bounds, auditing it against the declarative reading of the statement and against implementation-shaped walkers; it validates every value / error, and the tree after every step, of ~106 k (quick) / ~1.07 M (thorough) recorded accesses on real package trees against Packages!Apply (9 read routes, 5 write routes, 8 alias kinds, inside accessor calls, every write read back from inside).",
  "package depth 3; name classes upper / lower / non-letter; hashes 3 deep; non-capitalised keys of a visible hash member, non-letter names and final-hop access to a lower-named nested package are not judged",
  "TLA+ spec (Packages: Visible + code-shaped walkers); TLC consistency check + TLC trace validation of recorded executions"),
 "C20": ("Process+DetermTrace", "model_checking",
  "Process.tla explores every iteration order of the registry scans over the LIVE registry content (dumped from the interpreter) and checks confluence; DetermTrace validates that 4 runs in fresh interpreters of one process (other interpreters declaring structs/records/packages in between) and 3-6 fresh processes of each program (fixed probes incl. a Go type registered under two names, the surface-language catalogue, the deterministic script corpus, generated programs) are one behaviour (printed value, error text, captured stdout).",
  "addresses/goroutine ids/stack traces masked; random, time, pointer, file, channel, gensym-name programs excluded; runs sample map seeds, the model enumerates the orders",
  "TLA+ spec (Process, DetermTrace); TLC exploration of map-walk orders over live constants + TLC trace validation of repeated runs"),
 "C06": ("Pratt", "translation_validation",
  "Every recorded infix block is judged by a declarative TLA+ definition of the documented precedence table on six counts: the tokens the reader delivered, the tree of (infixExpand {..}) including nested blocks, the infix-free prefix program (checked to be the predicted form), and the value, the (tr x) effects and the final state of both. Blocks are exhaustive for <=3 (thorough <=4) operators over every operator in two spacings, plus statement lists, if/else, for headers, indexing/slicing/fields and seeded random long programs. TLC separately checks that the definition, ValidTree (with uniqueness) and a transcription of the pratt.go algorithm agree on every token list up to the bound, and refutes the pinned deviations.",
  "and/or taken as one right-assoc level; range-for, prefix *, [-literals at statement start, mid-expression ++ and asymmetric spacing around + - are outside the generated domain; errors compared as errors only; verdicts come only from recorded executions judged by the declarative definition",
  "TLA+ spec (Pratt); TLC agreement/uniqueness audit + TLC trace validation of recorded translations and evaluations"),
 "C10": ("GoInterop", "translation_validation",
  "Every record graph the harness builds on the real interpreter - per-field palettes, wrong kinds and undeclared keys at every position, every pair/triple of reference positions sharing a record, cycles, seeded random graphs - is converted with togo and through identity Go methods; TLC computes the required Go value (Fill) from the graph alone and compares it with the reflection dump (object identities included) and the record handed back (MatchStruct); the spec itself is model-checked for NoLoss / OneObject / UnknownKey / WrongKind over all records with <= 2 fields and a sharing pool.",
  "finite palettes; nil/symbol into basic fields, integral floats into integer fields, unsigned fields and sharing among returned records are not judged; cyclic graphs are converted in child processes; two open known findings (fields dropped on the way back; cyclic Go values on the way back)",
  "TLA+ functional spec over a Go type algebra (GoInterop); TLC exploration + TLC trace validation of recorded conversions; named deviations"),
 "C08": ("Sandbox", "exploration",
  "Every name of the live universe (everything bound in the bare / StandardSetup / unsandboxed interpreters, the bindings of the real zygo -sandbox binary, macros, the special forms parsed out of GenerateCallBySymbol, reserved words, repl commands) x 8 derivation routes (direct, alias, eval of a quoted form, str2sym+eval, apply, macro body, infix builder, closure body) x 16 argument shapes x {bare sandbox, sandbox+StandardSetup, cmd/zygo -sandbox}, plus seeded grammar-generated programs, executed in worker subprocesses / on the real binary in a throw-away directory with file, path, shell-marker, environment and exit canaries (inotify); TLC validates every recorded probe against SandboxTrace (event set empty), enumerates the vectors, model-checks the derivation closure (NoMinting, DeadStaysDead) over the live universe; an unsandboxed control must show every capability of every known primitive through every route.",
  "only canary effects are watched (no network/clock/stdout); crashes (Go panics) are C01's, not exit events; existence probing is not counted as a read; cmd macros assumed equal to std",
  "TLA+ spec (Sandbox); TLC exploration of the derivation closure over the dumped universe + vector generation + TLC trace validation of subprocess probes; control/sensitivity check"),
 "C13": ("ParseSession", "model_checking",
  "ParseSession.tla is a lexical-mode/bracket automaton over character classes that defines Unfinished(text) and a session machine (feed, reset-and-load, abandon) with 12 histories; TLC model-checks it over all texts/cuts up to the bound. Every text over the 20-class alphabet up to length 3 (and structured longer ones) x every single cut and pair of cuts x histories, every tests/*.zy file with seeded cuts, and seeded random texts/multi-cuts are fed piecewise to the real parser; TLC validates the status after every piece (more-input exactly on unfinished prefixes), piecewise = whole (reference parsed by a fresh parser), history independence and that the last token is never lost.",
  "expressions are compared relationally (pieces vs whole text on a fresh parser); a Go panic escaping the parser is C01's (recorded, not judged here); cuts after a complete prefix are judged as two texts",
  "TLA+ spec (ParseSession); TLC model checking of the automaton + TLC trace validation of piecewise deliveries"),
}

ENGINES = [
 {"name": "ParseSession", "path": "spec/ParseSession.tla spec/MCParseSession.tla spec/ParseTrace.tla", "serves_properties": ["C13"], "kind_free_text": "TLA+ lexical automaton + session state machine + trace specification, TLC"},
 {"name": "Sandbox", "path": "spec/Sandbox.tla spec/MCSandbox.tla spec/SandboxTrace.tla", "serves_properties": ["C08"], "kind_free_text": "TLA+ capability/derivation model over the live universe + trace specification, TLC"},
 {"name": "GoInterop", "path": "spec/GoInterop.tla spec/MCGoInterop.tla spec/GoInteropTrace.tla", "serves_properties": ["C10"], "kind_free_text": "TLA+ functional spec over a Go type algebra + trace specification, TLC"},
 {"name": "Pratt", "path": "spec/Pratt.tla spec/MCPratt.tla spec/MCPrattForms.tla spec/PrattTrace.tla", "serves_properties": ["C06"], "kind_free_text": "TLA+ declarative grammar + algorithm model + trace specification, TLC"},
 {"name": "CrashTrace", "path": "spec/CrashTrace.tla", "serves_properties": ["C01"], "kind_free_text": "TLA+ trace specification of the entry-point outcome machine, TLC"},
 {"name": "Codec", "path": "spec/Decimal.tla spec/Codec.tla spec/CodecTrace.tla spec/MCCodec.tla", "serves_properties": ["C11"], "kind_free_text": "TLA+ functional spec + audit + trace specification, TLC"},
 {"name": "Codec+NumLit", "path": "spec/Codec.tla spec/NumLit.tla spec/PrintReadTrace.tla spec/MCNumLit.tla", "serves_properties": ["C12"], "kind_free_text": "TLA+ functional spec + audit + trace specification, TLC"},
 {"name": "Packages", "path": "spec/Packages.tla spec/PackagesTrace.tla spec/MCPackages.tla", "serves_properties": ["C18"], "kind_free_text": "TLA+ functional spec + code-shaped walkers + trace specification, TLC"},
 {"name": "Process+DetermTrace", "path": "spec/Process.tla spec/DetermTrace.tla", "serves_properties": ["C20"], "kind_free_text": "TLA+ confluence model over live constants + trace specification, TLC"},
 {"name": "Quasi", "path": "spec/Quasi.tla spec/MCQuasi.tla spec/QuasiTrace.tla", "serves_properties": ["C15"], "kind_free_text": "TLA+ functional spec + law audit + trace specification, TLC"},
 {"name": "Records", "path": "spec/Records.tla spec/RecordsTrace.tla spec/MCRecords.tla", "serves_properties": ["C17"], "kind_free_text": "TLA+ state machine + trace specification, TLC"},
 {"name": "ZSem+FaultTrace", "path": "spec/ZSem.tla spec/FaultTrace.tla", "serves_properties": ["C05"], "kind_free_text": "TLA+ reference semantics with failure injection + trace specification, TLC"},
 {"name": "Session+Bytecode", "path": "spec/SessionTrace.tla spec/Bytecode.tla", "serves_properties": ["C04"], "kind_free_text": "TLA+ trace specification of the interpreter's rest state + abstract interpreter of dumped bytecode, TLC"},
 {"name": "NumTower", "path": "spec/NumTower.tla spec/MCNumTower.tla spec/NumTrace.tla", "serves_properties": ["C07"], "kind_free_text": "TLA+ functional spec on limb sequences + trace specification, TLC"},
 {"name": "ZSem+TailTrace", "path": "spec/ZSem.tla spec/SemTrace.tla spec/TailTrace.tla", "serves_properties": ["C09"], "kind_free_text": "TLA+ reference semantics + space law, TLC"},
 {"name": "ZSem", "path": "spec/ZSem.tla spec/SemTrace.tla", "serves_properties": ["C02", "C03", "C16"], "kind_free_text": "TLA+ definitional interpreter (recursive operators) + trace specification, TLC"},
 {"name": "HashMap", "path": "spec/HashMap.tla spec/HashImpl.tla spec/MCHash.tla spec/HashTrace.tla", "serves_properties": ["C14"], "kind_free_text": "TLA+ state machine + refinement + trace specification, TLC"},
 {"name": "Symtab", "path": "spec/Symtab.tla spec/SymtabTrace.tla", "serves_properties": ["C19"], "kind_free_text": "TLA+ state machine + trace specification, TLC"},
]

NOT_YET = "check not built yet (work in progress, DESIGN.md §8)"


def main():
    checks = []
    for pid in sorted(CHECKS):
        eng, cat, text, note, tech = CHECKS[pid]
        checks.append({
            "property_id": pid,
            "quick_cmd": "./check %s" % pid,
            "thorough_cmd": "VERIF_TIER=thorough ./check %s" % pid,
            "evidence_file": "/verif/evidence/%s.json" % pid,
            "replay_cmd_template": "./check %s --replay {path}" % pid,
            "engine": eng,
            "level_claimed": {"category": cat, "text": text, "design_ref": "DESIGN.md §5 " + pid},
            "level_note": note,
            "technique": tech,
        })
    na = [{"property_id": "C%02d" % i, "reason": NOT_YET} for i in range(1, 21) if "C%02d" % i not in CHECKS]
    m = {
        "version": 1,
        "setup_cmd": "./check --setup",
        "hooks": {
            "guard": "verif",
            "enable": "go build -tags verif (harness module /verif/harness, replace github.com/glycerine/zygomys/v9 => /repo)",
            "baseline_off_cmd": "cd /repo && GOFLAGS=-mod=mod go test -json -vet=off -count=1 -timeout 25m ./...",
            "source_commits": HOOK_COMMITS,
            "add_only": True,
        },
        "engines": ENGINES,
        "checks": checks,
        "notes": "exit 0 held (KNOWN-FINDING lines possible) / exit 1 with VIOLATION property=<id> replay=<path> / exit 2 inconclusive. Known findings: /verif/known_findings.json. Replays are written under /verif/replays/<id>/.",
        "not_applicable": na,
    }
    with open(os.path.join(ROOT, "MANIFEST.json"), "w") as f:
        json.dump(m, f, indent=1)
        f.write("\n")


if __name__ == "__main__":
    main()
