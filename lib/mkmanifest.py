#!/usr/bin/env python3
"""Regenerate /verif/MANIFEST.json from the table below (python3 lib/mkmanifest.py)."""
import json, os
ROOT = os.path.dirname(os.path.dirname(os.path.abspath(__file__)))

HOOK_COMMITS = ["9aaf85a"]

# id -> (engine, category, text, note, technique)
CHECKS = {
 "C14": ("HashMap", "model_checking",
  "TLC checks the refinement HashImpl => HashMap over every history of a key universe with aliases and colliding bucket codes (finite state space, so histories of every length), and validates every script-level result of exhaustive short and random long histories on a real hash against HashMap!Apply.",
  "key universe of 12 keys / 3 values; printed form and JSON parsed back by the harness; HashImpl is a hand transcription of hashutils.go, verdicts come only from recorded executions",
  "TLA+ spec (HashMap/HashImpl); TLC refinement check + TLC trace validation of recorded executions"),
 "C19": ("Symtab", "model_checking",
  "TLC explores all interleavings of intern/gensym/duplicate over a family of <=3 interpreters sharing one table with a name pool containing generated-shaped names (Injective, FreshGensym), and validates histories recorded on a real family (Go API and script level) against the bijection/freshness monitor.",
  "only the relation name<->number is judged; root interpreter built with a small function table; Symtab.tla mirrors environment.go by hand",
  "TLA+ spec (Symtab); TLC exhaustive exploration + TLC trace validation of recorded executions"),
 "C02": ("ZSem", "model_checking",
  "A definitional interpreter of the core language written in TLA+ (ZSem) is the reference evaluator; TLC evaluates it on every program the harness ran on the real interpreter (all depth-2 nestings of the control forms with traced leaves, top level and tail positions; seeded random programs per feature slice with random layout) and compares value/error and the order of host calls.",
  "only the fragment ZSem defines is judged (undefined outcomes and fuel exhaustion are skipped and counted); errors compared as 'some error'; programs are bounded in size",
  "TLA+ reference semantics (ZSem); TLC trace validation of recorded executions"),
 "C03": ("ZSem", "model_checking",
  "ZSem models frames as heap objects with parent pointers and closures capturing their frame of creation; TLC validates programs over a tiny name pool (shadowing/capture collisions in almost every program; closures returned, stored, passed, collected in loops, called after their creator returned, tail calls) run on the real interpreter.",
  "as C02; the scoping grammar is generated randomly (seeded), not exhaustively",
  "TLA+ reference semantics (ZSem); TLC trace validation of recorded executions"),
}

ENGINES = [
 {"name": "ZSem", "path": "spec/ZSem.tla spec/SemTrace.tla", "serves_properties": ["C02", "C03"], "kind_free_text": "TLA+ definitional interpreter (recursive operators) + trace specification, TLC"},
 {"name": "HashMap", "path": "spec/HashMap.tla spec/HashImpl.tla spec/MCHash.tla spec/HashTrace.tla", "serves_properties": ["C14"], "kind_free_text": "TLA+ state machine + refinement + trace specification, TLC"},
 {"name": "Symtab", "path": "spec/Symtab.tla spec/SymtabTrace.tla", "serves_properties": ["C19"], "kind_free_text": "TLA+ state machine + trace specification, TLC"},
]

NOT_YET = "check not built yet (work in progress, DESIGN.md §8)"


def main():
    checks = []
    for pid in sorted(CHECKS):
        eng, cat, text, note, tech = CHECKS[pid]
        checks.append({
            "property_id": pid,
            "quick_cmd": "./check %s" % pid,
            "thorough_cmd": "VERIF_TIER=thorough ./check %s" % pid,
            "evidence_file": "/verif/evidence/%s.json" % pid,
            "replay_cmd_template": "./check %s --replay {path}" % pid,
            "engine": eng,
            "level_claimed": {"category": cat, "text": text, "design_ref": "DESIGN.md §5 " + pid},
            "level_note": note,
            "technique": tech,
        })
    na = [{"property_id": "C%02d" % i, "reason": NOT_YET} for i in range(1, 21) if "C%02d" % i not in CHECKS]
    m = {
        "version": 1,
        "setup_cmd": "./check --setup",
        "hooks": {
            "guard": "verif",
            "enable": "go build -tags verif (harness module /verif/harness, replace github.com/glycerine/zygomys/v9 => /repo)",
            "baseline_off_cmd": "cd /repo && GOFLAGS=-mod=mod go test -json -vet=off -count=1 -timeout 25m ./...",
            "source_commits": HOOK_COMMITS,
            "add_only": True,
        },
        "engines": ENGINES,
        "checks": checks,
        "notes": "exit 0 held (KNOWN-FINDING lines possible) / exit 1 with VIOLATION property=<id> replay=<path> / exit 2 inconclusive. Known findings: /verif/known_findings.json. Replays are written under /verif/replays/<id>/.",
        "not_applicable": na,
    }
    with open(os.path.join(ROOT, "MANIFEST.json"), "w") as f:
        json.dump(m, f, indent=1)
        f.write("\n")


if __name__ == "__main__":
    main()
