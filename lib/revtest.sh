#!/bin/bash
# development aid: run the quick checks of the given properties against /repo as of an earlier commit
# (to confirm that a check reports a defect on the tree before its fix). usage: lib/revtest.sh <commit> <prop>...
rev=$1; shift
R=$(mktemp -d /tmp/revrepo-XXXXXX)
trap 'rm -rf "$R"' EXIT
git -C /repo archive "$rev" | tar -x -C "$R"
# the hooks of the current tree, in case the commit predates them
cp /repo/zygo/verif_on.go /repo/zygo/verif_off.go "$R"/zygo/ 2>/dev/null
cd /verif
for p in "$@"; do
  s=$(date +%s)
  out=$(VERIF_REPO="$R" VERIF_SEED=${VERIF_SEED:-1} ./check $p 2>&1); rc=$?
  echo "RESULT $p@$rev exit=$rc violations=$(echo "$out" | grep -c '^VIOLATION') time=$(( $(date +%s)-s ))s"
  echo "$out" | grep -v "^VIOLATION" | grep "case \|INCONCLUSIVE\|rejected" | head -5
done
