#!/bin/bash
# development aid: confirm and test the seeds of a round for the given properties, one after another
# usage: MUT=/tmp/mut2 lib/seedround.sh C11 C07 ...
for P in "$@"; do for V in A B; do /verif/lib/seedconfirm.sh $P $V; done; done
