#!/bin/bash
# development aid: apply proposed_fixes/*.md files in the given order; for each: take the commit message from the
# first "fix: ..." line of the file, apply the diff block(s), gofmt check, run the suite, commit. Stops at the first failure.
# usage: lib/applybatch.sh file.md [file.md ...]
cd /verif
for f in "$@"; do
  msg=$(grep -o '`fix: [^`]*`' "$f" | head -1 | tr -d '`' | sed 's/[[:space:]]*$//')
  [ -n "$msg" ] || msg=$(grep -v '^[-+@]' "$f" | grep -v '^ [^ ]' | grep -m1 -o 'fix: .*' | head -1 | sed 's/[[:space:]]*$//')
  [ -n "$msg" ] || { echo "NO COMMIT MESSAGE in $f"; exit 1; }
  out=$(lib/applyfix.sh "$f" "$msg" 2>&1)
  echo "== $f"; echo "$out" | tail -3
  echo "$out" | grep -q "PATCH DOES NOT APPLY\|TESTS FAIL" && exit 1
done
exit 0
