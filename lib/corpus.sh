#!/bin/bash
# development aid: run the tests/*.zy corpus (as tests/testall.sh does) with a binary built from /repo's
# working tree; prints the scripts that fail. usage: lib/corpus.sh [binary]
export GOFLAGS=-mod=mod GOPROXY=off
B=${1:-/tmp/zygo_head}
if [ -z "$1" ]; then (cd /repo/cmd/zygo && go build -o /tmp/zygo_head .) || exit 2; fi
cd /repo || exit 2
fail=0
for f in tests/*.zy; do
  timeout 60 $B -exitonfail -demo $f </dev/null >/tmp/corpus.out 2>&1 || { echo "FAIL $f: $(tail -2 /tmp/corpus.out | head -1 | cut -c1-150)"; fail=$((fail+1)); }
done
echo "corpus: $(ls tests/*.zy | wc -l) scripts, $fail failing"
