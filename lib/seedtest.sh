#!/bin/bash
# development aid: apply a seeded change to /repo, run the quick checks of the given properties, undo.
# usage: lib/seedtest.sh <patch.diff> <prop> [prop...]
patch=$1; shift
cd /repo || exit 2
if [ -n "$(git status --porcelain --untracked-files=no)" ]; then echo "repo not clean"; exit 2; fi
git apply "$patch" || { echo "patch does not apply"; exit 2; }
trap 'git -C /repo checkout -- . ; git -C /repo clean -fdq zygo 2>/dev/null' EXIT
( cd zygo && export GOFLAGS=-mod=mod GOPROXY=off && go build ./ && go build -tags verif ./ && go test -vet=off -count=1 ./ 2>&1 | tail -1 )
cd /verif
for p in "$@"; do
  s=$(date +%s)
  out=$(VERIF_SEED=${VERIF_SEED:-1} ./check $p 2>&1); rc=$?
  nv=$(echo "$out" | grep -c "^VIOLATION")
  echo "RESULT $p exit=$rc violations=$nv time=$(( $(date +%s)-s ))s"
  echo "$out" | grep -v "^VIOLATION" | grep "case \|INCONCLUSIVE\|rejected" | head -6
done
