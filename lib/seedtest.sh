#!/bin/bash
# development aid: apply a seeded change to a scratch copy of /repo and run the quick checks of the given
# properties against it (VERIF_REPO), so that /repo itself and whatever else is building against it are
# not disturbed. usage: lib/seedtest.sh <patch.diff> <prop> [prop...]
patch=$(readlink -f "$1"); shift
R=$(mktemp -d /tmp/seedrepo-XXXXXX)
trap 'rm -rf "$R"' EXIT
rsync -a --exclude .git /repo/ "$R"/
( cd "$R" && patch -p1 -s < "$patch" ) || { echo "patch does not apply"; exit 2; }
( cd "$R"/zygo && export GOFLAGS=-mod=mod GOPROXY=off && go build ./ && go build -tags verif ./ && go test -vet=off -count=1 ./ 2>&1 | tail -1 )
cd /verif
for p in "$@"; do
  s=$(date +%s)
  out=$(VERIF_REPO="$R" VERIF_SEED=${VERIF_SEED:-1} ./check $p 2>&1); rc=$?
  nv=$(echo "$out" | grep -c "^VIOLATION")
  echo "RESULT $p exit=$rc violations=$nv time=$(( $(date +%s)-s ))s"
  echo "$out" | grep -v "^VIOLATION" | grep "case \|INCONCLUSIVE\|rejected" | head -5
done
