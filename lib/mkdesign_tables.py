#!/usr/bin/env python3
"""Regenerate the generated tables of DESIGN.md (between <!-- BEGIN:x --> / <!-- END:x --> markers):
findings (from known_findings.json) and seeded (from seeded/*/meta.json and seeded/*/final_result.txt)."""
import json, os, re, glob

V = "/verif"


def findings_table():
    k = json.load(open(os.path.join(V, "known_findings.json")))["findings"]
    rows = ["| property | finding id | disposition | failing input and what failed |", "|---|---|---|---|"]
    for f in k:
        what = f.get("what", "")
        what = re.sub(r"^fixed: property=\S+ \S+ ", "", what)
        what = what.replace("|", "\\|").replace("\n", " ")
        if len(what) > 330:
            what = what[:327] + "..."
        disp = "fix %s" % f.get("commit") if f["status"] == "fixed" else "**open** (KNOWN-FINDING)"
        rows.append("| %s | `%s` | %s | %s |" % (f["property"], f["id"], disp, what))
    n_fixed = sum(1 for f in k if f["status"] == "fixed")
    n_open = len(k) - n_fixed
    head = "%d findings: %d repaired by `fix:` commits in /repo, %d open.\n\n" % (len(k), n_fixed, n_open)
    return head + "\n".join(rows) + "\n"


def seeded_table():
    rows = ["| seed | what it needs to manifest | result of the property's check |", "|---|---|---|"]
    caught = missed = other = 0
    for d in sorted(glob.glob(os.path.join(V, "seeded", "C*-*"))):
        sid = os.path.basename(d)
        meta = {}
        try:
            meta = json.load(open(os.path.join(d, "meta.json")))
        except Exception:
            pass
        res = ""
        fr = os.path.join(d, "final_result.txt")
        if os.path.exists(fr):
            res = open(fr).read().strip().replace("\n", "; ")
        need = (meta.get("needs_to_manifest") or "").replace("|", "\\|").replace("\n", " ")
        if len(need) > 260:
            need = need[:257] + "..."
        if "exit=1" in res:
            caught += 1
        elif "exit=0" in res:
            missed += 1
        else:
            other += 1
        rows.append("| %s | %s | %s |" % (sid, need, res.replace("|", "\\|")))
    head = "%d seeded changes: %d caught (exit=1 with VIOLATION lines), %d not caught, %d not run / no longer applicable.\n\n" % (caught + missed + other, caught, missed, other)
    return head + "\n".join(rows) + "\n"


def main():
    p = os.path.join(V, "DESIGN.md")
    s = open(p).read()
    for name, fn in (("findings", findings_table), ("seeded", seeded_table)):
        b, e = "<!-- BEGIN:%s -->" % name, "<!-- END:%s -->" % name
        if b in s and e in s:
            i, j = s.index(b) + len(b), s.index(e)
            s = s[:i] + "\n" + fn() + s[j:]
    open(p, "w").write(s)


if __name__ == "__main__":
    main()
