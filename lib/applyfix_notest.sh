#!/bin/bash
# like applyfix.sh but drops hunks for *_test.go files (the suite stays unedited)
md=$1; msg=$2
python3 - "$md" > /tmp/applyfix.diff <<'PY'
import sys,re
s=open(sys.argv[1]).read()
out=[]
for b in re.findall(r"```diff\n(.*?)```", s, re.S):
    parts=re.split(r"(?m)^(?=--- a/)", b)
    for p in parts:
        if not p.strip(): continue
        m=re.match(r"--- a/(\S+)", p)
        if m and m.group(1).endswith("_test.go"): continue
        out.append(p)
sys.stdout.write("".join(out))
PY
cd /repo || exit 1
if ! patch -p1 --dry-run < /tmp/applyfix.diff >/dev/null; then echo "PATCH DOES NOT APPLY: $md"; patch -p1 --dry-run < /tmp/applyfix.diff | tail -5; exit 1; fi
patch -p1 < /tmp/applyfix.diff >/dev/null
export GOFLAGS=-mod=mod GOPROXY=off
if ! (cd zygo && go build ./ && go build -tags verif ./ && go test -vet=off -count=1 ./ 2>&1 | tail -1 | grep -q "^ok"); then echo "TESTS FAIL after $md"; git checkout -- .; exit 1; fi
rm -f zygo/*.orig
git commit -qam "$msg" && git log --oneline | head -1
