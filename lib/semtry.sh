#!/bin/bash
# development aid: generate N programs per slice, validate, summarise
N=${1:-1000}; SEED=${2:-1}; SL=${3:-control,loops,calls,data,scoping,mixed}
export GOFLAGS=-mod=mod GOPROXY=off
D=/tmp/semtry; rm -rf $D; mkdir -p $D
(cd /verif/harness && go build -tags verif -o /verif/.build/zv ./cmd/zv) || exit 1
for i in $(seq 0 15); do /verif/.build/zv sem -n $N -seed $SEED -slices $SL -shard $i -nshard 16 -out $D/p$i & done; wait
cat $D/p* > $D/sem.ndjson; rm $D/p*
cp /verif/spec/*.tla /verif/spec/*.cfg $D/
cd $D && JAVA_TOOL_OPTIONS=-Xss256m VERIF_TRACE=$D/sem.ndjson timeout 1200 tlc -workers 16 -metadir $D/meta -config SemTrace.cfg SemTrace.tla > out.txt 2>&1
grep VERDICT out.txt | sed 's/.*", "\(ok\|bad\|skip\)", "\([a-z-]*\)".*/\1 \2/' | sort | uniq -c
grep -A8 "^Error" out.txt | head -30
grep VERDICT out.txt | grep '"bad"' | sed 's/<<"VERDICT", "\([^"]*\)".*/\1/' > bad.txt
tail -3 out.txt | head -1
