"""./check --setup: build the harness once and parse every specification (offline, from files on disk)."""
import glob, os, re, subprocess, sys
import vlib


SANY_CP = "/opt/veriftools/tla/tla2tools.jar:/opt/veriftools/tla/CommunityModules-deps.jar"


def tlaps_stdlib():
    import shutil
    exe = shutil.which("tlapm")
    cands = ["/opt/veriftools/tlapm/lib/tlapm/stdlib"]
    if exe:
        cands.insert(0, os.path.join(os.path.dirname(os.path.dirname(os.path.realpath(exe))), "lib", "tlapm", "stdlib"))
    for c in cands:
        if os.path.exists(os.path.join(c, "TLAPS.tla")):
            return c
    return None


def main():
    try:
        zv = vlib.build_zv()
    except vlib.Inconclusive as e:
        print("setup: harness build failed:", e, file=sys.stderr)
        return 1
    print("setup: harness built:", zv)
    sd = vlib.specdir()
    bad = 0
    for tla in sorted(glob.glob(os.path.join(sd, "*.tla"))):
        cmd = ["timeout", "120", "tla-sany", os.path.basename(tla)]
        if re.search(r"EXTENDS[^\n]*\bTLAPS\b", open(tla).read()):
            # a proof module: the proof system's standard module TLAPS is not on SANY's path
            lib = tlaps_stdlib()
            if lib is None:
                print("setup: sany %-22s skipped (proof module; the proof system's standard library was not found)" % os.path.basename(tla))
                continue
            cmd = ["timeout", "120", "java", "-DTLA-Library=" + lib, "-cp", SANY_CP, "tla2sany.SANY", os.path.basename(tla)]
        p = subprocess.run(cmd, cwd=sd, capture_output=True, text=True)
        ok = p.returncode == 0 and "Semantic errors" not in p.stdout and "Fatal errors" not in p.stdout and "Parse Error" not in p.stdout and "Could not parse" not in p.stdout
        print("setup: sany %-22s %s" % (os.path.basename(tla), "ok" if ok else "FAILED"))
        if not ok:
            print(p.stdout[-1500:])
            bad += 1
    return 1 if bad else 0
