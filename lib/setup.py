"""./check --setup: build the harness once and parse every specification (offline, from files on disk)."""
import glob, os, subprocess, sys
import vlib


def main():
    try:
        zv = vlib.build_zv()
    except vlib.Inconclusive as e:
        print("setup: harness build failed:", e, file=sys.stderr)
        return 1
    print("setup: harness built:", zv)
    sd = vlib.specdir()
    bad = 0
    for tla in sorted(glob.glob(os.path.join(sd, "*.tla"))):
        p = subprocess.run(["timeout", "120", "tla-sany", os.path.basename(tla)], cwd=sd, capture_output=True, text=True)
        ok = p.returncode == 0 and "Semantic errors" not in p.stdout and "Fatal errors" not in p.stdout and "Parse Error" not in p.stdout and "Could not parse" not in p.stdout
        print("setup: sany %-22s %s" % (os.path.basename(tla), "ok" if ok else "FAILED"))
        if not ok:
            print(p.stdout[-1500:])
            bad += 1
    return 1 if bad else 0
