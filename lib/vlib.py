"""Shared machinery of the zygomys verification driver (/verif/check).

build the Go harness against /repo's working tree (-tags verif), run it in
shards, run TLC on a spec/config in a scratch directory, parse TLC statistics
and the VERDICT lines printed by the trace specifications, match known
findings, write evidence files.
"""
import atexit, glob, hashlib, json, os, re, shutil, subprocess, sys, tempfile, time

ROOT = os.path.dirname(os.path.dirname(os.path.abspath(__file__)))
REPO = os.environ.get("VERIF_REPO", "/repo")
SPEC = os.path.join(ROOT, "spec")
HARNESS = os.path.join(ROOT, "harness")
BUILD = os.path.join(ROOT, ".build")
NCPU = min(16, os.cpu_count() or 4)

T0 = time.time()
_scratch = None


class Inconclusive(Exception):
    pass


def log(*a):
    print("[check]", *a, file=sys.stderr, flush=True)


def tier():
    t = os.environ.get("VERIF_TIER", "quick")
    return t if t in ("quick", "thorough") else "quick"


def seed():
    try:
        return int(os.environ.get("VERIF_SEED", "1"))
    except ValueError:
        return 1


def scratch():
    global _scratch
    if _scratch is None:
        base = os.environ.get("VERIF_SCRATCH") or tempfile.gettempdir()
        _scratch = tempfile.mkdtemp(prefix="zyverif-", dir=base)
        atexit.register(lambda: shutil.rmtree(_scratch, ignore_errors=True))
    return _scratch


def goenv():
    e = dict(os.environ)
    e.update({"GOFLAGS": "-mod=mod", "GOPROXY": "off", "CGO_ENABLED": "0"})
    e.pop("GOSUMDB", None)
    return e


_zv = {}


def build_zv(cover=False):
    """Build the harness against /repo's current working tree, hooks enabled."""
    global _zv
    if _zv.get(cover):
        return _zv[cover]
    os.makedirs(BUILD, exist_ok=True)
    hdir = HARNESS
    # every run builds its own binary (checks of several properties may run at the same time); a copy is
    # published at .build/zv by an atomic rename, for replays by hand
    out = os.path.join(scratch(), "zv")
    if os.path.realpath(REPO) != "/repo":
        # development aid: check a scratch copy of the repository (VERIF_REPO=/path)
        hdir = os.path.join(scratch(), "harness")
        shutil.copytree(HARNESS, hdir)
        gm = open(os.path.join(hdir, "go.mod")).read().replace("=> /repo", "=> " + os.path.realpath(REPO))
        open(os.path.join(hdir, "go.mod"), "w").write(gm)
        out = os.path.join(scratch(), "zv")
    try:
        shutil.copy(os.path.join(REPO, "go.sum"), os.path.join(hdir, "go.sum"))
    except OSError:
        pass
    cmd = ["go", "build", "-tags", "verif", "-o", out, "./cmd/zv"]
    p = subprocess.run(cmd, cwd=hdir, env=goenv(), capture_output=True, text=True)
    if p.returncode != 0:
        e = goenv()
        e["GOTOOLCHAIN"] = "local"
        p2 = subprocess.run(["go1.26"] + cmd[1:], cwd=hdir, env=e, capture_output=True, text=True)
        if p2.returncode != 0:
            raise Inconclusive("harness does not build against /repo:\n" + p.stderr[-3000:] + p2.stderr[-1000:])
    if os.path.realpath(REPO) == "/repo":
        try:
            tmp = os.path.join(BUILD, "zv.%d" % os.getpid())
            shutil.copy(out, tmp)
            os.replace(tmp, os.path.join(BUILD, "zv"))
        except OSError:
            pass
    _zv[cover] = out
    return out


def run_zv(zv, family, args, out, nshard=None, timeout=1800, env=None):
    """Run `zv family args` in nshard processes; concatenate their ndjson to out."""
    nshard = nshard or NCPU
    procs = []
    parts = []
    e = dict(os.environ)
    if env:
        e.update(env)
    for i in range(nshard):
        part = "%s.part%d" % (out, i)
        parts.append(part)
        cmd = [zv, family, "-out", part, "-shard", str(i), "-nshard", str(nshard),
               "-seed", str(seed()), "-tier", tier()] + list(args)
        procs.append(subprocess.Popen(cmd, stderr=subprocess.PIPE, stdout=subprocess.DEVNULL, env=e, cwd=scratch()))
    deadline = time.time() + timeout
    errs = []
    for p in procs:
        try:
            _, err = p.communicate(timeout=max(1, deadline - time.time()))
        except subprocess.TimeoutExpired:
            for q in procs:
                if q.poll() is None:
                    q.kill()
            raise Inconclusive("harness timeout in family " + family)
        if p.returncode != 0:
            errs.append((p.returncode, err.decode(errors="replace")[-2000:]))
    if errs:
        raise Inconclusive("harness failed in family %s: %r" % (family, errs[:2]))
    n = 0
    with open(out, "wb") as o:
        for part in parts:
            with open(part, "rb") as f:
                for line in f:
                    if line.strip():
                        o.write(line)
                        n += 1
            os.unlink(part)
    return n


def run_zv1(zv, family, args, out=None, timeout=600, env=None):
    """Single harness process (replays, dumps). Returns stdout text."""
    cmd = [zv, family] + (["-out", out] if out else []) + list(args)
    e = dict(os.environ)
    if env:
        e.update(env)
    p = subprocess.run(cmd, capture_output=True, text=True, timeout=timeout, env=e, cwd=scratch())
    if p.returncode != 0:
        raise Inconclusive("harness failed: %s\n%s" % (" ".join(cmd), p.stderr[-2000:]))
    return p.stdout


class TlcResult:
    def __init__(self):
        self.stdout = ""
        self.distinct = 0
        self.generated = 0
        self.completed = False
        self.violated = []  # invariant/property names reported violated
        self.errors = []
        self.wall = 0.0
        self.coverage_zero = []


_specdir = None


def specdir():
    """A scratch copy of /verif/spec (TLC litters the directory it runs in)."""
    global _specdir
    if _specdir is None:
        _specdir = os.path.join(scratch(), "spec")
        shutil.copytree(SPEC, _specdir)
    return _specdir


def tlapm(module, timeout=900):
    """Check the proofs of a module with the TLA+ proof system. A proof is a fact about the specification, not
    about the code: the result goes into the evidence and is never a verdict. Returns (proved, total) or None."""
    sd = specdir()
    try:
        p = subprocess.run(["timeout", str(timeout), "tlapm", "--threads", str(min(NCPU, 8)), "--stretch", "20", "--cleanfp", module],
                           cwd=sd, capture_output=True, text=True)
    except OSError:
        return None
    txt = p.stdout + p.stderr
    m = re.search(r"All (\d+) obligations? proved", txt)
    if m:
        return int(m.group(1)), int(m.group(1))
    m = re.search(r"(\d+)/(\d+) obligations? failed", txt)
    if m:
        return int(m.group(2)) - int(m.group(1)), int(m.group(2))
    return None


def tlc(module, cfg, env=None, workers=None, timeout=1500, extra=(), deque=False, xss="64m"):
    sd = specdir()
    meta = tempfile.mkdtemp(prefix="meta-", dir=scratch())
    e = dict(os.environ)
    jopts = "-Xss" + xss + " -Djava.io.tmpdir=" + meta
    if deque:
        jopts += " -Dtlc2.tool.queue.IStateQueue=StateDeque"
    e["JAVA_TOOL_OPTIONS"] = (e.get("JAVA_TOOL_OPTIONS", "") + " " + jopts).strip()
    if env:
        e.update({k: str(v) for k, v in env.items()})
    cmd = ["timeout", str(timeout), "tlc", "-workers", str(workers or NCPU), "-metadir", meta,
           "-config", cfg, "-noGenerateSpecTE"] + list(extra) + [module]
    t = time.time()
    p = subprocess.run(cmd, cwd=sd, env=e, capture_output=True, text=True)
    r = TlcResult()
    r.wall = time.time() - t
    r.stdout = p.stdout + p.stderr
    shutil.rmtree(meta, ignore_errors=True)
    m = re.findall(r"(\d[\d,]*) states generated, (\d[\d,]*) distinct states found", r.stdout)
    if m:
        r.generated = int(m[-1][0].replace(",", ""))
        r.distinct = int(m[-1][1].replace(",", ""))
    r.completed = "Model checking completed" in r.stdout or "Finished in" in r.stdout
    r.violated = re.findall(r"Error: Invariant (\S+) is violated", r.stdout) + \
        re.findall(r"Error: Action property (\S+) is violated", r.stdout) + \
        re.findall(r"Error: Temporal properties were violated", r.stdout)
    if p.returncode == 124:
        r.errors.append("timeout")
    for line in r.stdout.splitlines():
        if line.startswith("Error:") and "is violated" not in line and "behavior up to" not in line:
            r.errors.append(line)
    return r


VERDICT_RE = re.compile(r'<<"VERDICT", "([^"]*)", "([A-Za-z0-9_:\-]+)"(?:, (.*))?>>\s*$')


def verdicts(stdout):
    """id -> (verdict, rest) from the PrintT lines of a trace specification."""
    out = {}
    # PrintT may wrap long tuples over several lines: join continuation lines
    buf = None
    for line in stdout.splitlines():
        if line.startswith('<<"VERDICT"') or line.startswith('<< "VERDICT"'):
            buf = line
        elif buf is not None:
            buf += " " + line.strip()
        else:
            continue
        if buf.rstrip().endswith(">>") and buf.count("<<") == buf.count(">>"):
            norm = re.sub(r"<<\s+", "<<", buf)
            norm = re.sub(r"\s+>>", ">>", norm)
            norm = re.sub(r"\s+", " ", norm)
            m = VERDICT_RE.match(norm)
            if m:
                out[m.group(1)] = (m.group(2), m.group(3) or "")
            buf = None
    return out


def validate_trace(module, cfg, trace, env=None, workers=None, timeout=1500, deque=False):
    """Run a trace specification over an ndjson file of cases; returns (verdict map, TlcResult)."""
    e = {"VERIF_TRACE": trace}
    if env:
        e.update(env)
    r = tlc(module, cfg, env=e, workers=workers, timeout=timeout, deque=deque)
    if r.errors and not r.violated:
        raise Inconclusive("TLC failed on %s: %s\n%s" % (module, r.errors[:3], r.stdout[-3000:]))
    if not r.completed:
        raise Inconclusive("TLC did not complete on %s:\n%s" % (module, r.stdout[-3000:]))
    return verdicts(r.stdout), r


def load_cases(path):
    cases = {}
    with open(path) as f:
        for line in f:
            line = line.strip()
            if line:
                c = json.loads(line)
                cases[str(c.get("id"))] = c
    return cases


def known_findings(prop):
    p = os.path.join(ROOT, "known_findings.json")
    try:
        with open(p) as f:
            d = json.load(f)
    except OSError:
        return []
    return [k for k in d.get("findings", []) if k.get("property") == prop and k.get("status") == "open"]


def save_replay(prop, case, extra=None):
    d = os.path.join(ROOT, "replays", prop)
    os.makedirs(d, exist_ok=True)
    blob = json.dumps(case, sort_keys=True)
    h = hashlib.sha1(blob.encode()).hexdigest()[:12]
    path = os.path.join(d, h + ".json")
    rec = {"property": prop, "case": case}
    if extra:
        rec.update(extra)
    with open(path, "w") as f:
        json.dump(rec, f)
        f.write("\n")
    return path


def write_evidence(prop, level, coverage, assumptions, violations, extra=None):
    evdir = os.path.join(ROOT, "evidence")
    if os.path.realpath(REPO) != "/repo":
        evdir = os.path.join(scratch(), "evidence")   # development runs against a scratch copy leave /verif/evidence alone
    os.makedirs(evdir, exist_ok=True)
    ev = {
        "property_id": prop,
        "tier": tier(),
        "seed": seed(),
        "level": level,
        "coverage": coverage,
        "assumptions": assumptions,
        "wall_s": round(time.time() - T0, 2),
        "violations": violations,
    }
    if extra:
        ev.update(extra)
    check_evidence(ev)
    path = os.path.join(evdir, prop + ".json")
    with open(path, "w") as f:
        json.dump(ev, f, indent=1, default=str)
        f.write("\n")
    return path


def check_evidence(ev):
    """Minimal structural validation mirroring EVIDENCE.schema.json."""
    cov = ev["coverage"]
    lvl = ev["level"]
    if lvl in ("exploration", "fault_enumeration"):
        need = ["evaluations", "distinct_nontrivial", "rule", "samples"]
    elif lvl == "model_checking":
        need = ["states", "transitions", "traces_validated_against_impl", "samples"]
    elif lvl == "translation_validation":
        need = ["programs", "disagreements_checked", "samples"]
    else:
        need = []
    for k in need:
        if k not in cov:
            raise Inconclusive("evidence lacks coverage.%s" % k)
    if "samples" in cov and not cov["samples"]:
        raise Inconclusive("evidence has no samples")
