"""C02 -- evaluation matches the reference semantics: values, control flow, effect order.

spec: ZSem (definitional interpreter of the core language in TLA+)
bind: programs (exhaustive control-form nestings with traced leaves, at top level and in tail
      positions of functions; seeded random programs per feature slice, rendered with random
      legal whitespace/comments) are run on the real interpreter; value/error and the sequence
      of host calls are validated by TLC against ZSem (SemTrace)
"""
import semflow

PROP = "C02"


def run():
    return semflow.run_sem(PROP, "sem", "shapes,control,loops,calls,data,heap,mixed", 500, 12000,
                           "all depth-2 nestings of and/or/begin/newScope/let/letseq/cond with traced leaves x 4 value patterns x "
                           "{top level, function body}; seeded random programs per slice (control, loops with plain/labelled "
                           "break/continue through let/newScope/cond, calls with fixed/variadic parameters and recursion, "
                           "data builtins with map/apply, heap = arrays and hashes as objects with identity: aset/hset/hdel/append/concat/keys "
                           "through second names, arguments, closures, containers in containers and loops, every tr a snapshot; "
                           "mixed), a third of them with random legal whitespace/comments",
                           semflow.SEM_ASSUMPTIONS)


def replay(path):
    return semflow.replay_sem(PROP, "sem", path)
