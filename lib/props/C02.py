"""C02 -- evaluation matches the reference semantics: values, control flow, effect order.

spec: ZSem (definitional interpreter of the core language in TLA+)
bind: programs (exhaustive control-form nestings with traced leaves, at top level and in tail
      positions of functions; small exhaustive families: break/continue at every position of a
      cond in a loop body incl. call arguments, the empty list / lists of different lengths /
      hashes under map, apply, concat, ==, the empty hash literal, forms with nothing to
      evaluate in value positions; seeded random programs per feature slice, rendered with
      random legal whitespace/comments and in the infix syntax incl. a[i] and h.k) are run on
      the real interpreter; value/error and the sequence of host calls are validated by TLC
      against ZSem (SemTrace); open findings are reproduced as named deviations of ZSem
"""
import semflow

PROP = "C02"


def run():
    return semflow.run_sem(PROP, "sem", "shapes,control,loops,calls,data,heap,mixed", 500, 12000,
                           "all depth-2 nestings of and/or/begin/newScope/let/letseq/cond with traced leaves x 4 value patterns x "
                           "{top level, function body}, a self call at every leaf (a third of them with an argument that re-binds the callee); "
                           "break/continue x {plain, labelled} x 8 cond positions (arm/predicate through and, or, let, newScope, begin; inside a call argument) x "
                           "{no, let, newScope} wrap x {top level, function}; map/apply/concat/== over lists of 0..2 elements, == over 7 hashes pairwise, "
                           "{} evaluated twice, ** on small integers, (begin)/(newScope) in 9 value positions; seeded random programs per slice (control, loops with plain/labelled "
                           "break/continue through let/newScope/cond, calls with fixed/variadic parameters and recursion, "
                           "data builtins with map/apply, heap = arrays and hashes as objects with identity: aset/hset/hdel/append/concat/keys "
                           "through second names, arguments, closures, containers in containers and loops, every tr a snapshot; "
                           "mixed) with jumps inside expressions and call arguments, arguments re-binding the callee, elements/fields/dot paths as tests and operands, "
                           "a third of them with random legal whitespace/comments, half of the rest also in the infix syntax (a[i], h.k where the value is consumed)",
                           semflow.SEM_ASSUMPTIONS)


def replay(path):
    return semflow.replay_sem(PROP, "sem", path)
