"""C07 -- numbers compare and compute exactly as specified.

spec: NumTower (64-bit words as limb sequences: wrap-around + - *, signed/unsigned order, exact
      division, int/uint/chr -> float64 round-to-nearest-even, float order with -0 = +0 and NaN
      unordered, dispatch on the operand types, result type); float64 + - * / results are the only
      delegated primitive (graph supplied per case by the harness from math/big)
TLC:  MCNumTower checks the same definitions at small word size against plain integer / rational
      arithmetic and the laws of the statement over EVERY pair of typed numbers; the named
      deviations must be refuted there (self-test, thorough tier)
bind: (op a b) and (op b a) for 11 operators on the real interpreter over the boundary grid
      (every pair, every type combination) and seeded random 64-bit patterns, reached by three
      routes (program text, Zlisp.Apply on the builtin, the exported Go functions NumericDo /
      IntegerDo / CompareFunction); TLC validates every recorded result against NumTower!Expect
      and the laws on the recorded results of every type combination (NumTrace)
"""
import json, os
import vlib, flow

PROP = "C07"
OPS = ["<", "<=", ">", ">=", "==", "!=", "+", "-", "*", "/", "mod"]
CHUNK = 8000   # at most this many cases per TLC run (TLC holds all cases in memory)
PAR = 2        # concurrent TLC runs


def _devs():
    if os.environ.get("VERIF_DEVS") is not None:      # development aid
        return os.environ["VERIF_DEVS"]
    return ",".join(k["id"] for k in vlib.known_findings(PROP))


def _u64(w):
    return w[0] | (w[1] << 16) | (w[2] << 32) | (w[3] << 48)


def _boundary(n):
    """a value next to a limit of its type / of exact float representation, or a special float"""
    t, v = n[0], _u64(n[1])
    if t == "flt":
        e = (v >> 52) & 0x7ff
        return e == 0 or e == 0x7ff or e >= 1023 + 52
    if t == "uint":
        return v >= (1 << 53) - 1
    s = v - (1 << 64) if v >> 63 else v
    return abs(s) >= (1 << 53) - 1 or (t == "chr" and s >= 0x10FFFF)


def _judged(op, ta, tb):
    """mirror of NumTower!CmpClass / AriClass: is the value of (op a b) fixed by the statement
    (comparisons of the other type combinations are judged by the laws on the pair, not counted here)"""
    if op in OPS[:6]:
        return ta == tb or ("uint" not in (ta, tb) and "flt" in (ta, tb))
    return op != "mod"


def _validate(out, zv, trace, env):
    """TLC parses JSON slowly and single-threaded: validate chunks of the trace in concurrent TLC
    runs; cases rejected there go through flow.validate (re-execution on the real code, replay
    files, reporting) as a small trace of their own."""
    from concurrent.futures import ThreadPoolExecutor
    cases = vlib.load_cases(trace)
    if not cases:
        raise vlib.Inconclusive("harness produced no cases for num")
    lines = [l for l in open(trace) if l.strip()]
    nchunk = max(PAR, -(-len(lines) // CHUNK))
    size = -(-len(lines) // nchunk)
    parts = []
    for n in range(nchunk):
        part = os.path.join(vlib.scratch(), "num-%d.ndjson" % n)
        with open(part, "w") as f:
            f.writelines(lines[n * size:(n + 1) * size])
        parts.append(part)
    vlib.specdir()
    workers = max(2, vlib.NCPU // PAR)
    with ThreadPoolExecutor(PAR) as ex:
        res = list(ex.map(lambda p: vlib.validate_trace("NumTrace.tla", "NumTrace.cfg", p, env=env, workers=workers), parts))
    v = {}
    wall = 0.0
    for (vv, t) in res:
        v.update(vv)
        out.states += t.distinct
        out.transitions += t.generated
        wall = max(wall, t.wall)
    missing = [i for i in cases if i not in v]
    if missing:
        raise vlib.Inconclusive("%d cases of num got no verdict from TLC (e.g. %s)" % (len(missing), missing[:3]))
    bad = [i for i in cases if v[i][0] == "bad"]
    nknown = 0
    for i in cases:
        if v[i][0].startswith("known:"):
            out.known.setdefault(v[i][0][6:], []).append(i)
            nknown += 1
    out.traces += len(cases) - len(bad)
    vlib.log("num: %d cases validated by NumTrace.tla in %d concurrent TLC runs: %d rejected, %d explained by known deviations"
             % (len(cases), len(parts), len(bad), nknown))
    if bad:
        bp = os.path.join(vlib.scratch(), "num-rejected.ndjson")
        with open(bp, "w") as f:
            for i in sorted(bad)[:200]:
                f.write(json.dumps(cases[i]) + "\n")
        if len(bad) > 200:
            out.notes.append("%d rejected cases, the first 200 re-validated and re-executed" % len(bad))
        flow.validate(out, "num", "NumTrace.tla", "NumTrace.cfg", bp, zv, env=env)
    return cases


def run():
    out = flow.Outcome(PROP)
    zv = vlib.build_zv()
    thorough = vlib.tier() == "thorough"
    runs = [dict(module="MCNumTower.tla", cfg="MCNumTower.cfg" if thorough else "MCNumTowerQuick.cfg")]
    if thorough:
        for d in ("cmp-int-wrapdiff", "cmp-uint-diff", "cmp-nan-rhs", "cmp-intchr-wrapdiff"):
            runs.append(dict(module="MCNumTower.tla", cfg="MCNumTowerPinned.cfg", expect="violation",
                             env={"VERIF_PIN": d}))
    flow.mc_runs(out, runs)

    trace = os.path.join(vlib.scratch(), "num.ndjson")
    vlib.run_zv(zv, "num", [], trace)
    env = {"VERIF_DEVS": _devs()}
    cases = _validate(out, zv, trace, env)

    events = 0
    nontrivial = set()
    pairs = set()
    routes = {}
    for c in cases.values():
        routes[c.get("rt", "text")] = routes.get(c.get("rt", "text"), 0) + 1
    per_pair = {}
    errs = 0
    for c in cases.values():
        a, b = c["a"], c["b"]
        for sw in (0, 1):
            x, y = (a, b) if sw == 0 else (b, a)
            tp = x[0] + "/" + y[0]
            pairs.add(tp)
            for k, op in enumerate(OPS):
                events += 1
                per_pair[tp] = per_pair.get(tp, 0) + 1
                if c["r"][sw][k][0] == "err":
                    errs += 1
                if _judged(op, x[0], y[0]) and (_boundary(x) or _boundary(y)):
                    nontrivial.add((op, x[0], _u64(x[1]), y[0], _u64(y[1])))
    samples = []
    for want in (("int", "int"), ("int", "flt"), ("uint", "uint")):
        for c in cases.values():
            if (c["a"][0], c["b"][0]) == want and _boundary(c["a"]) and c["id"].startswith("g"):
                samples.append({"id": c["id"], "a": c["ta"], "b": c["tb"], "types": list(want),
                                "events": ["(%s %s %s) => %s" % (op, c["sa"], c["sb"], c["r"][0][k]) for k, op in enumerate(OPS)]})
                break
    out.samples = samples
    cov = {
        "evaluations": events,
        "distinct_nontrivial": len(nontrivial),
        "rule": "distinct (op, typed a, typed b) evaluations whose value the statement fixes (same-type or "
                "int/chr-with-float comparisons, arithmetic of every type combination) and where an operand lies next to a "
                "limit (|v| >= 2^53-1, max rune and beyond, zero/subnormal/non-finite float, float >= 2^52); inputs: every "
                "unordered pair of the 92-value boundary grid in both orders under 11 operators by program text, every pair of a "
                "29-value sub-grid by Zlisp.Apply and by the exported Go functions, plus seeded random 64-bit patterns over all "
                "16 type combinations and the 3 routes (related operands: equal value, neighbours, multiples, divisors)",
        "cases": len(cases),
        "cases_per_route": routes,
        "type_pairs": len(pairs),
        "events_per_type_pair": per_pair,
        "error_results": errs,
        "operators": OPS,
        "states": out.states, "transitions": out.transitions,
        "traces_validated_against_impl": out.traces,
        "exhaustive_grid": True,
    }
    return flow.finish(out, "exploration", cov, [
        "float64 + - * / (and the correctly rounded integer quotient) are a delegated primitive: computed by the harness "
        "from exact rationals (math/big) with one rounding, cross-checked against the machine's float64 arithmetic; the "
        "spec fixes the operands (its own int->float conversion), the dispatch and the result type",
        "an operand is written as a literal when the real reader maps the literal to exactly that typed value, otherwise "
        "bound to a global from Go (runes without literal, NaN payloads); what literals denote is C12",
        "not judged because the statement is silent: the value of mod for a non-zero divisor, whether char arithmetic yields a "
        "char (low 32 bits) or an int and whether int-with-uint64 arithmetic yields an int or a uint64 (both accepted when "
        "they hold the value), WHICH of < == > holds between int and char and between uint64 and int/char/float (only the two "
        "laws and the NaN rule are judged there; an error is none of the three); a float division by zero may be +-Inf/NaN or "
        "an error",
        "integers divide by their values (int64 signed, uint64 unsigned); a quotient that does not divide, or that the result "
        "type cannot hold (min-int64 / -1, uint64 / negative int below -2^63), may be float64(a)/float64(b) or the correctly "
        "rounded quotient",
        "the expected result is the same by every route; how a bare Inf token after a sign is read is reader syntax (C12), "
        "operands are written +Inf / -Inf",
        "the NumTower definitions are checked against integer/rational arithmetic at 8-bit (thorough) / 6-bit (quick) word size; "
        "the 64-bit instance uses the same module with other constants",
        "TLC 1.8.0",
    ])


def replay(path):
    out = flow.Outcome(PROP)
    zv = vlib.build_zv()
    rec = json.load(open(path))
    rp = os.path.join(vlib.scratch(), "r.ndjson")
    with open(rp, "w") as f:
        f.write(json.dumps(rec["case"]) + "\n")
    fresh = os.path.join(vlib.scratch(), "fresh.ndjson")
    vlib.run_zv1(zv, "num", ["-replay", rp], out=fresh)
    v, _ = vlib.validate_trace("NumTrace.tla", "NumTrace.cfg", fresh, env={"VERIF_DEVS": _devs()})
    bad = [i for i in v if v[i][0] == "bad"]
    for i in bad:
        print("VIOLATION property=%s replay=%s" % (PROP, path))
    return 1 if bad else 0
