"""C15 -- macro templates expand by exact substitution.

spec: Quasi (independent substitution function Subst over templates with unquote / unquote-splicing in lists,
      arrays and hash forms; laws audited by TLC over all small templates: MCQuasi)
bind: ^template for every list/array template of width <= 3 over 18 element kinds (atoms, ~x, ~compound, ~@list,
      ~@singleton, ~@empty, ~@non-list, nested list/array/hash-form), hash forms, depth-3 nestings; 8 macro bodies
      x 5 call sites (top level, function, loop, let with shadowing names, inside another macro): macexpand vs
      Subst, call vs hand-written expansion (value and effects), caller depths/globals around the expansion.
"""
import collections, json, os
import vlib, flow

PROP = "C15"


def run():
    out = flow.Outcome(PROP)
    zv = vlib.build_zv()
    flow.mc_runs(out, [dict(module="MCQuasi.tla", cfg="MCQuasi.cfg")])
    trace = os.path.join(vlib.scratch(), "quasi.ndjson")
    vlib.run_zv(zv, "quasi", [], trace)
    cases, v = flow.validate(out, "quasi", "QuasiTrace.tla", "QuasiTrace.cfg", trace, zv)
    kinds = collections.Counter(c["kind"] for c in cases.values())
    bad_kinds = [k for k in kinds if k not in ("template", "macro")]
    if bad_kinds:
        raise vlib.Inconclusive("macro cases could not be set up: %s" % dict(kinds))
    cov = {
        "programs": len(cases),
        "disagreements_checked": sum(1 for i in cases if v[i][0] in ("ok", "bad")),
        "templates": kinds["template"], "macro_cases": kinds["macro"],
        "states": out.states, "transitions": out.transitions,
        "verdicts": dict(collections.Counter("%s/%s" % (v[i][0], v[i][1].strip('"')) for i in cases)),
        "samples": [{"text": c["text"], "out": c.get("out"), "expansion": c.get("expansion")} for c in list(cases.values())[100:102] + list(cases.values())[-1:]],
        "exhaustive": vlib.tier() == "thorough",
    }
    return flow.finish(out, "translation_validation", cov, [
        "the template language is the one of Quasi.tla (no nested syntax-quotes, no top-level splice, hash literals are the reader's (hash ...) forms)",
        "the hand-written expansion text is produced by the harness's own substitution; macexpand output is compared with Quasi!Subst by TLC",
    ])


def replay(path):
    zv = vlib.build_zv()
    rec = json.load(open(path))
    rp = os.path.join(vlib.scratch(), "r.ndjson")
    open(rp, "w").write(json.dumps(rec["case"]) + "\n")
    fresh = os.path.join(vlib.scratch(), "fresh.ndjson")
    vlib.run_zv1(zv, "quasi", ["-replay", rp], out=fresh)
    v, _ = vlib.validate_trace("QuasiTrace.tla", "QuasiTrace.cfg", fresh)
    bad = [i for i in v if v[i][0] == "bad"]
    for i in bad:
        print("VIOLATION property=%s replay=%s" % (PROP, path))
    return 1 if bad else 0
