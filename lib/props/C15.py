"""C15 -- macro templates expand by exact substitution.

spec: Quasi (independent substitution function Subst over templates with unquote / unquote-splicing in lists,
      arrays, hash forms and hash objects; Eval gives the value of an unquoted expression of a small pure
      language -- (begin) and (newScope) without forms are nil, an expression that is rejected has no value and
      neither has the template; laws audited by TLC over all small templates: MCQuasi)
bind: ^template for every list/array template of width <= 3 over 23 element kinds (atoms, ~x, ~compound, ~@list,
      ~@singleton, ~@empty, ~@non-list, nested list/array/hash-form), hash forms, depth-3 nestings; 33 further
      element kinds (unquoted expressions that compile to no instruction, nil-valued, valued, rejected when
      compiled or when run; ~@expression; negative literals; %datum and ^datum sugar) alone (depth 0), as only
      element, in the middle, nested, inside a function, beside every other kind; templates holding hash OBJECTS
      (built as a value, through eval and through a macro returning the syntaxQuote form) with every element kind
      in value position; 14 macro bodies x 6 call sites (top level, function, loop, let with shadowing names,
      loop+let, inside another macro): macexpand vs Subst, call vs hand-written expansion (value and effects),
      caller depths/globals around the expansion; 36 macro NAMES (ordinary, special forms, builtin, bound variable,
      reserved words) x 2 call sites: a definition that is accepted is reached by calls.
"""
import collections, json, os
import vlib, flow

PROP = "C15"


def run():
    out = flow.Outcome(PROP)
    zv = vlib.build_zv()
    flow.mc_runs(out, [dict(module="MCQuasi.tla", cfg="MCQuasi.cfg")])
    trace = os.path.join(vlib.scratch(), "quasi.ndjson")
    vlib.run_zv(zv, "quasi", [], trace)
    cases, v = flow.validate(out, "quasi", "QuasiTrace.tla", "QuasiTrace.cfg", trace, zv)
    kinds = collections.Counter(c["kind"] for c in cases.values())
    bad_kinds = [k for k in kinds if k not in ("template", "macro")]
    # a refused definition says nothing; the ordinary names (every mac-* case, the controls of the names
    # dimension) must have been accepted, or the macro cases were not set up
    unset = [i for i, c in cases.items() if c["kind"] == "macro" and v[i][:2] == ("ok", '"refused"')
             and (i.startswith("mac-") or c.get("name") in ("mfree", "mac2"))]
    if bad_kinds or unset:
        raise vlib.Inconclusive("macro cases could not be set up: %s %s" % (dict(kinds), unset[:5]))
    cov = {
        "programs": len(cases),
        "disagreements_checked": sum(1 for i in cases if v[i][0] in ("ok", "bad")),
        "templates": kinds["template"], "macro_cases": kinds["macro"],
        "hash_object_templates": sum(1 for c in cases.values() if c.get("route") in ("eval", "macro")),
        "macro_names": len(set(c.get("name") for c in cases.values() if c.get("name"))),
        "states": out.states, "transitions": out.transitions,
        "verdicts": dict(collections.Counter("%s/%s" % (v[i][0], v[i][1].strip('"')) for i in cases)),
        "samples": [{"text": c["text"], "out": c.get("out"), "expansion": c.get("expansion")} for c in list(cases.values())[100:102] + list(cases.values())[-1:]],
        "exhaustive": vlib.tier() == "thorough",
    }
    return flow.finish(out, "translation_validation", cov, [
        "the template language is the one of Quasi.tla (no top-level splice; hash literals are the reader's (hash ...) forms, hash objects enter a template built as a value; unquoted expressions are the pure ones of Quasi!Eval)",
        "an expression 'without a value' is one the interpreter rejects when it is written on its own (the harness checks that premise at start)",
        "the hand-written expansion text is produced by the harness's own substitution; macexpand output is compared with Quasi!Subst by TLC",
    ])


def replay(path):
    zv = vlib.build_zv()
    rec = json.load(open(path))
    rp = os.path.join(vlib.scratch(), "r.ndjson")
    open(rp, "w").write(json.dumps(rec["case"]) + "\n")
    fresh = os.path.join(vlib.scratch(), "fresh.ndjson")
    vlib.run_zv1(zv, "quasi", ["-replay", rp], out=fresh)
    v, _ = vlib.validate_trace("QuasiTrace.tla", "QuasiTrace.cfg", fresh)
    bad = [i for i in v if v[i][0] == "bad"]
    for i in bad:
        print("VIOLATION property=%s replay=%s" % (PROP, path))
    return 1 if bad else 0
