"""C01 -- no input can crash the host: evaluation always returns a value or an error.

spec: CrashTrace (the interpreter as seen by the Go caller: every entry-point call returns with an outcome in
      {value, error, more-input, budget}, a REPL session ends in the ordinary way at the end of its input; panics,
      nil results, the death or the exit of the process and a call that does not return are not outcomes of the
      machine; a program the step budget does not bound may fail to return, nothing else; named deviations
      exit-ends-host and chan-blocks-forever with the channel model they are stated in)
bind: in worker subprocesses (stack bound lowered, so that a recursion without end is over in a second): every
      special form x arity 0..3 x 16 argument shapes; every callable name bound in a sandboxed+StandardSetup
      interpreter, and those only the full interpreter has, in the full one (dumped live, so new primitives are
      included; none left out) x arity 0..3 x a 16-value palette (one value a huge size); index forms and sizes;
      re-definitions across value kinds; all strings over a 40-token alphabet up to length 3; sequences of calls on
      one interpreter; values that contain themselves x every callable name, every special form and the routes on
      which values are rendered unasked; texts nested as deep as they are long and long flat texts; macros and
      functions that call themselves without end; programs over a channel of their own; byte/token mutations of the
      script corpus; through EvalString, LoadString+Run, ParseTokens+EvalExpressions, macexpand and zygo.Repl on a
      pipe; with the verif step budget armed. TLC validates every recorded outcome sequence.
"""
import collections, json, os
import vlib, flow

PROP = "C01"
DEVS = ("exit-ends-host", "chan-blocks-forever")


def _devs():
    if os.environ.get("VERIF_DEVS") is not None:      # development aid
        return os.environ["VERIF_DEVS"]
    ids = [k["id"] for k in vlib.known_findings(PROP) if k["id"] in DEVS]
    return ",".join(ids) if ids else "none"


def run():
    out = flow.Outcome(PROP)
    zv = vlib.build_zv()
    trace = os.path.join(vlib.scratch(), "crash.ndjson")
    vlib.run_zv(zv, "crash", [], trace, timeout=3000)
    cases, v = flow.validate(out, "crash", "CrashTrace.tla", "CrashTrace.cfg", trace, zv, max_confirm=40,
                             env={"VERIF_DEVS": _devs()},
                             # a call that did not return within the workers' limit is re-executed with three times
                             # the limit before it is reported: the machine may be busy, the verdict must not be
                             # likewise a process that ended at the workers' LOWERED stack bound is re-executed with Go's
                             # own bound (1 GB for the deep texts): an evaluation that nests as deep as its text is long
                             # (a line of prefix operators at the REPL) needs a few hundred MB and returns
                             replay_env={"ZV_HUNG_S": "60", "ZV_MAXSTACK_MB": "2000"},
                             noise=lambda c: any(o and (o[0] == "hung" or (o[0] == "died" and "stack" in json.dumps(o)))
                                                 for o in c["outs"]))
    by = collections.Counter((c["src"], c["cfg"], c["entry"]) for c in cases.values())
    outs = collections.Counter(o[0] for c in cases.values() for o in c["outs"])
    texts = set(t for c in cases.values() for t in c["texts"])
    notrun = [i for i in cases if v[i][0] == "skip"]  # not run: the shard had too many hung or dead workers
    bad = collections.Counter((cases[i]["src"], v[i][1]) for i in cases if v[i][0] == "bad")
    for (src, what), n in sorted(bad.items()):
        vlib.log("rejected: %d cases of source %s (%s)" % (n, src, what))
    cov = {
        "evaluations": sum(len(c["outs"]) for c in cases.values()),
        "distinct_nontrivial": len(texts),
        "rule": "a case is a sequence of 1-3 texts on one interpreter through one entry point; distinct = distinct texts "
                "(every text is a malformed or boundary input by construction: special form x arity x shape, callable x "
                "palette, token strings, corpus mutants, self-containing values, deep and long texts, endless recursion, "
                "channel programs, REPL sessions)",
        "cases": len(cases),
        "by_source_cfg_entry": {"%s/%s/%s" % k: n for k, n in sorted(by.items())},
        "outcomes": dict(outs),
        "not_run": len(notrun),
        "rejected_by_source": {"%s/%s" % k: n for k, n in sorted(bad.items())},
        "states": out.states, "transitions": out.transitions,
        "samples": [{"entry": c["entry"], "texts": [t[:200] for t in c["texts"]], "outs": c["outs"]}
                    for c in list(cases.values())[::max(1, len(cases) // 3)][:3]],
    }
    return flow.finish(out, "exploration", cov, [
        "the step budget (verif hook) bounds evaluation; programs it does not bound (macros and functions that call "
        "themselves without end) run without it and may fail to return, but must not end the process",
        "the workers lower Go's bound on a goroutine stack from 1 GB to 48 MB (32 MB in effect): a recursion without end, "
        "or as deep as the text is long, ends the process at either bound; texts are at most 1 MB",
        "no callable name is left out; (sleep n) is not given the huge size (it returns after n milliseconds); the "
        "workers run in a throw-away directory with an empty standard input, the shell commands of the palette are inert",
        "what a command started by system does to the host is not an outcome of the call",
        "cmd/zygo -c and script files reach the interpreter through EvalString and LoadFile+Run, which are exercised "
        "in process; the REPL is exercised through zygo.Repl on a pipe (no line editor)",
    ])


def replay(path):
    zv = vlib.build_zv()
    rec = json.load(open(path))
    rp = os.path.join(vlib.scratch(), "r.ndjson")
    open(rp, "w").write(json.dumps(rec["case"]) + "\n")
    fresh = os.path.join(vlib.scratch(), "fresh.ndjson")
    # as in the confirming re-execution of run(): three times the workers' time limit, Go's own stack bound
    vlib.run_zv1(zv, "crash", ["-replay", rp], out=fresh, env={"ZV_HUNG_S": "60", "ZV_MAXSTACK_MB": "2000"}, timeout=1500)
    v, _ = vlib.validate_trace("CrashTrace.tla", "CrashTrace.cfg", fresh, env={"VERIF_DEVS": _devs()})
    bad = [i for i in v if v[i][0] == "bad"]
    for i in bad:
        print("VIOLATION property=%s replay=%s" % (PROP, path))
    return 1 if bad else 0
