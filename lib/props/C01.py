"""C01 -- no input can crash the host: evaluation always returns a value or an error.

spec: CrashTrace (the interpreter as seen by the Go caller: every entry-point call returns with an outcome in
      {value, error, more-input, budget}; panics, nil results and process death are not outcomes of the machine)
bind: in worker subprocesses: every special form x arity 0..3 x 15 argument shapes; every callable name bound in a
      sandboxed+StandardSetup interpreter (dumped live, so new primitives are included) x arity 0..3 x a 15-value
      palette; all strings over a 40-token alphabet up to length 3; sequences of calls on one interpreter;
      byte/token mutations of the script corpus; through EvalString, LoadString+Run, ParseTokens+EvalExpressions
      and macexpand; with the verif step budget armed. TLC validates every recorded outcome sequence.
"""
import collections, json, os
import vlib, flow

PROP = "C01"


def run():
    out = flow.Outcome(PROP)
    zv = vlib.build_zv()
    trace = os.path.join(vlib.scratch(), "crash.ndjson")
    vlib.run_zv(zv, "crash", [], trace, timeout=3000)
    cases, v = flow.validate(out, "crash", "CrashTrace.tla", "CrashTrace.cfg", trace, zv, max_confirm=40)
    by = collections.Counter((c["src"], c["entry"]) for c in cases.values())
    outs = collections.Counter(o[0] for c in cases.values() for o in c["outs"])
    texts = set(t for c in cases.values() for t in c["texts"])
    hung = [i for i in cases if v[i][0] == "skip"]  # not run: the shard had too many hung cases
    cov = {
        "evaluations": sum(len(c["outs"]) for c in cases.values()),
        "distinct_nontrivial": len(texts),
        "rule": "a case is a sequence of 1-3 texts on one interpreter through one entry point; distinct = distinct texts "
                "(every text is a malformed or boundary input by construction: special form x arity x shape, callable x "
                "palette, token strings, corpus mutants)",
        "cases": len(cases),
        "by_source_and_entry": {"%s/%s" % k: n for k, n in sorted(by.items())},
        "outcomes": dict(outs),
        "not_run": len(hung),
        "states": out.states, "transitions": out.transitions,
        "samples": [{"entry": c["entry"], "texts": c["texts"], "outs": c["outs"]} for c in list(cases.values())[::max(1, len(cases) // 3)][:3]],
    }
    return flow.finish(out, "exploration", cov, [
        "the step budget (verif hook) bounds evaluation; resource exhaustion by a single huge allocation request is excluded from the palette",
        "names whose purpose is to leave the process or block on input (exit, sys/system, sleep, stdin readers, file writers) are excluded from the callable universe",
        "the interactive line reader and cmd/zygo are exercised by C08's subprocess probes, not here",
    ])


def replay(path):
    zv = vlib.build_zv()
    rec = json.load(open(path))
    rp = os.path.join(vlib.scratch(), "r.ndjson")
    open(rp, "w").write(json.dumps(rec["case"]) + "\n")
    fresh = os.path.join(vlib.scratch(), "fresh.ndjson")
    vlib.run_zv1(zv, "crash", ["-replay", rp], out=fresh)
    v, _ = vlib.validate_trace("CrashTrace.tla", "CrashTrace.cfg", fresh)
    bad = [i for i in v if v[i][0] == "bad"]
    for i in bad:
        print("VIOLATION property=%s replay=%s" % (PROP, path))
    return 1 if bad else 0
