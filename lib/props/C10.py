"""C10 -- records convert to registered Go structs and back without loss.

spec: GoInterop (a Go type algebra basic | struct | ptr | iface | slice | bytes | map | time with the
      harness struct family and the library's demo structs mirrored as constants;
      Fill(graph, root) = the Go value a conversion must produce: every field filled through embedded
      structs, struct values, pointers, interfaces, slices, maps; ONE object per record referenced
      through pointer-like positions; Err for an undeclared key or a wrong-kind value;
      Back / MatchStruct = the record a Go value is handed back as)
TLC:  MCGoInterop enumerates every record of every registered type with <= 2 fields present over
      a palette per field type (slices of slices, maps to interfaces, references into a pool of
      records that share each other and point back at the root: sharing patterns and cycles) and
      checks the laws on the specification: WellTyped (every field filled), NoLoss (Back(Fill(r))
      covers r), OneObject, UnknownKey / WrongKind (every such mutant is an error), and that the
      named deviations are distinguishable from the lossless reading
bind: the harness builds record graphs from script text on the real interpreter (one field at a
      time x every palette value, one wrong-kind value / one undeclared key at every position and one
      level down at every reference position, every pair and triple of reference positions sharing
      one record, diamonds, cycles, seeded random graphs of depth <= 3), converts the root with
      (togo r) and with (_method host EchoX: r), dumps the Go value by reflection in canonical
      form and records the record handed back; TLC validates every outcome against Fill /
      MatchStruct (GoInteropTrace); the struct declarations seen by reflection are compared with
      the constants of the specification in every run
"""
import json, os
import vlib, flow

PROP = "C10"
CHUNK = 4000   # cases per TLC run (TLC parses the trace single-threaded and keeps it in memory)
PAR = 2        # concurrent TLC runs


def _devs():
    if os.environ.get("VERIF_DEVS") is not None:      # development aid
        return os.environ["VERIF_DEVS"]
    return ",".join(k["id"] for k in vlib.known_findings(PROP))


def _validate(out, zv, trace, env):
    from concurrent.futures import ThreadPoolExecutor
    cases = vlib.load_cases(trace)
    if not cases:
        raise vlib.Inconclusive("harness produced no cases for gointerop")
    if "types" not in cases:
        raise vlib.Inconclusive("the trace lacks the reflection dump of the struct declarations")
    lines = [l for l in open(trace) if l.strip()]
    nchunk = max(PAR, -(-len(lines) // CHUNK))
    size = -(-len(lines) // nchunk)
    parts = []
    for n in range(nchunk):
        part = os.path.join(vlib.scratch(), "gointerop-%d.ndjson" % n)
        with open(part, "w") as f:
            f.writelines(lines[n * size:(n + 1) * size])
        parts.append(part)
    vlib.specdir()
    workers = max(2, vlib.NCPU // PAR)
    with ThreadPoolExecutor(PAR) as ex:
        res = list(ex.map(lambda p: vlib.validate_trace("GoInteropTrace.tla", "GoInteropTrace.cfg", p, env=env,
                                                        workers=workers, timeout=2400), parts))
    v = {}
    for (vv, t) in res:
        v.update(vv)
        out.states += t.distinct
        out.transitions += t.generated
    missing = [i for i in cases if i not in v]
    if missing:
        raise vlib.Inconclusive("%d cases of gointerop got no verdict from TLC (e.g. %s)" % (len(missing), missing[:3]))
    if v["types"][0] != "ok":
        raise vlib.Inconclusive("the struct declarations of the harness differ from the constants of spec/GoInterop.tla "
                                "(the mirror drifted: a modelling problem, not a verdict about the code)")
    bad = [i for i in cases if v[i][0] == "bad"]
    nknown = 0
    for i in cases:
        if v[i][0].startswith("known:"):
            out.known.setdefault(v[i][0][6:], []).append(i)
            nknown += 1
    out.traces += len(cases) - len(bad)
    vlib.log("gointerop: %d cases validated by GoInteropTrace.tla in %d TLC runs: %d rejected, %d explained by known deviations"
             % (len(cases), len(parts), len(bad), nknown))
    if bad:
        bp = os.path.join(vlib.scratch(), "gointerop-rejected.ndjson")
        with open(bp, "w") as f:
            for i in sorted(bad)[:100]:
                f.write(json.dumps(cases[i]) + "\n")
        if len(bad) > 100:
            out.notes.append("%d rejected cases, the first 100 re-validated and re-executed" % len(bad))
        flow.validate(out, "gointerop", "GoInteropTrace.tla", "GoInteropTrace.cfg", bp, zv, env=env)
    return cases, v


def run():
    out = flow.Outcome(PROP)
    zv = vlib.build_zv()
    thorough = vlib.tier() == "thorough"
    flow.mc_runs(out, [dict(module="MCGoInterop.tla", cfg="MCGoInterop.cfg" if thorough else "MCGoInteropQuick.cfg",
                            timeout=2400)])
    trace = os.path.join(vlib.scratch(), "gointerop.ndjson")
    vlib.run_zv(zv, "gointerop", [], trace)
    env = {"VERIF_DEVS": _devs()}
    cases, v = _validate(out, zv, trace, env)

    kinds, fam, outcomes, roots = {}, {}, {}, {}
    nout = 0
    shapes = set()
    shared = cyc = 0
    for cid, c in cases.items():
        if c["kind"] == "types":
            continue
        kinds[c["kind"]] = kinds.get(c["kind"], 0) + 1
        fam[cid.split("-")[0]] = fam.get(cid.split("-")[0], 0) + 1
        rt = c["g"][c["root"] - 1][0]
        roots[rt] = roots.get(rt, 0) + 1
        shared += 1 if c["tries"] > 1 else 0
        cyc += 1 if c.get("cyc") else 0
        for r in c["res"]:
            nout += 1
            outcomes[c["kind"] + ":" + r[0]] = outcomes.get(c["kind"] + ":" + r[0], 0) + 1
        # a distinct non-trivial case: the graph with its contents (script text without the per-case name suffix)
        if len(c["g"]) > 1 or any(p[1][0] in ("arr", "hash") for p in c["g"][0][1]):
            shapes.add((c["kind"], json.dumps(c["g"])))
    samples = []
    for want in ("s3", "n1", "w2"):
        for cid, c in cases.items():
            if cid.startswith(want + "-") and c["kind"] == "fwd":
                samples.append({"id": cid, "text": c["text"], "note": c.get("note", ""), "outcomes": c["res"][:2],
                                "verdict": v[cid][0]})
                break
    for cid, c in cases.items():
        if c["kind"] == "echo" and c["res"] and c["res"][0][0] == "ok" and v[cid][0] == "ok" and len(c["g"]) > 1:
            samples.append({"id": cid, "text": c["text"], "via": c["via"], "outcomes": c["res"][:1], "verdict": "ok"})
            break
    out.samples = samples
    cov = {
        "programs": len(cases) - 1,
        "disagreements_checked": nout,
        "distinct_nested_or_shared_graphs": len(shapes),
        "cases_by_kind": kinds,
        "cases_by_generator": fam,
        "cases_by_root_type": roots,
        "outcomes": outcomes,
        "graphs_with_a_record_referenced_twice": shared,
        "graphs_that_reach_themselves": cyc,
        "states": out.states, "transitions": out.transitions,
        "traces_validated_against_impl": out.traces,
        "rule": "programs = record graphs built from script text and converted (togo / _method Echo / Snoopy.EchoWeather); "
                "disagreements_checked = recorded conversion outcomes compared by TLC with Fill / MatchStruct "
                "(a graph with a shared record is converted 40 times, every distinct outcome is compared); generators: "
                "f1 one field x every palette value of its type for 21 registered types (harness family + demo structs), "
                "w1/u1 one wrong-kind value / one undeclared key at every field, w2/u2/n1 the same and valid children one "
                "level down at 33 reference positions, s2/s3 every pair / sampled triples of reference positions sharing one "
                "record, s4 diamonds, c1 cycles, r seeded random graphs of depth <= 3 with shared records, h1 histories on ONE record "
                "object (a conversion that fails through togo or with the record as receiver of a Go method, further "
                "conversions, the repair of the field with hset, conversions again; a successful conversion, a write, then a "
                "method call with the record as receiver / as argument; each step must give what a fresh record "
                "with the same contents gives); zvtwin / nestouter / nestinner are registered under two names and travel nested "
                "through pointer and interface fields: a record that went in under the first name must come back under it; "
                "further routes: a method result of interface type (AnyLeaf), a parameter of interface type (TakeAny), a method "
                "handing back a pointer field of its argument (PairA, nil when unset), a record passed for a parameter of ANOTHER "
                "struct type (must be refused), removal of a field before a second togo, a method call on the record below a "
                "failed conversion and on a record that came back from Go; values: unsigned literals, integers beyond 2^53 into "
                "float fields, floats beyond float32, values no field can hold (regexp, type value, channel), durations, named "
                "scalar types, int16/uint32/uint64, an unexported field; the identity of every record in a returned value is "
                "recorded and compared with the sharing the Go value has (one Go object, one record)",
    }
    return flow.finish(out, "translation_validation", cov, [
        "struct family of harness/cmd/zv/gointerop_types.go and the demo structs of zygo/demo_go_structs.go; the declarations "
        "seen by reflection are compared with the constants of spec/GoInterop.tla in every run (case 'types')",
        "expected Go values are computed by TLC from the record graph alone (Fill); the harness only dumps what reflection sees "
        "(one value per declared field, map keys sorted, pointer identities renamed in first-visit order; nil and empty "
        "slices / maps / byte slices are not distinguished)",
        "judged conversions: int/char/unsigned literal into integer kinds, int or float into float64 (an integer it cannot hold "
        "exactly is an error), float into float32 (beyond its range: an error), duration, named string/float types, string, bool, raw "
        "bytes, time, arrays, plain hashes into map[string]string|float64|interface and map[int64]float64, records into struct "
        "values / pointers / interfaces, nil into pointer-like and container fields, absent fields; must fail: an undeclared "
        "key, a value of another family (number / string / bool / bytes / time / array / hash / record of another type), a "
        "fractional float or an out-of-range integer into an integer field",
        "not judged (the statement is silent): nil or a symbol into a basic field, an integral float into an integer field, an "
        "int into float32, a char into int/int64, an unsigned literal into a signed or float field, an int into a duration, "
        "a record that gives an embedded struct as a whole together with its promoted fields, two keys that name one field, "
        "two fields that answer to one key, the same record passed twice in one method call (each argument is its own conversion); "
        "a char field comes back as an integer (Go's rune IS int32; the language's == treats them as equal)",
        "on the way back a field is identified by its label (json tag, else Go field name); the type name must be the first "
        "registered name of the Go type (either name only for a type of which a record went in under its second name); one Go "
        "object must come back as one record (identity pattern of the returned value, acyclic values only)",
        "times come from a palette of three instants bound as globals; floats from a palette exactly representable in float32",
        "the converter ranges over Go maps: graphs with a shared record are converted 40 times from fresh records and every "
        "distinct outcome is judged; graphs that reach themselves are converted in a child process (stack limit 4 MB)",
        "TLC 1.8.0; verdicts come only from recorded executions of the real code",
    ])


def replay(path):
    zv = vlib.build_zv()
    rec = json.load(open(path))
    rp = os.path.join(vlib.scratch(), "r.ndjson")
    with open(rp, "w") as f:
        f.write(json.dumps(rec["case"]) + "\n")
    fresh = os.path.join(vlib.scratch(), "fresh.ndjson")
    vlib.run_zv1(zv, "gointerop", ["-replay", rp], out=fresh)
    v, _ = vlib.validate_trace("GoInteropTrace.tla", "GoInteropTrace.cfg", fresh, env={"VERIF_DEVS": _devs()})
    bad = [i for i in v if v[i][0] == "bad"]
    for i in bad:
        print("VIOLATION property=%s replay=%s" % (PROP, path))
    return 1 if bad else 0
