"""C13 -- parsing depends only on the text: not on chunking, not on history.

spec: ParseSession (lexical-mode/bracket automaton over character classes: Unfinished, Count,
      Quality; session machine ResetLoad/Feed/Queue/Abandon)
TLC:  MCParseSession: every text up to a length bound x every chunking x every history of the
      session machine; invariants TextOnly, QueueInert, Monotone, BlankNeutral, Closable, StatusTotal
bind: zv parse records, for every text x chunking x history on the real parser, the status and the
      printed expressions after every piece, and the same text parsed whole by a fresh parser;
      TLC (ParseTrace) recomputes the automaton on every delivered prefix and checks
      piecewise = whole, history independence, more-input <=> Unfinished, last token never lost
"""
import json, os, re
import vlib, flow
from vlib import Inconclusive, log

PROP = "C13"
FAMILY = "parse"
MODULE, CFG = "ParseTrace.tla", "ParseTrace.cfg"


def _devs():
    ids = [k["id"] for k in vlib.known_findings(PROP)]
    if not ids and os.environ.get("VERIF_DEVS"):
        # development aid: deviations enabled by hand are still reported as violations by
        # flow.finish unless known_findings.json lists them as open
        return os.environ["VERIF_DEVS"]
    return ",".join(ids)


def _split(trace, k):
    fs = [open("%s.s%d" % (trace, i + 1), "w") for i in range(k)]
    n = 0
    with open(trace) as f:
        for line in f:
            if line.strip():
                fs[n % k].write(line)
                n += 1
    for f in fs:
        f.close()
    return n


def _validate(out, part, trace, zv, stats):
    """TLC judges every case of the trace (files read in parallel); rejections are re-executed."""
    cases = vlib.load_cases(trace)
    if not cases:
        raise Inconclusive("harness produced no cases for part " + part)
    nshard = 1 if len(cases) < 64 else 4 * vlib.NCPU
    _split(trace, nshard)
    env = {"VERIF_NSHARD": str(nshard), "VERIF_DEVS": _devs()}
    v, t = vlib.validate_trace(MODULE, CFG, trace, env=env, timeout=2400)
    out.states += t.distinct
    out.transitions += t.generated
    missing = [i for i in cases if i not in v]
    if missing:
        raise Inconclusive("%d cases of part %s got no verdict from TLC (e.g. %s)\n%s"
                           % (len(missing), part, missing[:3], t.stdout[-2000:]))
    out.traces += len(cases)
    bad = sorted(i for i in cases if v[i][0] == "bad")
    nknown = 0
    for i in cases:
        verdict, rest = v[i]
        m = re.match(r"\s*(\d+)", rest or "")
        if m and verdict != "bad":
            stats["discarded_items"] += int(m.group(1))
        if verdict.startswith("known:"):
            nknown += 1
            names = re.findall(r'"([a-z\-]+)"', rest or "") or [verdict[6:]]
            for nme in set(names + [verdict[6:]]):
                out.known.setdefault(nme, []).append(i)
    for c in cases.values():
        stats["texts"] += 1
        stats["runs"] += len(c["runs"])
        stats["pieces"] += sum(len(r[4]) for r in c["runs"])
        stats["references"] += len(c["refs"])
        stats["panic_results"] += sum(1 for x in c["tab"] if x[0] == 4)
        stats["texts_with_cuts_inside_more"] += 1 if any(
            any(c["tab"][o - 1][0] == 1 for o in r[4][:-1]) for r in c["runs"]) else 0
    log("%s/%s: %d cases validated by %s in %.1fs: %d rejected, %d explained only by known deviations"
        % (FAMILY, part, len(cases), MODULE, t.wall, len(bad), nknown))
    if len(out.samples) < 3:
        for i in list(cases)[:2]:
            c = cases[i]
            out.samples.append({"id": c["id"], "txt": c["txt"], "runs": len(c["runs"]), "first_runs": c["runs"][:3],
                                "tab": c["tab"][:4], "strs": c["strs"][:6], "verdict": list(v[i])})
    if not bad:
        return
    # confirm a spread over the generator families (first letter of the id), not the first 25 of one family
    groups = {}
    for i in bad:
        groups.setdefault(i[:1], []).append(i)
    todo = []
    while len(todo) < 25 and any(groups.values()):
        for g in sorted(groups):
            if groups[g] and len(todo) < 25:
                todo.append(groups[g].pop(0))
    rp = os.path.join(vlib.scratch(), "replay-%s-%s.ndjson" % (FAMILY, part))
    paths = {}
    with open(rp, "w") as f:
        for i in todo:
            paths[i] = vlib.save_replay(PROP, cases[i], {"family": FAMILY, "verdict": list(v[i])})
            f.write(json.dumps(cases[i]) + "\n")
    fresh = os.path.join(vlib.scratch(), "fresh-%s-%s.ndjson" % (FAMILY, part))
    vlib.run_zv1(zv, FAMILY, ["-replay", rp], out=fresh)
    v2, _ = vlib.validate_trace(MODULE, CFG, fresh, env={"VERIF_DEVS": _devs()}, timeout=1500)
    confirmed = []
    for i in todo:
        if v2.get(i, ("missing",))[0] == "bad":
            confirmed.append((i, paths[i], "%s %s (text %r)" % (v[i][0], v[i][1], cases[i]["txt"][:60])))
        else:
            out.notes.append("case %s rejected once but not on re-execution (%s)" % (i, v2.get(i)))
            try:
                os.unlink(paths[i])
            except OSError:
                pass
    if not confirmed:
        raise Inconclusive("rejections were not reproducible on re-execution: " + ", ".join(todo[:5]))
    if len(bad) > len(todo):
        out.notes.append("%d further rejected cases not individually confirmed" % (len(bad) - len(todo)))
    out.violations += confirmed


def run():
    out = flow.Outcome(PROP)
    zv = vlib.build_zv()
    thorough = vlib.tier() == "thorough"
    flow.mc_runs(out, [dict(module="MCParseSession.tla",
                            cfg="MCParseSession.cfg" if thorough else "MCParseSessionQuick.cfg", timeout=2400)])
    stats = dict(texts=0, runs=0, pieces=0, references=0, discarded_items=0, panic_results=0,
                 texts_with_cuts_inside_more=0)
    # (name, [zv argument lists]); one trace and one TLC run per batch.  The quick tier is a single
    # batch; the thorough tier works in batches to bound the size of one trace.
    base = [["-part", "gen"], ["-part", "files"], ["-part", "rand"]]
    batches = [("base", base)]
    if thorough:
        # every text of 4 classes over the 20-class alphabet: light runs for all, full runs for 1 in 8
        batches += [("gen4-%d" % k, [["-part", "gen", "-gen", "base,4,light,1,%d,4" % k]]) for k in range(4)]
        batches += [("gen4-full", [["-part", "gen", "-gen", "base,4,full,8,0,1"]]),
                    ("mid5", [["-part", "gen", "-gen", "mid,5,light,24,0,1"]]),
                    ("small5", [["-part", "gen", "-gen", "small,5,light,2,0,1"]]),
                    ("small6", [["-part", "gen", "-gen", "small,6,light,24,0,1"]]),
                    ("ext", [["-part", "gen", "-gen", "esc,5,light,1,0,1;pfx,4,light,1,0,1;cmt,3,light,2,0,1;cmtb,4,light,2,0,1"]])]
    for part, arglists in batches:
        trace = os.path.join(vlib.scratch(), "parse-%s.ndjson" % part)
        with open(trace, "wb") as o:
            for k, args in enumerate(arglists):
                sub = "%s.in%d" % (trace, k)
                vlib.run_zv(zv, FAMILY, args, sub)
                with open(sub, "rb") as f:
                    for line in f:
                        o.write(line)
                os.unlink(sub)
        _validate(out, part, trace, zv, stats)
        for k in range(1, 4 * vlib.NCPU + 1):
            try:
                os.unlink("%s.s%d" % (trace, k))
            except OSError:
                pass
        try:
            os.unlink(trace)
        except OSError:
            pass
    cov = {
        "states": out.states, "transitions": out.transitions,
        "traces_validated_against_impl": out.traces,
        "texts": stats["texts"], "piecewise_deliveries": stats["runs"], "pieces_judged": stats["pieces"],
        "whole_text_references": stats["references"],
        "texts_with_a_cut_inside_an_unfinished_prefix": stats["texts_with_cuts_inside_more"],
        "discarded_panic_items": stats["discarded_items"], "panic_results_recorded": stats["panic_results"],
        "exhaustive": True,
        "rule": "gen: every text over the 20-class alphabet up to length L1 x {whole, every single cut, every pair of cuts} "
                "x 12 histories (+ Reset;NewInput loading for 3 of them); after 22 long histories (earlier successful / rejected / "
                "abandoned texts of 20..47 runes, which fill the lexer's 20-rune look-back ring): every text of <= 2 classes, "
                "every text whose first class is read by looking behind (- * / : . + op) and all seed texts, whole and cut "
                "behind the first character; every structured text of a 9-class alphabet of "
                "length L3 (thorough also: 14-class alphabet, length 5, 1 in 24; 9-class, length 5, 1 in 2, and length 6, 1 in 24; every text of "
                "4 classes over the 20-class alphabet, 1 in 8 of them with the full product) x all cuts on a "
                "fresh parser + every history whole and with one cut set; "
                "texts outside the 20 classes: every text with a backslash escape over {dq bs letter digit blank (} up to length 4 "
                "(letters spelled x u U n: the long escapes), every text with a quote prefix over {% ^ ~ @ + - letter digit "
                "blank newline ( )} up to length 3, and a line / block comment inserted at every position of every host text "
                "(14-class alphabet up to length 2, brackets only length 3) (thorough: 5, 4, 3/4); "
                "histories also include an unfinished text left through the iterator protocol (break out of ParsingIter, read builtin); "
                "files: every tests/*.zy x every history whole + seeded single cuts, pairs and multi-cuts x random history; "
                "rand: seeded random class texts and corpus windows x random multi-cuts x random history "
                "(quick: L1 = 3, L3 = 4; thorough: L1 = 3 (+ 1 in 8 of length 4), L3 = 4..5). A Go panic escaping the parser is recorded "
                "and the item is not judged (C01).",
    }
    return flow.finish(out, "model_checking", cov, [
        "a piece continues a text only while the status is more-input; after done/err the next piece is a new text "
        "(segment) and is judged against the whole-text parse of that segment",
        "expressions are compared by printed form (SexpString), comments excluded from the count; results of rejected "
        "texts are compared by status only",
        "the whole-text reference is a fresh parser of an interpreter used for references only (one per text)",
        "character classes: the 20 of DESIGN.md instantiated with a/e/n, 1/7/0, blank/tab; corpus characters outside "
        "the alphabet map to the extra classes + op q t , x (fuzzy: an error is allowed, the more-input law still applies)",
        "TLC 1.8.0; MCParseSession explores the specification itself (design audit); verdicts come only from recorded executions",
    ])


def replay(path):
    out = flow.Outcome(PROP)
    zv = vlib.build_zv()
    rec = json.load(open(path))
    rp = os.path.join(vlib.scratch(), "r.ndjson")
    with open(rp, "w") as f:
        f.write(json.dumps(rec["case"]) + "\n")
    fresh = os.path.join(vlib.scratch(), "fresh.ndjson")
    vlib.run_zv1(zv, FAMILY, ["-replay", rp], out=fresh)
    v, _ = vlib.validate_trace(MODULE, CFG, fresh, env={"VERIF_DEVS": _devs()})
    bad = [i for i in v if v[i][0] == "bad"]
    for i in bad:
        print("VIOLATION property=%s replay=%s" % (PROP, path))
    return 1 if bad else 0
