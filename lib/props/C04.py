"""C04 -- an evaluation that succeeds leaves nothing behind in the interpreter.

spec: SessionTrace (rest state <<0,1,0,0>> of the four stacks; empty evaluation is nil; piecewise =
      together; no growth) and Bytecode (abstract execution of the REAL compiler's listings along all
      control paths: NeedOK, AtReturn, AtEnd, TailExact, Bounded)
bind: (a) sequences of evaluations over a catalogue of ~150 forms of the full surface language on one
      long-lived real interpreter, depths read through the verif accessor; every form 200x (growth);
      derived entries (fam_session.go sessionDerived): every form in operand positions (array element, call
      argument, function body whose call is an operand, cond arm, let body), every body-carrying form with an
      empty body, break/continue at every sub-position of a loop statement x enclosing scopes x top level /
      inside a function, syntax-quote template shapes x unquoted expressions (also ones that do not compile),
      source/include x file lists; evaluations entered through the Go API (Apply, SourceStream,
      SourceExpressions, zygo.EvalFunction) as catalogue entries;
      (b) the listing of every function/chunk the real compiler produced for the catalogue, for generated
      core-language programs and for the C09 tail shapes is the input of Bytecode.tla;
      (d) EntryPoints.tla: the host protocol of LoadString / Run / EvalString / EvalExpressions / Apply /
      SourceStream / SourceFile / SourceExpressions / zygo.EvalFunction / Clear (pending chunks, program counter,
      what runs when), model-checked (the pinned Apply and EvalFunction variants are refuted) and bound by every
      history of <= 3 host calls over a 22-call alphabet (of the 3-call histories using the source/EvalFunction
      letters the quick tier takes a seeded third) plus seeded long ones (EntryTrace.tla);
      (c) the stack effect of every VM instruction executed (step tracer) against VMEffects.tla, the table
      Bytecode.tla executes with (EffectTrace.tla).
"""
import json, os, re
import vlib, flow

PROP = "C04"


def bytecode(out, zv):
    lst = os.path.join(vlib.scratch(), "listings.ndjson")
    n = vlib.run_zv(zv, "session", ["-mode", "listings"], lst)
    t = vlib.tlc("Bytecode.tla", "Bytecode.cfg", env={"VERIF_TRACE": lst}, timeout=2400)
    if not t.completed or (t.errors and not t.violated):
        raise vlib.Inconclusive("TLC failed on Bytecode: %s\n%s" % (t.errors[:3], t.stdout[-2000:]))
    out.states += t.distinct
    out.transitions += t.generated
    listings = vlib.load_cases(lst)
    bad, unknown = {}, {}
    for line in t.stdout.splitlines():
        m = re.match(r'<<"VERDICT", "([^"]+)", "(bad|unknown)", "([^"]*)", (\d+)>>', line)
        if m:
            (bad if m.group(2) == "bad" else unknown).setdefault(m.group(1), (m.group(3), int(m.group(4))))
    vlib.log("bytecode: %d listings, %d states, %d bad, %d unknown instruction kinds" % (n, t.distinct, len(bad), len(unknown)))
    if len(unknown) > n // 2:
        raise vlib.Inconclusive("Bytecode.tla does not know the instruction kinds of %d listings: %s" % (len(unknown), list(unknown.values())[:3]))
    seen = set()
    for lid, (why, pc) in sorted(bad.items()):
        L = listings[lid]
        key = (why, L.get("orig") or L.get("src"))
        if key in seen:
            continue
        seen.add(key)
        if len(seen) > 15:
            break
        path = vlib.save_replay(PROP, L, {"family": "bytecode", "why": why, "pc": pc})
        out.violations.append((lid, path, "bytecode %s at pc %d of %s compiled from %s" % (why, pc, L["name"], (L.get("orig") or L.get("src"))[:120])))
    out.extra["listings_checked"] = n
    out.extra["listings_with_unknown_instruction"] = len(unknown)
    out.extra["listing_samples"] = [{"name": L["name"], "src": L["src"][:160], "instrs": [i["text"] for i in L["instrs"]][:40]}
                                    for L in list(listings.values())[:2]]
    return n


def effects(out, zv):
    """Bind the instruction table of Bytecode.tla (VMEffects) to the real VM."""
    tr = os.path.join(vlib.scratch(), "vmfx.ndjson")
    vlib.run_zv(zv, "vmfx", [], tr)
    cases, v = flow.validate(out, "vmfx", "EffectTrace.tla", "EffectTrace.cfg", tr, zv)
    ops = sorted(set(c["op"] for c in cases.values()))
    judged = sorted(set(c["op"] for i, c in cases.items() if v[i][0] != "skip"))
    out.extra["vm_instruction_kinds_observed"] = ops
    out.extra["vm_instruction_kinds_judged"] = judged
    out.extra["vm_effect_signatures"] = len(set((c["op"], c["n"], c["next"], c["before"], c["dd"], c["ds"]) for c in cases.values()))
    out.extra["vm_steps_paired"] = sum(c["count"] for c in cases.values())
    return len(cases)


def values(out, zv):
    """What every VM instruction does to the VALUES on the data stack (ZVM.tla): model-checked over all short
    instruction sequences (three wrong machines refuted), then bound to the real VM: every distinct
    (instruction, before-window) signature the step tracer saw is validated by ZVMTrace."""
    flow.mc_runs(out, [
        {"module": "MCZVM.tla", "cfg": "MCZVMQuick.cfg" if vlib.tier() != "thorough" else "MCZVM.cfg", "expect": "ok", "timeout": 900},
        {"module": "MCZVM.tla", "cfg": "MCZVMSquashReversed.cfg", "expect": "violation", "timeout": 300},
        {"module": "MCZVM.tla", "cfg": "MCZVMDupBelow.cfg", "expect": "violation", "timeout": 300},
        {"module": "MCZVM.tla", "cfg": "MCZVMBranchKeeps.cfg", "expect": "violation", "timeout": 300},
    ])
    tr = os.path.join(vlib.scratch(), "zvm.ndjson")
    vlib.run_zv(zv, "zvm", [], tr)
    cases, v = flow.validate(out, "zvm", "ZVMTrace.tla", "ZVMTrace.cfg", tr, zv)
    out.extra["vm_value_signatures"] = len(cases)
    out.extra["vm_value_signatures_judged"] = len([i for i in cases if v[i][0] != "skip"])
    out.extra["vm_value_kinds_judged"] = sorted(set(c["op"] for i, c in cases.items() if v[i][0] != "skip"))
    return len(cases)


def entrypoints(out, zv):
    """The host protocol of the public entry points (EntryPoints.tla): model-checked, then recorded histories of
    host calls on real interpreters validated against the same state functions (EntryTrace.tla)."""
    flow.mc_runs(out, [
        {"module": "EntryPoints.tla", "cfg": "EntryPoints.cfg", "expect": "ok", "timeout": 900},
        {"module": "EntryPoints.tla", "cfg": "EntryPointsPinned.cfg", "expect": "violation", "timeout": 300},
        {"module": "EntryPoints.tla", "cfg": "EntryPointsPinnedEvalFn.cfg", "expect": "violation", "timeout": 300},
    ])
    # the two invariants TLC checks for MaxChunks = 4 are proved for every bound by the proof system
    # (EntryPointsProof.tla); a fact about the specification, recorded, never a verdict
    pr = vlib.tlapm("EntryPointsProof.tla") if vlib.tier() == "thorough" or os.environ.get("VERIF_PROOFS") else None
    out.extra["entry_points_proof"] = ({"module": "EntryPointsProof.tla", "theorem": "Spec => [](PcInRange /\\ PendingIsTail)",
                                        "obligations_proved": pr[0], "obligations": pr[1]} if pr else "checked in the thorough tier (or with VERIF_PROOFS=1): 38 obligations")
    if pr:
        vlib.log("tlapm EntryPointsProof.tla: %d of %d obligations proved" % pr)
    tr = os.path.join(vlib.scratch(), "entry.ndjson")
    vlib.run_zv(zv, "entry", [], tr)
    cases, v = flow.validate(out, "entry", "EntryTrace.tla", "EntryTrace.cfg", tr, zv)
    out.extra["entry_point_histories"] = len(cases)
    out.extra["entry_point_calls"] = sum(len(c["evs"]) for c in cases.values())
    return len(cases)


def run():
    out = flow.Outcome(PROP)
    zv = vlib.build_zv()
    entrypoints(out, zv)
    effects(out, zv)
    values(out, zv)
    trace = os.path.join(vlib.scratch(), "session.ndjson")
    vlib.run_zv(zv, "session", ["-mode", "seq"], trace)
    cases, v = flow.validate(out, "session", "SessionTrace.tla", "SessionTrace.cfg", trace, zv, replay_args=["-mode", "seq"])
    nlist = bytecode(out, zv)
    evals = sum(len(c["evs"]) for c in cases.values())
    cov = {
        "states": out.states, "transitions": out.transitions,
        "traces_validated_against_impl": len(cases) + nlist,
        "evaluation_sequences": len(cases), "evaluations": evals,
        "samples": [[(e["text"], e["out"], e["after"], e["empty"]) for e in c["evs"]] for c in list(cases.values())[-2:]],
        "rule": "every catalogue form alone 200x (thorough 1000x); every derived entry (operand positions, empty bodies, jump positions, "
                "templates, file lists) alone 3x; a seeded third of all ordered pairs (thorough: all); "
                "seeded sequences of 3-4 catalogue and derived forms; each followed by an empty evaluation; twin interpreter evaluating the pieces together; "
                "Bytecode: all control paths of every listing compiled for the catalogue, generated programs and tail shapes",
    }
    return flow.finish(out, "model_checking", cov, [
        "depths are read through the verif accessor VerifDepths; growth is judged on the four stacks, not on the instruction memory of __main",
        "forms that fail are not judged here (C05); struct names are made unique per case because the registry is process-global",
        "piecewise = together is judged over forms whose meaning at compile time does not depend on what an earlier form of the same text does when it runs "
        "(names are unique per entry): a text is compiled as a whole before any of it runs, which is not residue",
        "Bytecode.tla's effect table per instruction kind (VMEffects.tla) is written from vm.go and bound to the VM by EffectTrace: "
        "every (kind, operand count, depth change) signature the tracer observed while the catalogue, generated programs and the script corpus ran must be the table's; "
        "instruction kinds never executed in those runs are assumed; an unknown kind is not judged",
    ])


def replay(path):
    rec = json.load(open(path))
    zv = vlib.build_zv()
    if rec.get("family") == "bytecode":
        # re-compile the source of the listing on the current tree and re-analyse
        L = rec["case"]
        src = os.path.join(vlib.scratch(), "src.txt")
        lst = os.path.join(vlib.scratch(), "l.ndjson")
        open(src, "w").write(L["src"])
        vlib.run_zv1(zv, "session", ["-mode", "one", "-src", src], out=lst)
        t = vlib.tlc("Bytecode.tla", "Bytecode.cfg", env={"VERIF_TRACE": lst})
        bad = re.findall(r'<<"VERDICT", "([^"]+)", "bad"', t.stdout)
        if bad:
            print("VIOLATION property=%s replay=%s" % (PROP, path))
        return 1 if bad else 0
    rp = os.path.join(vlib.scratch(), "r.ndjson")
    open(rp, "w").write(json.dumps(rec["case"]) + "\n")
    fresh = os.path.join(vlib.scratch(), "fresh.ndjson")
    fam, module, cfg = {"entry": ("entry", "EntryTrace.tla", "EntryTrace.cfg"),
                        "vmfx": ("vmfx", "EffectTrace.tla", "EffectTrace.cfg"),
                        "zvm": ("zvm", "ZVMTrace.tla", "ZVMTrace.cfg")}.get(rec.get("family"), ("session", "SessionTrace.tla", "SessionTrace.cfg"))
    vlib.run_zv1(zv, fam, ["-replay", rp], out=fresh)
    v, _ = vlib.validate_trace(module, cfg, fresh)
    bad = [i for i in v if v[i][0] == "bad"]
    for i in bad:
        print("VIOLATION property=%s replay=%s" % (PROP, path))
    return 1 if bad else 0
