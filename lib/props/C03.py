"""C03 -- lexical scoping: closures capture where they were made, never the caller.

spec: ZSem (frames are heap objects with parent pointers; closures capture the frame of creation)
bind: programs over a deliberately tiny name pool {x,y,z} built from nested fn/defn/let/letseq/
      newScope/for/def/set, with closures bound to variables, returned by makers, collected in loops,
      stored in arrays, passed to higher-order functions and called after their creator returned;
      closures written in the right-hand sides of let/letseq next to a binding of the name they use;
      dot paths (p.v read and set), eval and plain variables inside closures with the variable bound
      by a maker's parameter or a let, with and without a global of the same name; a dot path as the
      argument of a script function; validated by TLC against ZSem (SemTrace)
"""
import semflow

PROP = "C03"


def run():
    return semflow.run_sem(PROP, "sem", "scopeshapes,scoping,mixed", 1300, 40000,
                           "let/letseq x {with, without a global} x {top level, function} x 8 placements of a closure in a right-hand side (before/after/between "
                           "bindings of the name it uses, updating it, escaping, nested, over a parameter, a def inside a right-hand side); dot path / eval / plain "
                           "variable in a closure x {global of the same name or none}; seeded random programs of the scoping grammar (name pool x,y,z so that shadowing and capture collisions "
                           "occur in almost every program; makers returning closures that update captured variables; closures "
                           "collected in a loop and called afterwards; closures in arrays and as arguments; recursion and tail calls)",
                           semflow.SEM_ASSUMPTIONS)


def replay(path):
    return semflow.replay_sem(PROP, "sem", path)
