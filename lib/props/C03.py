"""C03 -- lexical scoping: closures capture where they were made, never the caller.

spec: ZSem (frames are heap objects with parent pointers; closures capture the frame of creation)
bind: programs over a deliberately tiny name pool {x,y,z} built from nested fn/defn/let/letseq/
      newScope/for/def/set, with closures bound to variables, returned by makers, collected in loops,
      stored in arrays, passed to higher-order functions and called after their creator returned;
      validated by TLC against ZSem (SemTrace)
"""
import semflow

PROP = "C03"


def run():
    return semflow.run_sem(PROP, "sem", "scoping,mixed", 1300, 40000,
                           "seeded random programs of the scoping grammar (name pool x,y,z so that shadowing and capture collisions "
                           "occur in almost every program; makers returning closures that update captured variables; closures "
                           "collected in a loop and called afterwards; closures in arrays and as arguments; recursion and tail calls)",
                           semflow.SEM_ASSUMPTIONS)


def replay(path):
    return semflow.replay_sem(PROP, "sem", path)
