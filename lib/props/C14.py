"""C14 -- hashes behave as insertion-ordered maps under every operation history.

spec: HashMap (abstract ordered map), HashImpl (buckets/KeyOrder/NumKeys as in hashutils.go)
TLC:  refinement HashImpl => HashMap over every history of a key universe with aliases and
      colliding bucket codes (finite state space => histories of every length);
      the pinned-commit variant of HashDelete and the unwrap-one-level variant of the key stripping
      must be refuted (self-tests, thorough tier)
bind: every script-level result of exhaustive + random histories on a real hash is validated
      by TLC against HashMap!Apply (HashTrace); open findings are named deviations of HashTrace
      (VERIF_DEVS), so that exactly those cases are explained
"""
import os
import vlib, flow

PROP = "C14"


def _devs():
    if os.environ.get("VERIF_DEVS") is not None:
        return os.environ["VERIF_DEVS"]  # development aid
    return ",".join(k["id"] for k in vlib.known_findings(PROP))


def run():
    out = flow.Outcome(PROP)
    zv = vlib.build_zv()
    thorough = vlib.tier() == "thorough"
    runs = [dict(module="MCHash.tla", cfg="MCHash.cfg" if thorough else "MCHashQuick.cfg")]
    if thorough:
        runs.append(dict(module="MCHash.tla", cfg="MCHashPinned.cfg", expect="violation"))
        runs.append(dict(module="MCHash.tla", cfg="MCHashStripOnce.cfg", expect="violation"))
    flow.mc_runs(out, runs)
    trace = os.path.join(vlib.scratch(), "hash.ndjson")
    vlib.run_zv(zv, "hash", [], trace)
    cases, v = flow.validate(out, "hash", "HashTrace.tla", "HashTrace.cfg", trace, zv, env={"VERIF_DEVS": _devs()})
    events = sum(len(c["evs"]) for c in cases.values())
    muts = set()
    for c in cases.values():
        muts.add(tuple(e["text"] for e in c["evs"] if e["op"] in ("hset", "hdel")))
    cov = {
        "states": out.states, "transitions": out.transitions,
        "traces_validated_against_impl": out.traces,
        "events_validated": events,
        "distinct_mutation_histories": len(muts),
        "samples": [[e["text"] + " => " + str(e["res"]) for e in c["evs"][:12]] for c in list(cases.values())[:2]],
        "exhaustive": True,
        "rule": "every sequence of hset/hdel of length <= L over 9 keys (every key kind, chr/int and [x]/x aliases, "
                "two colliding bucket codes) with the full observation battery after every step (every view; the range "
                "macro and both infix range loops over the hash under the names h, n, i); every length-L2 sequence "
                "over a 5-key alias core; every sequence of length <= L3 over the edge spellings 7/[7]/[[7]], 'c'/[['c']], "
                "a:/a.b/x.y with values of two types; seeded random histories of length 30 over 16 keys",
    }
    return flow.finish(out, "model_checking", cov, [
        "key universe and value palette as listed in harness/cmd/zv/fam_hash.go",
        "printed form and JSON are parsed back by the harness (parseHashStr/parseHashJson) before comparison",
        "TLC 1.8.0; HashImpl mirrors hashutils.go by hand (refinement is a design audit; verdicts come from the recorded executions)",
    ])


def replay(path):
    import json
    out = flow.Outcome(PROP)
    zv = vlib.build_zv()
    rec = json.load(open(path))
    rp = os.path.join(vlib.scratch(), "r.ndjson")
    with open(rp, "w") as f:
        f.write(json.dumps(rec["case"]) + "\n")
    fresh = os.path.join(vlib.scratch(), "fresh.ndjson")
    vlib.run_zv1(zv, "hash", ["-replay", rp], out=fresh)
    v, _ = vlib.validate_trace("HashTrace.tla", "HashTrace.cfg", fresh, env={"VERIF_DEVS": _devs()})
    bad = [i for i in v if v[i][0] == "bad"]
    for i in bad:
        print("VIOLATION property=%s replay=%s" % (PROP, path))
    return 1 if bad else 0
