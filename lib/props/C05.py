"""C05 -- errors are contained: a failed evaluation restores the interpreter.

spec: FaultTrace over ZSem (the store after a failure is the store at the moment of failure; the follow-up
      battery is evaluated from that store; nothing of a text with a parse/compile error runs)
bind: seeded programs with (fail) host calls in every context (top level, function, loop, let, newScope,
      map/apply callbacks, lazy forcing, eval) x EVERY k (the k-th host call fails) x {script error, Go panic
      inside the builtin} + parse error / compile error appended or prepended; recorded: error, depths,
      effect trace, and a battery of follow-up evaluations (every name the program binds, every function it
      defines, fresh definitions); validated by TLC.
spec: FailPoint (prefix law: state after Fail(forms, k) = state after Ok(forms[1..k-1]); the compile-then-run
      model with the macro journal refines it, model-checked) + FailPointTrace / NoopTrace (twin interpreters)
bind: failpoint family: re-definitions of every kind of definition with ONE failing form at every position, in
      every context (top level, begin, eval, call argument, lazy force, included file, sourced file, function
      body) x failure kinds; noop family: texts that fail before they take effect (rejected at top level, the
      ill-formed form in every nesting incl. under unquote, rejected on every nested compile route, the
      definition itself failing in the middle or refused, host macros, the host's Apply; catalogues of special
      forms with improper lists and of value-less forms in value positions: no panic, no partial effect).
"""
import collections, concurrent.futures, json, os
import vlib, flow, semflow

PROP = "C05"


def _devs():
    if os.environ.get("VERIF_DEVS") is not None:      # development aid
        return os.environ["VERIF_DEVS"]
    return ",".join(k["id"] for k in vlib.known_findings(PROP)) or "none"


def _validate_together(jobs):
    """The three trace validations are independent TLC runs: run them side by side (the machine has the
    cores; a TLC start-up costs more than these small validations) and hand each result to flow.validate,
    which asks vlib.validate_trace for it. jobs: (module, cfg, trace, env, timeout)."""
    real = vlib.validate_trace
    results = {}
    with concurrent.futures.ThreadPoolExecutor(len(jobs)) as ex:
        futs = {(m, t): ex.submit(real, m, c, t, env=e, timeout=to, workers=max(4, vlib.NCPU // 2)) for (m, c, t, e, to) in jobs}
        for k, f in futs.items():
            try:
                results[k] = f.result()
            except Exception as exc:       # re-raised where flow.validate asks for the result
                results[k] = exc

    def cached(module, cfg, trace, env=None, workers=None, timeout=1500, deque=False):
        r = results.pop((module, trace), None)
        if r is None:
            return real(module, cfg, trace, env=env, workers=workers, timeout=timeout, deque=deque)
        if isinstance(r, Exception):
            raise r
        return r
    return real, cached


def run():
    out = flow.Outcome(PROP)
    zv = vlib.build_zv()
    if vlib.tier() == "thorough":
        # the prefix law and the compile-then-run model with the macro journal, larger instances; without
        # the journal TLC must find the text <<fail, mac>> (the quick tier audits a small instance in an
        # ASSUME of FailPointTrace with every validation run)
        flow.mc_runs(out, [{"module": "MCFailPoint.tla", "cfg": "MCFailPoint.cfg", "timeout": 1800},
                           {"module": "MCFailPoint.tla", "cfg": "MCFailPointNone.cfg", "expect": "violation", "timeout": 900}])
    trace = os.path.join(vlib.scratch(), "fault.ndjson")
    ntrace = os.path.join(vlib.scratch(), "noop.ndjson")
    ptrace = os.path.join(vlib.scratch(), "failpoint.ndjson")
    # the three families are recorded side by side; the twin families are single-threaded interpreters:
    # keep the Go runtime from spreading each of the 16 shard processes over every core of the machine
    with concurrent.futures.ThreadPoolExecutor(3) as ex:
        futs = [ex.submit(vlib.run_zv, zv, "fault", [], trace),
                ex.submit(vlib.run_zv, zv, "noop", [], ntrace, env={"GOMAXPROCS": "2"}),
                ex.submit(vlib.run_zv, zv, "failpoint", [], ptrace, env={"GOMAXPROCS": "2"})]
        for f in futs:
            f.result()
    denv = {"VERIF_DEVS": _devs()}
    real, cached = _validate_together([("FaultTrace.tla", "FaultTrace.cfg", trace, None, 3000),
                                       ("NoopTrace.tla", "NoopTrace.cfg", ntrace, denv, 1500),
                                       ("FailPointTrace.tla", "FailPointTrace.cfg", ptrace, denv, 1500)])
    vlib.validate_trace = cached
    try:
        return _judge(out, zv, trace, ntrace, ptrace, denv)
    finally:
        vlib.validate_trace = real


def _judge(out, zv, trace, ntrace, ptrace, denv):
    cases, v = flow.validate(out, "fault", "FaultTrace.tla", "FaultTrace.cfg", trace, zv, timeout=3000)
    # a text rejected before it runs is a stuttering step, for every kind of definition (NoopTrace)
    ncases, nv = flow.validate(out, "noop", "NoopTrace.tla", "NoopTrace.cfg", ntrace, zv, env=denv)
    out.extra["rejected_text_cases"] = len(ncases)
    out.extra["rejected_text_by_definition_kind"] = dict(collections.Counter(c["def"] for c in ncases.values()))
    out.extra["rejected_text_by_variant"] = dict(collections.Counter(c["variant"] for c in ncases.values()))
    out.extra["rejected_text_verdicts"] = dict(collections.Counter(nv[i][0] for i in ncases))
    # failure at a known point: the state is that of the prefix (FailPointTrace)
    pcases, pv = flow.validate(out, "failpoint", "FailPointTrace.tla", "FailPointTrace.cfg", ptrace, zv, env=denv)
    pjudged = [i for i in pcases if pv[i][0] in ("ok", "bad") or pv[i][0].startswith("known:")]
    if len(pjudged) < len(pcases) // 2:
        raise vlib.Inconclusive("only %d of %d failpoint cases judged" % (len(pjudged), len(pcases)))
    out.extra["failpoint_cases"] = len(pcases)
    out.extra["failpoint_judged"] = len(pjudged)
    out.extra["failpoint_by_context"] = dict(collections.Counter(pcases[i]["ctx"] for i in pjudged))
    out.extra["failpoint_by_failure_kind"] = dict(collections.Counter(pcases[i]["failkind"] for i in pjudged))
    out.extra["failpoint_by_position"] = dict(collections.Counter(str(pcases[i]["k"]) for i in pjudged))
    out.extra["failpoint_by_kinds_behind_the_failure"] = dict(collections.Counter(
        d for i in pjudged for d in pcases[i]["defs"][pcases[i]["k"] - 1:]))
    kinds = collections.Counter((c["kind"], c["out"][0]) for c in cases.values())
    judged = [i for i in cases if v[i][0] in ("ok", "bad")]
    failing = set((c["text"], c["kind"], c["failAt"]) for i, c in cases.items() if c["kind"] != "none" and v[i][0] in ("ok", "bad"))
    if len(judged) < len(cases) // 2:
        raise vlib.Inconclusive("only %d of %d fault cases judged" % (len(judged), len(cases)))
    cov = {
        "evaluations": len(cases),
        "distinct_nontrivial": len(failing),
        "rule": "a case is (program, failure kind, k); non-trivial = a failure was injected (k-th host call fails as script error "
                "or Go panic, or a parse/compile error in the text) and the case was judged; distinct by (text, kind, k)",
        "states": out.states, "transitions": out.transitions,
        "not_judged": len(cases) - len(judged),
        "by_kind_and_outcome": {"%s/%s" % k: n for k, n in sorted(kinds.items())},
        "battery_evaluations": sum(len(c["battery"]) for c in cases.values()),
        "samples": [{"text": c["text"], "kind": c["kind"], "failAt": c["failAt"], "out": c["out"],
                     "battery": list(zip([json.dumps(b)[:60] for b in c["battery"]], c["bout"]))[:6]}
                    for c in list(cases.values())[3:5]],
    }
    return flow.finish(out, "fault_enumeration", cov, semflow.SEM_ASSUMPTIONS + [
        "at most 14 failure points per program; one injected failure per case",
        "rejected texts (noop family): parse error, compile error in a nested form, macro-expansion error, jump outside a loop, "
        "each before/after/around a (re)definition of every definitional form; the twin interpreter that never saw the rejected text is the reference",
        "failpoint family: two re-definitions and one failing form per text, positions 1..3, 8 contexts, 4 failure kinds (quick: kinds "
        "paired with the next three of the catalogue, failure kind and with/without set-up in rotation); the twin evaluates the prefix "
        "in the same context (text fixed by FailPointTrace); cases whose prefix or disarmed text fails in that context are skipped",
        "the numbers of generated names (gensym, anonymous functions, loops) are masked like addresses: a generated name is an identity, "
        "gensym promises freshness, and the counter moves with every symbol a parsed text interns",
    ])


def replay(path):
    zv = vlib.build_zv()
    rec = json.load(open(path))
    for fam, mod in (("noop", "NoopTrace"), ("failpoint", "FailPointTrace")):
        if rec.get("family") == fam:
            rp = os.path.join(vlib.scratch(), "r.ndjson")
            open(rp, "w").write(json.dumps(rec["case"]) + "\n")
            fresh = os.path.join(vlib.scratch(), "fresh.ndjson")
            vlib.run_zv1(zv, fam, ["-replay", rp], out=fresh)
            v, _ = vlib.validate_trace(mod + ".tla", mod + ".cfg", fresh, env={"VERIF_DEVS": _devs()})
            bad = [i for i in v if v[i][0] == "bad"]
            for i in bad:
                print("VIOLATION property=%s replay=%s" % (PROP, path))
            return 1 if bad else 0
    rp = os.path.join(vlib.scratch(), "r.ndjson")
    open(rp, "w").write(json.dumps(rec["case"]) + "\n")
    fresh = os.path.join(vlib.scratch(), "fresh.ndjson")
    vlib.run_zv1(zv, "fault", ["-replay", rp], out=fresh)
    v, _ = vlib.validate_trace("FaultTrace.tla", "FaultTrace.cfg", fresh)
    bad = [i for i in v if v[i][0] == "bad"]
    for i in bad:
        print("VIOLATION property=%s replay=%s" % (PROP, path))
    return 1 if bad else 0
