"""C05 -- errors are contained: a failed evaluation restores the interpreter.

spec: FaultTrace over ZSem (the store after a failure is the store at the moment of failure; the follow-up
      battery is evaluated from that store; nothing of a text with a parse/compile error runs)
bind: seeded programs with (fail) host calls in every context (top level, function, loop, let, newScope,
      map/apply callbacks, lazy forcing, eval) x EVERY k (the k-th host call fails) x {script error, Go panic
      inside the builtin} + parse error / compile error appended or prepended; recorded: error, depths,
      effect trace, and a battery of follow-up evaluations (every name the program binds, every function it
      defines, fresh definitions); validated by TLC.
"""
import collections, json, os
import vlib, flow, semflow

PROP = "C05"


def run():
    out = flow.Outcome(PROP)
    zv = vlib.build_zv()
    trace = os.path.join(vlib.scratch(), "fault.ndjson")
    vlib.run_zv(zv, "fault", [], trace)
    cases, v = flow.validate(out, "fault", "FaultTrace.tla", "FaultTrace.cfg", trace, zv, timeout=3000)
    # a text rejected before it runs is a stuttering step, for every kind of definition (NoopTrace)
    ntrace = os.path.join(vlib.scratch(), "noop.ndjson")
    vlib.run_zv(zv, "noop", [], ntrace)
    ncases, nv = flow.validate(out, "noop", "NoopTrace.tla", "NoopTrace.cfg", ntrace, zv)
    out.extra["rejected_text_cases"] = len(ncases)
    out.extra["rejected_text_by_definition_kind"] = dict(collections.Counter(c["def"] for c in ncases.values()))
    out.extra["rejected_text_by_variant"] = dict(collections.Counter(c["variant"] for c in ncases.values()))
    kinds = collections.Counter((c["kind"], c["out"][0]) for c in cases.values())
    judged = [i for i in cases if v[i][0] in ("ok", "bad")]
    failing = set((c["text"], c["kind"], c["failAt"]) for i, c in cases.items() if c["kind"] != "none" and v[i][0] in ("ok", "bad"))
    if len(judged) < len(cases) // 2:
        raise vlib.Inconclusive("only %d of %d fault cases judged" % (len(judged), len(cases)))
    cov = {
        "evaluations": len(cases),
        "distinct_nontrivial": len(failing),
        "rule": "a case is (program, failure kind, k); non-trivial = a failure was injected (k-th host call fails as script error "
                "or Go panic, or a parse/compile error in the text) and the case was judged; distinct by (text, kind, k)",
        "states": out.states, "transitions": out.transitions,
        "not_judged": len(cases) - len(judged),
        "by_kind_and_outcome": {"%s/%s" % k: n for k, n in sorted(kinds.items())},
        "battery_evaluations": sum(len(c["battery"]) for c in cases.values()),
        "samples": [{"text": c["text"], "kind": c["kind"], "failAt": c["failAt"], "out": c["out"],
                     "battery": list(zip([json.dumps(b)[:60] for b in c["battery"]], c["bout"]))[:6]}
                    for c in list(cases.values())[3:5]],
    }
    return flow.finish(out, "fault_enumeration", cov, semflow.SEM_ASSUMPTIONS + [
        "at most 14 failure points per program; one injected failure per case",
        "rejected texts (noop family): parse error, compile error in a nested form, macro-expansion error, jump outside a loop, "
        "each before/after/around a (re)definition of every definitional form; the twin interpreter that never saw the rejected text is the reference",
    ])


def replay(path):
    zv = vlib.build_zv()
    rec = json.load(open(path))
    if rec.get("family") == "noop":
        rp = os.path.join(vlib.scratch(), "r.ndjson")
        open(rp, "w").write(json.dumps(rec["case"]) + "\n")
        fresh = os.path.join(vlib.scratch(), "fresh.ndjson")
        vlib.run_zv1(zv, "noop", ["-replay", rp], out=fresh)
        v, _ = vlib.validate_trace("NoopTrace.tla", "NoopTrace.cfg", fresh)
        bad = [i for i in v if v[i][0] == "bad"]
        for i in bad:
            print("VIOLATION property=%s replay=%s" % (PROP, path))
        return 1 if bad else 0
    rp = os.path.join(vlib.scratch(), "r.ndjson")
    open(rp, "w").write(json.dumps(rec["case"]) + "\n")
    fresh = os.path.join(vlib.scratch(), "fresh.ndjson")
    vlib.run_zv1(zv, "fault", ["-replay", rp], out=fresh)
    v, _ = vlib.validate_trace("FaultTrace.tla", "FaultTrace.cfg", fresh)
    bad = [i for i in v if v[i][0] == "bad"]
    for i in bad:
        print("VIOLATION property=%s replay=%s" % (PROP, path))
    return 1 if bad else 0
