"""C20 -- evaluation is deterministic.

spec: DetermTrace (N runs of one program are one behaviour; named deviations speak about recorded facts of the
      process history), Process (every iteration order of the walks that answer with their first match --
      registry scans, record fields converted to Go, members of a printed scope -- as nondeterministic choices
      over the LIVE tables; Confluent) and ProcessHist (interpreters of one process declare, use and list type
      names one after the other; HistoryIndependent: a fresh interpreter observes what its program observes alone)
bind: fixed probes (decoded JSON objects, hashes, records, Go values handed back by Go methods for a type
      registered under two names, symbol numbers, packages, declared types and variables, the type list),
      walks with k >= 2 candidates (records with several unacceptable fields, packages with aliased members),
      calls that fail (every global function with values it does not take; values called as functions; printf
      of every kind of value), the surface-language catalogue, the script corpus (pointer scripts included) and
      generated programs.  Every program: 4 (walks 10) runs in fresh interpreters of one process with other
      interpreters in between (generic polluters; a different struct under every struct/defmap name of the
      program; pointer and slice types and variables), 3 (thorough 6) processes that run the programs in
      different orders, and for the probes processes whose first interpreter declared (struct int64 ...),
      overwrote a builtin type through a pointer, or declared a struct named like a Go-registered type; a group
      of programs runs under a host that has not registered the demo Go types, with (registerDemoFunctions)
      among the polluters.  Printed value, error text and captured stdout are validated by TLC.
"""
import collections, json, os, threading
import vlib, flow

PROP = "C20"


def _devs():
    if os.environ.get("VERIF_DEVS") is not None:      # development aid
        return os.environ["VERIF_DEVS"]
    return ",".join(k["id"] for k in vlib.known_findings(PROP))


def run():
    out = flow.Outcome(PROP)
    zv = vlib.build_zv()
    reg = os.path.join(vlib.scratch(), "registry.ndjson")
    vlib.run_zv1(zv, "determ", ["-registry"], out=reg)
    runs = [dict(module="Process.tla", cfg="Process.cfg", env={"VERIF_REGISTRY": reg}),
            dict(module="ProcessHist.tla", cfg="ProcessHist.cfg")]
    if vlib.tier() == "thorough":
        runs.append(dict(module="Process.tla", cfg="ProcessPinned.cfg", env={"VERIF_REGISTRY": reg}, expect="violation"))
        runs.append(dict(module="ProcessHist.tla", cfg="ProcessHistPinned.cfg", expect="violation"))
    # the model-checking runs go on while the harness records (they do not depend on each other)
    mc_err = []

    def mc():
        try:
            flow.mc_runs(out, runs)
        except BaseException as e:          # re-raised in the main thread
            mc_err.append(e)
    th = threading.Thread(target=mc)
    th.start()
    trace = os.path.join(vlib.scratch(), "determ.ndjson")
    try:
        vlib.run_zv(zv, "determ", [], trace, nshard=8, timeout=3000)
    finally:
        th.join()
    if mc_err:
        raise mc_err[0]
    cases, v = flow.validate(out, "determ", "DetermTrace.tla", "DetermTrace.cfg", trace, zv, confirm=False,
                             env={"VERIF_DEVS": _devs()})
    by = collections.Counter(c["src"].split(":")[0] for c in cases.values())
    nruns = sum(len(c["obs"]) for c in cases.values())
    kinds = collections.Counter(r.rstrip("0123456789") for c in cases.values() for r in c["runs"])
    walks = json.loads(open(reg).readline())["walks"]
    cov = {
        "states": out.states, "transitions": out.transitions,
        "traces_validated_against_impl": len(cases),
        "runs": nruns, "runs_by_kind": dict(kinds), "programs_by_source": dict(by),
        "registry_entries": len(walks[0]["entries"]),
        "walks_modelled": {w["name"]: len(w["entries"]) for w in walks},
        "samples": [{"text": c["text"][:300], "obs": c["obs"][:2], "runs": c["runs"]} for c in list(cases.values())[:3]],
        "rule": "every program x (4-10 fresh interpreters of one process with polluting interpreters in between + 3/6 processes "
                "running the programs in different orders + 3 poisoned processes for the probes)",
    }
    return flow.finish(out, "model_checking", cov, [
        "pointer printing is masked where it is explicit only: the (0x..) identities of scope/stack dumps, and every address "
        "in programs that use &, (* T) variables or fields, ptr or %p; stack traces and Go-syntax dumps are compared as they are; "
        "programs using random, time, files, channels or processes are excluded",
        "map-iteration seeds differ per process and per range statement; N runs sample them, they do not enumerate them "
        "(the enumeration is done on the model: Process.tla over the live tables)",
    ])


def replay(path):
    zv = vlib.build_zv()
    rec = json.load(open(path))
    rp = os.path.join(vlib.scratch(), "r.ndjson")
    open(rp, "w").write(json.dumps(rec["case"]) + "\n")
    bad = []
    for attempt in range(4):   # a difference that depends on map order may need several attempts to show again
        fresh = os.path.join(vlib.scratch(), "fresh%d.ndjson" % attempt)
        vlib.run_zv1(zv, "determ", ["-replay", rp], out=fresh)
        v, _ = vlib.validate_trace("DetermTrace.tla", "DetermTrace.cfg", fresh, env={"VERIF_DEVS": _devs()})
        bad = [i for i in v if v[i][0] == "bad"]
        if bad:
            break
    for i in bad:
        print("VIOLATION property=%s replay=%s" % (PROP, path))
    return 1 if bad else 0
