"""C20 -- evaluation is deterministic.

spec: DetermTrace (N runs of one program are one behaviour) and Process (every iteration order of the
      registry scans as nondeterministic choices over the LIVE registry content; Confluent)
bind: fixed probes (decoded JSON objects, hashes, records, Go values handed back by Go methods for a type
      registered under two names, symbol numbers, packages, error texts, printed output), the surface-language
      catalogue, the deterministic part of the script corpus and generated programs: 4 runs in fresh
      interpreters of one process (with other interpreters declaring structs/records/packages in between)
      + 3 (thorough 6) fresh processes; printed value, error text and captured stdout validated by TLC.
"""
import collections, json, os
import vlib, flow

PROP = "C20"


def run():
    out = flow.Outcome(PROP)
    zv = vlib.build_zv()
    reg = os.path.join(vlib.scratch(), "registry.ndjson")
    vlib.run_zv1(zv, "determ", ["-registry"], out=reg)
    runs = [dict(module="Process.tla", cfg="Process.cfg", env={"VERIF_REGISTRY": reg})]
    if vlib.tier() == "thorough":
        runs.append(dict(module="Process.tla", cfg="ProcessPinned.cfg", env={"VERIF_REGISTRY": reg}, expect="violation"))
    flow.mc_runs(out, runs)
    trace = os.path.join(vlib.scratch(), "determ.ndjson")
    vlib.run_zv(zv, "determ", [], trace, nshard=8, timeout=3000)
    cases, v = flow.validate(out, "determ", "DetermTrace.tla", "DetermTrace.cfg", trace, zv, confirm=False)
    by = collections.Counter(c["src"].split(":")[0] for c in cases.values())
    nruns = sum(len(c["obs"]) for c in cases.values())
    cov = {
        "states": out.states, "transitions": out.transitions,
        "traces_validated_against_impl": len(cases),
        "runs": nruns, "programs_by_source": dict(by),
        "registry_entries": len(json.loads(open(reg).readline())["entries"]),
        "samples": [{"text": c["text"][:300], "obs": c["obs"][:2], "runs": c["runs"]} for c in list(cases.values())[:3]],
        "rule": "every program x (4 in-process fresh interpreters with polluting interpreters in between + 3/6 fresh processes)",
    }
    return flow.finish(out, "model_checking", cov, [
        "addresses, goroutine ids and recovered-panic stack traces are masked; programs using random, time, pointers, files, "
        "channels, gensym names or registerDemoFunctions (process-wide by design) are excluded",
        "map-iteration seeds differ per process and per range statement; N runs sample them, they do not enumerate them "
        "(the enumeration is done on the model: Process.tla over the live registry)",
    ])


def replay(path):
    zv = vlib.build_zv()
    rec = json.load(open(path))
    rp = os.path.join(vlib.scratch(), "r.ndjson")
    open(rp, "w").write(json.dumps(rec["case"]) + "\n")
    bad = []
    for attempt in range(4):   # a difference that depends on map order may need several attempts to show again
        fresh = os.path.join(vlib.scratch(), "fresh%d.ndjson" % attempt)
        vlib.run_zv1(zv, "determ", ["-replay", rp], out=fresh)
        v, _ = vlib.validate_trace("DetermTrace.tla", "DetermTrace.cfg", fresh)
        bad = [i for i in v if v[i][0] == "bad"]
        if bad:
            break
    for i in bad:
        print("VIOLATION property=%s replay=%s" % (PROP, path))
    return 1 if bad else 0
