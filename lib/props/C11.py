"""C11 -- JSON and msgpack encodings round-trip and are well-formed.

spec: Codec (abstract data values; Eq11 = equality with numbers by value, type names and field
      order at every level, strings rune for rune; JDen = what a JSON token tree denotes, with the
      reserved members Atype / zKeyOrder; character classes with the escape form the printer emits
      and the forms the JSON grammar accepts), Decimal (exact numbers as digit sequences)
TLC:  MCCodec -- the class table audited class by class (which printed forms are JSON and denote the
      same character), and for every value of depth <= 2 over a scalar palette: the reference
      encoding denotes the value and no variant of it, and the encoder as designed in the code is
      well-formed exactly where no named deviation has a trigger
bind: `zv codec` builds every value through the Go API, records (json v) parsed by encoding/json into
      a token tree, (unjson (json v)) and (unmsgpack (msgpack v)); CodecTrace decides denotation and
      equality for every case; per character class member the emitted escape tokens are checked
      against the JSON grammar table AND against encoding/json's decision on the same bytes
"""
import json, os
import vlib, flow

PROP = "C11"
FAMILY = "codec"
TRACE_SPEC = ("CodecTrace.tla", "CodecTrace.cfg")


def set_devs():
    ids = [k["id"] for k in vlib.known_findings(PROP)]
    ids += [x for x in os.environ.get("VERIF_DEVS", "").split(",") if x and x not in ids]
    os.environ["VERIF_DEVS"] = ",".join(ids)
    return ids


def nontrivial(v):
    """nested, or a string with a character outside printable ASCII / needing an escape, or a number beyond 2^31."""
    t = v[0]
    if t in ("arr", "list", "hash"):
        return True
    if t == "str":
        return any(c < 32 or c > 126 or c in (34, 92) for c in v[1])
    if t == "int":
        return len(v[2]) > 9
    if t == "uint":
        return len(v[1]) > 9
    if t == "flt":
        return True
    return False


def run():
    out = flow.Outcome(PROP)
    set_devs()
    zv = vlib.build_zv()
    thorough = vlib.tier() == "thorough"
    flow.mc_runs(out, [dict(module="MCCodec.tla", cfg="MCCodec.cfg" if thorough else "MCCodecQuick.cfg", timeout=1200)])
    # the thorough run is recorded and validated in parts (one TLC run holds one part in memory)
    nparts = 6 if thorough else 1
    cases, v = {}, {}
    for part in range(nparts):
        trace = os.path.join(vlib.scratch(), "codec%d.ndjson" % part)
        vlib.run_zv(zv, FAMILY, ["-part", str(part), "-nparts", str(nparts)], trace)
        cs, vs = flow.validate(out, FAMILY, TRACE_SPEC[0], TRACE_SPEC[1], trace, zv, timeout=2400)
        cases.update(cs)
        v.update(vs)
        os.unlink(trace)
    diff = [i for i in cases if v[i][0] == "specdiff"]
    if diff:
        raise vlib.Inconclusive("the JSON grammar table of Codec.tla disagrees with encoding/json on %d class members (e.g. %s): "
                                "the specification is wrong, not the code" % (len(diff), diff[:3]))
    rt = [c for c in cases.values() if c["kind"] == "rt"]
    judged = [c for c in rt if "unjudged" not in v[c["id"]][1]]
    distinct = set(json.dumps(c["v"]) for c in judged if nontrivial(c["v"]))
    drift = sorted(set(v[i][1].strip('"') for i in cases if "drift" in v[i][1]))
    labs = {}
    for c in rt:
        labs[c["lab"].split(" in ")[0]] = labs.get(c["lab"].split(" in ")[0], 0) + 1
    cov = {
        "evaluations": len(cases),
        "distinct_nontrivial": len(distinct),
        "rule": "distinct abstract original values among the judged round-trip cases that are nested, or a string with a "
                "character outside printable ASCII or needing an escape, or a float, or an integer beyond 9 digits; "
                "space = every character class member (boundary + seeded random) alone; every scalar member (int/float boundary "
                "grid, strings of <= 3 character classes over the full Unicode range) in 18 contexts of depth <= 3 "
                "(quick: top + rotating 1/4); every value of depth <= 2 with <= 2 children over a 6-scalar palette x "
                "{array, hash, record} (quick: 1/12 sample of the two-child depth-2 values); hashes with string keys "
                "(well-formedness half only); seeded random values of depth <= 3 with <= 3 children; reserved / dotted key names, "
                "record type names over the character classes, records with declared field types",
        "round_trip_cases": len(rt),
        "class_member_cases": len(cases) - len(rt),
        "unjudged_invalid_utf8": len(rt) - len(judged),
        "scalar_classes": len(labs),
        "states": out.states, "transitions": out.transitions,
        "traces_validated_against_impl": out.traces,
        "samples": [{k: c[k] for k in ("id", "lab", "jtext", "v", "uj") if k in c} for c in judged[:1] + judged[len(judged) // 2:len(judged) // 2 + 2]],
        "exhaustive": False,
    }
    if drift:
        cov["conformance_drift"] = drift
    return flow.finish(out, "exploration", cov, [
        "strings that are not valid UTF-8 are recorded but not judged (outside the full Unicode range the property quantifies over); "
        "+-Inf and NaN are floats of the language and are judged (no JSON number denotes them, so the JSON half can only fail)",
        "keys named like the reserved members Atype / zKeyOrder, dotted symbol keys, record type names with every kind of character and "
        "records of a type with declared field types (int64, uint64, float64, string, bool) are generated; a symbol key and a string key "
        "of the same name in one hash are not (such a hash is neither under symbol keys nor obtained from a JSON-style literal)",
        "only the encoders that have a decoder are judged: (json x)/(msgpack x) = SexpToJson/SexpToMsgpack; the display function (json2 x) "
        "and compositions of SexpToGo with the Go-value codec are not routes of the statement",
        "well-formedness of the JSON text is delegated to Go's encoding/json (plus utf8.Valid); what the text denotes is decided by Codec!JDen",
        "float64 -> exact decimal expansion and the float64 a JSON number text rounds to are computed with math/big / strconv in the harness (trusted)",
        "msgpack bytes are judged only through the library's own decoder (unmsgpack); uint64 values are counted as integers",
        "TLC 1.8.0; verdicts come only from recorded executions, the MCCodec run is a design audit of the specification",
    ])


def replay(path):
    set_devs()
    zv = vlib.build_zv()
    rec = json.load(open(path))
    rp = os.path.join(vlib.scratch(), "r.ndjson")
    with open(rp, "w") as f:
        f.write(json.dumps(rec["case"]) + "\n")
    fresh = os.path.join(vlib.scratch(), "fresh.ndjson")
    vlib.run_zv1(zv, FAMILY, ["-replay", rp], out=fresh)
    v, _ = vlib.validate_trace(TRACE_SPEC[0], TRACE_SPEC[1], fresh)
    bad = [i for i in v if v[i][0] == "bad"]
    for i in bad:
        print("VIOLATION property=%s replay=%s" % (PROP, path))
    return 1 if bad else 0
