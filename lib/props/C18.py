"""C18 -- package members are private unless capitalised.

spec: Packages (PART 1: Visible(tree, path) -- the statement, also for a dot path that outside code
      hands to code of the package as a value (ApplyRel) and for the dot paths of the package's own
      code (ApplyIn); PART 2: the walkers of stack.go / hashutils.go / functions.go with switches for
      their hand-off defects, and the dereference of a relative dot path where the receiving code runs)
TLC:  MCPackages enumerates every (tree, path, route, alias kind, alias prefix) up to the bounds
      as one transition each and checks that the walkers without the defects refine the
      statement (result and tree afterwards), that the recursive walk agrees with the
      declarative reading of the statement, that the verdict never depends on alias or route,
      that no outside access changes a member behind a private hop, and that the dot paths of the
      code of a package reach all its own members; with a defect switch set the refinement must be
      refuted (self-test, thorough tier)
bind: the harness builds package trees on the real interpreter (def / := / import / source),
      reads, calls and assigns members from outside through 9 read routes, 5 write routes and
      8 alias kinds, and from inside through accessor functions defined in the package bodies
      (every write is read back from inside), also where those accessors use dot paths themselves
      (.m, m.key as operand of a builtin, as argument of a function, as target of set / = / infix =,
      with and without globals of the same names); assigns dot paths as one of several targets; hands
      dot paths written outside to functions of the packages as arguments (call, alias, apply, map) and
      as data (callback results, array / list / hash elements); TLC validates every recorded value /
      error and the tree after every step against Packages!Apply (PackagesTrace)
"""
import os
import vlib, flow

PROP = "C18"

UPPER = set(range(65, 91)) | {196, 201, 916}
LOWER = set(range(97, 123)) | {228, 233, 948}


def _cls(name):
    r = name[0]
    return "U" if r in UPPER else "l" if r in LOWER else "n"


def _devs():
    if os.environ.get("VERIF_DEVS") is not None:      # development aid
        return os.environ["VERIF_DEVS"]
    return ",".join(k["id"] for k in vlib.known_findings(PROP))


def _shape(tree, path):
    """(container kind, node kind, name class) of every hop of path in the initial tree."""
    out = []
    cur = tree
    for nm in path:
        if cur is None or cur[0] not in ("hash", "pkg"):
            out.append(("?", "?", _cls(nm)))
            cur = None
            continue
        nxt = None
        for e in cur[1]:
            if e[0] == nm:
                nxt = e[1]
        out.append((cur[0], nxt[0] if nxt else "?", _cls(nm)))
        cur = nxt
    return tuple(out)


def _coverage(cases):
    evs = 0
    combos = set()
    tally = {"outside_reads": 0, "outside_writes": 0, "inside_calls": 0, "denied_private": 0,
             "denied_other_error": 0, "allowed": 0, "lowercase_key_of_visible_hash_reached": 0,
             "nonletter_member_reached": 0, "inside_dot_path_uses": 0, "dot_paths_handed_in_as_argument": 0,
             "dot_paths_handed_in_as_data": 0, "handed_in_denied": 0, "handed_in_value": 0}
    writes = ("infix", "prefix", "set", "infixdef", "hset", "multi1", "multi2")
    argroutes = ("arg", "apply", "map")
    for c in cases.values():
        for e in c["evs"]:
            evs += 1
            if e["op"] == "in":
                tally["inside_calls"] += 1
                if e.get("form"):
                    tally["inside_dot_path_uses"] += 1
                combos.add(("in", e["mode"], e["style"], e.get("form", ""), bool(c.get("decoy")), len(e["pp"]), e["res"][0]))
                continue
            if e["op"] == "rel":
                tally["dot_paths_handed_in_as_argument" if e["rt"] in argroutes else "dot_paths_handed_in_as_data"] += 1
                tally["handed_in_value" if e["res"][0] == "val" else "handed_in_denied"] += 1
                sh = _shape(c["tree"], e["p"])[e["c"]:]
                combos.add(("rel", e["rt"], e["fs"], len(e["fp"]) - e["c"], sh, e["res"][0]))
                continue
            sh = _shape(c["tree"], e["p"])
            res = e["res"]
            oc = res[0] if res[0] != "err" else "err-" + res[1]
            combos.add((e["al"][0], e["al"][1] > 0, e["rt"], sh, oc))
            tally["outside_writes" if e["rt"] in writes else "outside_reads"] += 1
            if res[0] == "val":
                tally["allowed"] += 1
                # informational (not judged, KeyRule = "any"): keys / non-letter names that the code lets through
                if any(ck == "hash" and cl != "U" and i > 0 and any(s[0] == "pkg" for s in sh[:i]) for i, (ck, nk, cl) in enumerate(sh)):
                    tally["lowercase_key_of_visible_hash_reached"] += 1
                if any(ck == "pkg" and nk != "pkg" and cl == "n" for (ck, nk, cl) in sh):
                    tally["nonletter_member_reached"] += 1
            elif res[0] == "err" and res[1] == "private":
                tally["denied_private"] += 1
            else:
                tally["denied_other_error"] += 1
    return evs, len(combos), tally


def run():
    out = flow.Outcome(PROP)
    zv = vlib.build_zv()
    thorough = vlib.tier() == "thorough"
    if thorough:
        runs = [dict(module="MCPackages.tla", cfg="MCPackagesDeep.cfg", timeout=2400),
                dict(module="MCPackages.tla", cfg="MCPackagesSteps.cfg"),
                dict(module="MCPackages.tla", cfg="MCPackagesD1.cfg", expect="violation"),
                dict(module="MCPackages.tla", cfg="MCPackagesD2.cfg", expect="violation"),
                dict(module="MCPackages.tla", cfg="MCPackagesD3.cfg", expect="violation")]
    else:
        runs = [dict(module="MCPackages.tla", cfg="MCPackagesQuick.cfg")]
    flow.mc_runs(out, runs)
    trace = os.path.join(vlib.scratch(), "packages.ndjson")
    # 8 processes: building the full tree is one evaluation of ~2 s CPU under the harness's 40 s wall-clock
    # limit; with 16 processes on a loaded machine that limit is hit (exit 2)
    vlib.run_zv(zv, "packages", [], trace, nshard=8)
    env = {"VERIF_DEVS": _devs()}
    cases, v = flow.validate(out, "packages", "PackagesTrace.tla", "PackagesTrace.cfg", trace, zv, env=env, timeout=2400)
    evs, combos, tally = _coverage(cases)
    out.samples = []
    for c in list(cases.values())[:2]:
        out.samples.append({"id": c["id"], "mk": c["mk"],
                            "events": [{k: e[k] for k in e if k != "texts"} for e in c["evs"][:6]]})
    cov = {
        "evaluations": evs,
        "distinct_nontrivial": combos,
        "rule": "evaluations = recorded accesses (outside reads/writes through a route and an alias, inside accessor calls) each "
                "validated by TLC against Packages!Apply; distinct_nontrivial = distinct (alias kind, alias bound to a nested "
                "package?, route, per-hop (container kind, member kind, name class) of the path, outcome class) tuples among them. "
                "Space: the full tree (13 packages nested to depth 3, every member kind value/function/hash/package under an "
                "upper-case, lower-case and non-letter name, hashes nested 3 deep with keys of every class and function values): "
                "every path x every route through the package's own name, and through each of 7 other alias kinds "
                "(thorough: every route x every alias prefix; quick: a rotation of 3 read and 2 write routes per path); "
                "two trees with packages inside hashes inside packages and with names shared by members and keys: everything; "
                "seeded random trees (non-ASCII names, random shapes); construction by def, :=, import and source. "
                "On the same trees: every path as either target of an assignment to two targets (alias kinds in rotation); "
                "every package's own code using every member through a dot path (.m, m.key; operand of a builtin / argument "
                "of a function / set, prefix and infix assignment in rotation; with and without globals of the same names); "
                "every package as the owner of a dot path of up to 3 names written outside and handed to a function of that "
                "package or of a package nested in it, as an argument (call through a dot path, an alias, a function value, the "
                "registry; apply; map) and as data (value returned by a callback and bound by let / def / used as operand / "
                "passed on; element of an array, a list, a hash), routes in rotation (thorough: all)",
        "cases": len(cases),
        "outcome_tally": tally,
        "tlc_states": out.states, "tlc_transitions": out.transitions,
        "traces_validated_against_impl": out.traces,
        "exhaustive": True,
    }
    return flow.finish(out, "exploration", cov, [
        "KeyRule = \"any\": a non-capitalised KEY of a hash that is itself a visible member is not judged (the statement names "
        "value, function and hash MEMBERS of a package); the tally lowercase_key_of_visible_hash_reached counts how often the code lets one through",
        "a first rune that is not a letter (_x) is not judged (the statement speaks of lower-case letters and capitalised names); "
        "reading or overwriting a nested package value itself under a non-capitalised name is not judged (the statement only says it may be traversed)",
        "a dot path written OUTSIDE and passed to a global user function (route uarg) is combined only with global aliases: with a "
        "let-bound or parameter alias the callee resolves it in its own scope ('symbol not found'), which is argument evaluation / "
        "scoping, not visibility",
        "a relative dot path written outside (.m, m.key) and handed to code of a package is judged only where it names a lower-case "
        "value / function / hash member (must fail); where it names something capitalised the statement does not say that a path "
        "written outside the package has to reach into it (an error and the member's value are both admitted)",
        "an assignment to several targets that names a private member may report success as long as the member keeps its value",
        "the upper/lower-case classification covers ASCII letters and the non-ASCII letters the generator uses (A-umlaut, E-acute, Delta and their lower-case forms)",
        "TLC 1.8.0; PART 2 of Packages.tla mirrors stack.go/hashutils.go/functions.go by hand (its refinement check is a design audit; "
        "verdicts come only from the recorded executions)",
    ])


def replay(path):
    import json
    zv = vlib.build_zv()
    rec = json.load(open(path))
    rp = os.path.join(vlib.scratch(), "r.ndjson")
    with open(rp, "w") as f:
        f.write(json.dumps(rec["case"]) + "\n")
    fresh = os.path.join(vlib.scratch(), "fresh.ndjson")
    vlib.run_zv1(zv, "packages", ["-replay", rp], out=fresh)
    v, _ = vlib.validate_trace("PackagesTrace.tla", "PackagesTrace.cfg", fresh, env={"VERIF_DEVS": _devs()})
    bad = [i for i in v if v[i][0] == "bad"]
    for i in bad:
        print("VIOLATION property=%s replay=%s" % (PROP, path))
    return 1 if bad else 0
