"""C06 -- infix blocks mean what the precedence table says.

spec: Pratt.tla -- (A) a declarative definition of the translation of a token list from the
      documented table only (cut into statements, root = weakest operator, ValidTree) and
      (B) the top-down operator-precedence algorithm as written in zygo/pratt.go with the
      binding powers of InitInfixOps.
TLC:  MCPratt generates every token list of the grammar up to a bound (every operator of the
      table, statements separated by ; or juxtaposition) and checks that (A) and (B) agree, that
      the result satisfies ValidTree and (short lists) that ValidTree has exactly one solution
      among all trees; with the deviations of the pinned code TLC must refute the agreement.
      MCPrattForms does the same on a family of if/else chains (arms with and without braces,
      break/continue among them) and go-style for statements.
bind: the harness renders token lists to text (tight / spaced / loose / mixed spacing), runs
      (infixExpand {..}), {..} and the predicted prefix program on the real interpreter and
      PrattTrace decides every recorded block with definition (A): tokens delivered by the
      reader, translated tree (nested blocks included), value, (tr x) effects and final state.
"""
import json, os, threading
import vlib, flow

PROP = "C06"
FAMILY = "pratt"
DEVS = ["dotpath-stmt-swallowed", "not-stmt-swallowed", "slice-colon-lost-after-dotpath", "ctl-label-any-symbol"]


def _devs_env():
    ids = [k["id"] for k in vlib.known_findings(PROP)]
    extra = [d for d in os.environ.get("VERIF_DEVS", "").split(",") if d in DEVS]   # development aid
    ids = sorted(set(ids) | set(extra))
    return {"VERIF_DEVS": ",".join(ids) if ids else "none"}


def _harness(zv, path, chunk, nchunk, box):
    try:
        box["n"] = vlib.run_zv(zv, FAMILY, ["-chunk", str(chunk), "-nchunk", str(nchunk)], path)
    except BaseException as e:      # re-raised by the caller
        box["err"] = e


def run():
    out = flow.Outcome(PROP)
    zv = vlib.build_zv()
    thorough = vlib.tier() == "thorough"
    env = _devs_env()
    # design audit of the specification; runs beside the harness and the trace validation
    # (both have long single-threaded phases) and is joined before the verdict
    if thorough:
        runs = [dict(module="MCPratt.tla", cfg="MCPratt.cfg", timeout=1700),
                dict(module="MCPratt.tla", cfg="MCPrattStmts.cfg", timeout=1700)]
    else:
        runs = [dict(module="MCPratt.tla", cfg="MCPrattQuick.cfg"),
                dict(module="MCPratt.tla", cfg="MCPrattStmtsQuick.cfg")]
    runs.append(dict(module="MCPrattForms.tla", cfg="MCPrattForms.cfg"))
    runs.append(dict(module="MCPratt.tla", cfg="MCPrattPinned.cfg", expect="violation"))
    vlib.specdir()
    audit = flow.Outcome(PROP)
    abox = {}

    def _audit():
        try:
            flow.mc_runs(audit, runs)
        except BaseException as e:
            abox["err"] = e
    at = threading.Thread(target=_audit)
    at.start()
    # recorded executions, in chunks: the harness produces chunk k+1 while TLC validates chunk k
    nchunk = 12 if thorough else 1
    stats = {"cases": 0, "fam": {}, "mode": {}, "texts": set(), "ops": set(), "maxtok": 0, "err_both": 0, "cmp": 0}
    samples = []
    paths = [os.path.join(vlib.scratch(), "pratt-%d.ndjson" % k) for k in range(nchunk)]
    box = {}
    t = threading.Thread(target=_harness, args=(zv, paths[0], 0, nchunk, box))
    t.start()
    for k in range(nchunk):
        t.join()
        if "err" in box:
            at.join()
            raise box["err"]
        nxt = None
        if k + 1 < nchunk:
            box = {}
            nxt = threading.Thread(target=_harness, args=(zv, paths[k + 1], k + 1, nchunk, box))
            nxt.start()
        try:
            cases, v = flow.validate(out, FAMILY, "PrattTrace.tla", "PrattTrace.cfg", paths[k], zv, env=env,
                                     timeout=1700)
        except BaseException:
            if nxt is not None:
                nxt.join()
            at.join()
            raise
        for c in cases.values():
            stats["cases"] += 1
            stats["fam"][c["fam"]] = stats["fam"].get(c["fam"], 0) + 1
            stats["mode"][c["mode"]] = stats["mode"].get(c["mode"], 0) + 1
            stats["texts"].add(c["text"])
            stats["maxtok"] = max(stats["maxtok"], len(c["toks"]))
            if c["val"] == ["err"]:
                stats["err_both"] += 1
            # comparisons carried out on this case: the stage the verdict was reached at
            vd = v[c["id"]]
            stage = vd[1].strip().strip('"')
            stats["cmp"] += {"domain": 0, "lex": 1, "tree": 2, "ptree": 3, "val": 4, "eff": 5, "state": 6, "all": 6}.get(stage, 0)
            for tk in c["toks"]:
                if tk[0] == "op":
                    stats["ops"].add(tk[1])
        if not samples:
            pool = [c for c in cases.values() if len(c["toks"]) >= 7 and c["val"][0] == "val"]
            want = ["x", "s", "f"]
            for fam in want:
                for c in pool:
                    if c["fam"] == fam:
                        samples.append({"id": c["id"], "text": c["text"], "tokens": c["toks"], "tree": c["tree"],
                                        "prefix": c["ptext"], "value": c["val"], "effects": c["eff"],
                                        "state_change": c["st"], "verdict": v[c["id"]][0]})
                        break
            if not samples:
                c = list(cases.values())[0]
                samples.append({"id": c["id"], "text": c["text"], "tree": c["tree"], "prefix": c["ptext"],
                                "verdict": v[c["id"]][0]})
        try:
            os.unlink(paths[k])
        except OSError:
            pass
        if nxt is not None:
            t = nxt
    at.join()
    if "err" in abox:
        raise abox["err"]
    out.mc_runs = audit.mc_runs
    out.states += audit.states
    out.transitions += audit.transitions
    cov = {
        "programs": stats["cases"],
        "distinct_program_texts": len(stats["texts"]),
        "disagreements_checked": stats["cmp"],
        "comparisons_per_program": ["tokens delivered by the reader vs intended tokens",
                                    "tree of (infixExpand {..}) incl. nested blocks vs Expected(tokens)",
                                    "reader's view of the evaluated prefix program vs ExpectedFull(tokens)",
                                    "value", "trace of (tr x) calls", "final values of 13 global variables"],
        "states": out.states, "transitions": out.transitions,
        "traces_validated_against_impl": out.traces,
        "cases_per_family": stats["fam"], "cases_per_spacing": stats["mode"],
        "operators_covered": sorted(stats["ops"]), "longest_token_list": stats["maxtok"],
        "cases_where_both_forms_raise_an_error": stats["err_both"],
        "cases_evaluated_to_a_value": stats["cases"] - stats["err_both"],
        "samples": samples,
        "exhaustive": True,
        "rule": "x: every operator sequence with <= %d operators in total (all 19 binary operators, not, [..], .x, ++/--), "
                "operands rotated through 36 operand forms (every literal kind: int in 4 spellings, float, bool, string, "
                "nil, char, uint64), tight and spaced; n: indexing/slicing/field access/calls/nested blocks on both sides "
                "of every operator; s: every ordered pair of 25 statement forms (4 of them start with a nil/char/uint64/hex "
                "literal) x 3 separators x 2 spacings; i: if/else chains, arms with and without braces; f: go-style for "
                "headers, break/continue with and without braces followed by else or by the next statement; l: slices whose "
                "lower bound is a literal of every spelling directly before the colon, Inf after + and -; t/r: seeded "
                "random typed programs and untyped operator sequences (4..12 operators)" % (4 if thorough else 3),
    }
    return flow.finish(out, "translation_validation", cov, [
        "the translator is observed through (infixExpand {..}) and zygo.InfixExpandArray (nested blocks); "
        "tokens through (quote {..}); a label's and a slice bound's colon flag is not observable there and is "
        "checked through the tree only",
        "go-style `for .. range` headers (gensym lowering), prefix `*`/`-`, `[`-literals at statement start "
        "(`x [..]` is indexing whatever the white space), ++/-- inside expressions, asymmetric spacing around + and - "
        "and texts whose adjacent tokens spell another token of the reader (`a<-2`, `a--2`) are outside the generated domain",
        "the body of a go-style for is the first block after `for` (as in Go): a nested block as an operand of the "
        "header is outside the domain; an if/else arm without braces is one expression or one break/continue "
        "(tests/if.zy); the symbol after break/continue is its label only when no operator or postfix extends it",
        "comments inside blocks are not generated; Inf is generated only as the right operand of + and - "
        "(in a prefix list the reader glues a head + or - to a directly following Inf)",
        "and/or are taken as one right-associative level (doc comment of Zlisp.Infixr); the property text "
        "names right associativity only for assignment and **",
        "errors are compared as errors only; blocks under the comma operator carry no nested blocks "
        "(comma keeps its operands as unevaluated data)",
        "TLC 1.8.0; definition (B) is a hand transcription of pratt.go (design audit); verdicts come from "
        "the recorded executions judged by definition (A)",
    ])


def replay(path):
    out = flow.Outcome(PROP)
    zv = vlib.build_zv()
    rec = json.load(open(path))
    rp = os.path.join(vlib.scratch(), "r.ndjson")
    with open(rp, "w") as f:
        f.write(json.dumps(rec["case"]) + "\n")
    fresh = os.path.join(vlib.scratch(), "fresh.ndjson")
    vlib.run_zv1(zv, FAMILY, ["-replay", rp], out=fresh)
    v, _ = vlib.validate_trace("PrattTrace.tla", "PrattTrace.cfg", fresh, env=_devs_env())
    bad = [i for i in v if v[i][0] == "bad"]
    for i in bad:
        print("VIOLATION property=%s replay=%s" % (PROP, path))
    return 1 if bad else 0
