"""C17 -- declared struct types are enforced on every write.

spec: Records (typed-record state machine: registry name -> versions -> field -> type; instances
      [type, version, fields]; pointers kept in variables [instance, version current when taken];
      Outcomes(state, op) = the results and next states the property allows)
TLC:  all histories up to a bound of declare / redeclare / construct / decode / encode-and-decode /
      write (direct, non-symbol key, through a struct field, through a pointer field, through a
      pointer variable) / element assignment / take a pointer / whole-instance assignment (fresh
      pointer, pointer field, pointer variable) keep WellTyped, RejectedUnchanged, KeepsDefinition
      (an instance never changes its definition); with the named deviations switched on the same
      machine must violate WellTyped (self-test)
bind: the harness replays exhaustive matrices (route x field type x value kind x declared/undeclared
      field), construction/decoding matrices, a field-name matrix (names on both sides, in byte
      order, of the members "Atype" and "zKeyOrder" the encoders add; round trips through both
      encodings followed by writes), redeclaration histories with pointers taken before and after
      the redeclaration, all short histories over an operation alphabet and seeded random long
      histories on the real interpreter; after every step it records ok/err/panic and type name,
      keys + value types of every live instance; TLC validates every case against Records!Outcomes
      (RecordsTrace)
"""
import json, os
import vlib, flow

PROP = "C17"
CHUNK = 15000  # cases per TLC run


def _devs():
    if os.environ.get("VERIF_DEVS") is not None:
        return os.environ["VERIF_DEVS"]  # development aid
    return ",".join(k["id"] for k in vlib.known_findings(PROP))


def _chunks(trace):
    paths, n, f = [], 0, None
    with open(trace) as src:
        for line in src:
            if not line.strip():
                continue
            if f is None or n >= CHUNK:
                if f:
                    f.close()
                paths.append("%s.c%d" % (trace, len(paths)))
                f = open(paths[-1], "w")
                n = 0
            f.write(line)
            n += 1
    if f:
        f.close()
    return paths


def _val(v):
    return ":".join(str(x) for x in v) if isinstance(v, list) else str(v)


def run():
    out = flow.Outcome(PROP)
    zv = vlib.build_zv()
    thorough = vlib.tier() == "thorough"
    runs = [dict(module="MCRecords.tla", cfg="MCRecordsQuick.cfg")]          # reduced palette, histories <= 4 steps
    if thorough:
        runs = [dict(module="MCRecords.tla", cfg="MCRecords.cfg", timeout=2400),   # full palette, <= 4 steps
                dict(module="MCRecords.tla", cfg="MCRecords5.cfg", timeout=2400)]  # reduced palette, <= 5 steps
    # self-test: with the code's known deviations enabled the machine must break WellTyped
    runs.append(dict(module="MCRecords.tla", cfg="MCRecordsDevs.cfg", expect="violation"))
    flow.mc_runs(out, runs)
    trace = os.path.join(vlib.scratch(), "records.ndjson")
    vlib.run_zv(zv, "records", [], trace)
    env = {"VERIF_DEVS": _devs()}
    cases = {}
    for ch in _chunks(trace):
        cs, _ = flow.validate(out, "records", "RecordsTrace.tla", "RecordsTrace.cfg", ch, zv, env=env, timeout=2400)
        cases.update(cs)
        os.unlink(ch)
    events = 0
    fam = {}
    situations = set()
    routes = set()
    for cid, c in cases.items():
        events += len(c["evs"])
        fam[cid[0]] = fam.get(cid[0], 0) + 1
        for e in c["evs"]:
            if e["op"] == "write":
                routes.add(e["route"])
                situations.add((e["route"], _val(e["v"][:1] + [x for x in e["v"][1:] if isinstance(x, str)]), e["key"][0], e["res"]))
            elif e["op"] in ("construct", "decode"):
                r = e.get("route") or (e["codec"] + ("+ko" if e["ko"] else ""))
                routes.add(r)
                for a in e["args"]:
                    situations.add((r, _val(a[1][:1] + [x for x in a[1][1:] if isinstance(x, str)]), a[0], e["res"]))
            elif e["op"] == "derefset":
                routes.add("derefset-" + e["route"])
            elif e["op"] == "roundtrip":
                routes.add("roundtrip-" + e["codec"])
                situations.add(("roundtrip-" + e["codec"], e["res"]))
            elif e["op"] == "takeptr":
                routes.add("takeptr")
            elif e["op"] == "elem":
                routes.add(e["route"])
                situations.add((e["route"], _val(e["v"]), e["field"] + "[%d]" % e["idx"], e["res"]))
    texted = [c for c in cases.values() if c["evs"] and "text" in c["evs"][0]]
    samples = [[e["text"].strip() + " => " + e["res"] + " " + json.dumps(e["obs"]) for e in c["evs"][:14]] for c in texted[:2]]
    cov = {
        "states": out.states, "transitions": out.transitions,
        "traces_validated_against_impl": out.traces,
        "events_validated": events,
        "cases_by_family": fam,
        "write_and_construction_routes": sorted(routes),
        "distinct_route_value_key_result_situations": len(situations),
        "samples": samples or out.samples[:2],
        "exhaustive": True,
        "rule": "m: every write route (13 direct, 10 through a struct/pointer field) x 8 field types x 21 value kinds x "
                "declared/undeclared field, forwards and backwards; k: 8 construction/decoding routes x 8 field types x 6 "
                "argument shapes x value kinds; n: 8 field names (before Atype, between Atype and zKeyOrder, after zKeyOrder, "
                "non-ASCII) x 4 field types x 8 construction/decoding routes: valid, wrong-typed and undeclared members "
                "(7 undeclared names, digit-leading and ~ in documents), round trips through json and msgpack, each followed "
                "by writes; r: 9x9 pairs of definitions of one struct x routes (instances of both "
                "versions written, constructed, encoded and decoded, assigned as a whole through pointers taken before and "
                "after the redeclaration); v: the struct named by a field type redeclared; "
                "e: 4 element-assignment routes x 3 slice types x element kinds x index on filled/unset/empty/non-slice fields; "
                "h: every history of length <= L over a 46-operation alphabet after a 5-step prelude (longer ones sampled); "
                "z: seeded random histories of 40 steps",
    }
    return flow.finish(out, "model_checking", cov, [
        "value kinds, field types and routes as listed in harness/cmd/zv/fam_records.go; a value's type is read off the Go value "
        "(a slice's element type off all its elements; [nil ...] is a slice the language cannot type)",
        "struct or pointer values whose struct was redeclared between the declaration of the field, the creation of the value "
        "and the write: both acceptance and rejection are allowed (the statement does not say whether versions are one type)",
        "whole-instance assignment (derefSet) into an instance made under another definition of the struct than the payload "
        "must be refused (the instance keeps its definition); two versions with equal definitions: both outcomes allowed; "
        "the payload is always a fresh instance of the current version",
        "round trips: the encodings have no form for a pointer (an instance holding one must fail to round-trip); nested "
        "instances of an older version or holding more than plain values: both outcomes allowed",
        "one interpreter per harness process (a second interpreter in the same process cannot declare structs at all); "
        "cases are separated by unique struct and variable names",
        "records containing themselves by value cannot arise from the generated inputs, whatever the library accepts "
        "(the library's printer does not terminate on them and would kill the harness process)",
        "slices written by the harness have two elements of one base type; element assignment is tried with base-typed values only",
        "TLC 1.8.0; verdicts come only from recorded executions of the real code",
    ])


def replay(path):
    out = flow.Outcome(PROP)
    zv = vlib.build_zv()
    rec = json.load(open(path))
    rp = os.path.join(vlib.scratch(), "r.ndjson")
    with open(rp, "w") as f:
        f.write(json.dumps(rec["case"]) + "\n")
    fresh = os.path.join(vlib.scratch(), "fresh.ndjson")
    vlib.run_zv1(zv, "records", ["-replay", rp], out=fresh)
    v, _ = vlib.validate_trace("RecordsTrace.tla", "RecordsTrace.cfg", fresh, env={"VERIF_DEVS": _devs()})
    bad = [i for i in v if v[i][0] == "bad"]
    for i in bad:
        print("VIOLATION property=%s replay=%s" % (PROP, path))
    return 1 if bad else 0
