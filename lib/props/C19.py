"""C19 -- symbols are interned consistently across interpreters sharing a table.

spec: Symtab (shared symtable, per-member counters; MakeSymbol/GenSymbol/Duplicate/Clone as written)
TLC:  all interleavings of intern/gensym/dup over <=3 members and a name pool that contains
      generated-shaped names, to the number bound: Injective, FreshGensym;
      the pinned-commit GenSymbol variant must be refuted (self-test, thorough tier)
bind: histories on a REAL family (Go API + script level str2sym/gensym/==) validated by TLC
      against the property-level monitor SymtabTrace (bijection name<->number, freshness)
"""
import json, os
import vlib, flow

PROP = "C19"


def _devs():
    if os.environ.get("VERIF_DEVS") is not None:
        return os.environ["VERIF_DEVS"]  # development aid
    return ",".join(k["id"] for k in vlib.known_findings(PROP))


def run():
    out = flow.Outcome(PROP)
    zv = vlib.build_zv()
    thorough = vlib.tier() == "thorough"
    runs = [dict(module="Symtab.tla", cfg="MCSymtabThorough.cfg" if thorough else "MCSymtab.cfg", timeout=2400)]
    if thorough:
        runs.append(dict(module="Symtab.tla", cfg="MCSymtabPinned.cfg", expect="violation"))
    flow.mc_runs(out, runs)
    trace = os.path.join(vlib.scratch(), "sym.ndjson")
    vlib.run_zv(zv, "symtab", [], trace)
    cases, v = flow.validate(out, "symtab", "SymtabTrace.tla", "SymtabTrace.cfg", trace, zv, env={"VERIF_DEVS": _devs()})
    cases.pop("base", None)
    shapes = set(json.dumps(c["ops"], sort_keys=True) for c in cases.values())
    cov = {
        "states": out.states, "transitions": out.transitions,
        "traces_validated_against_impl": len(cases),
        "events_validated": sum(len(c["evs"]) for c in cases.values()),
        "distinct_histories": len(shapes),
        "samples": [[{k: e[k] for k in e if k != "table"} for e in c["evs"]] for c in list(cases.values())[:2]],
        "exhaustive": True,
        "rule": "every sequence (length <= L) of intern(plain | generated-shaped name at counter+0/+1) / str2sym / GenSymbol / "
                "(gensym) / Duplicate / Clone over a family of <= 3 members; seeded random histories of length 40 over <= 5 members",
    }
    return flow.finish(out, "model_checking", cov, [
        "only the relation name<->number is judged, never the numbers themselves",
        "the root interpreter is created with a 5-function table so that the pre-existing names fit in the trace",
        "TLC 1.8.0; Symtab.tla mirrors environment.go by hand (design audit); verdicts come from recorded executions",
    ])


def replay(path):
    out = flow.Outcome(PROP)
    zv = vlib.build_zv()
    rec = json.load(open(path))
    rp = os.path.join(vlib.scratch(), "r.ndjson")
    with open(rp, "w") as f:
        f.write(json.dumps(rec["case"]) + "\n")
    fresh = os.path.join(vlib.scratch(), "fresh.ndjson")
    vlib.run_zv1(zv, "symtab", ["-replay", rp], out=fresh)
    v, _ = vlib.validate_trace("SymtabTrace.tla", "SymtabTrace.cfg", fresh, env={"VERIF_DEVS": _devs()})
    bad = [i for i in v if v[i][0] == "bad"]
    for i in bad:
        print("VIOLATION property=%s replay=%s" % (PROP, path))
    return 1 if bad else 0
