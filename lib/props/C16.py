"""C16 -- lazy parameters delay, memoise and stay lexical; strict ones do not.

spec: ZSem (EvArgs wraps arguments at lazy positions as thunks [expression, caller frame]; Force memoises;
      substitute returns the source expression; strict arguments evaluated once, left to right, after the callee)
bind: every mask {lazy,strict}^{1..3} x variadic tail x routes {direct, alias, parameter, computed callee, apply
      (array/list), map, tail recursion, forcing after the caller returned (with shadowing locals), erroring
      argument at a lazy / strict position} x force patterns {none, once, twice, substitute, reverse order};
      value and effect trace (count and order of argument evaluations) validated by TLC against ZSem.
"""
import semflow

PROP = "C16"


def run():
    return semflow.run_sem(PROP, "lazy", None, 0, 0,
                           "all masks of lazy/strict parameters (1..3) x variadic tail x 11 call routes x 5 force patterns "
                           "(enumerated completely: the same set in both tiers), argument expressions with traced side effects",
                           semflow.SEM_ASSUMPTIONS + ["typed func declarations are not among the routes"])


def replay(path):
    return semflow.replay_sem(PROP, "lazy", path)
