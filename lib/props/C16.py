"""C16 -- lazy parameters delay, memoise and stay lexical; strict ones do not.

Two oracles, both TLA+:

(1) spec: ZSem (EvArgs wraps arguments at lazy positions as thunks [expression, caller frame]; Force memoises;
      substitute returns the source expression; strict arguments evaluated once, left to right, after the callee)
    bind (family lazy): every mask {lazy,strict}^{1..3} x variadic tail x routes {direct, alias, parameter, computed
      callee, apply (array/list), map, tail recursion, forcing after the caller returned (with shadowing locals),
      erroring argument at a lazy / strict position, re-loaded definitions, and the name of the running function
      denoting ANOTHER function with the lazy positions complemented where it is called in tail position: a let
      variable, a parameter, an inner defn in a branch never taken, a re-definition reached from a kept closure}
      x force patterns {none, once, twice, substitute, reverse order}; value and effect trace (count and order of
      argument evaluations) validated by TLC against ZSem.

(2) spec: LazyRules (the rules of the property stated over an abstract record of calls: relative to the function
      that actually received the call, an argument bound -- by position or by NAME -- to a strict parameter is
      evaluated exactly once before the body and the parameter holds a value; one bound to a lazy parameter is not
      evaluated at entry, (type? p) is "lazyArg", its evaluation starts only under a force, at most once however
      the evaluation ended (value, error, a force of itself), in the caller's lexical environment; every force
      returns that value; substitute returns the source); MCLazyRules: TLC explores a model of one call (all masks,
      positional / named in every order, succeeding / failing / self-forcing arguments, up to 2 forces in and after
      the call) with the monitor in lock-step: Sound (nothing a correct interpreter does is rejected) and
      Sensitive (each of 7 seeded deviations is rejected).
    bind (family lazy2): instrumented programs -- defn / variadic defn / typed func declarations x masks x call
      routes (direct, alias, computed, inside a caller that returns, parameter, re-declared, self tail call,
      tail call to a let variable / parameter / inner defn / re-definition of the same name) x arguments by
      position or by name (declared and reverse order; also in the self tail call of a typed func) x argument expressions (plain, failing, forcing their own
      promise, infix {..} forms, func declarations) x receivers whose locals are named like builders x force
      patterns (none, once, twice, substitute, from later evaluations once/twice, in the call and again later,
      after a failed force); the host functions record the events, TLC validates every case against LazyRules.
"""
import collections, json, os
import vlib, flow, semflow

PROP = "C16"

RULE = ("all masks of lazy/strict parameters (1..3) x variadic tail x 21 call routes x 5 force patterns against ZSem; "
        "declaration kinds x masks x 12 call routes x positional/named arguments x 6 argument kinds x 7 force patterns "
        "against LazyRules (both enumerated completely: the same sets in both tiers)")


def _kind(cid):
    """the kind of a case: its call route (and argument kind / naming), without mask and force pattern"""
    p = cid.split("-")
    if p[0] == "z2":
        # z2-<route..>-<decl>-n<k>m<mask>v<v>-<argkind>-<pattern>[-<shadow..>][-fwd|rev]
        d = next(i for i, x in enumerate(p) if x in ("defn", "func"))
        named = p[-1] if p[-1] in ("fwd", "rev") else ""
        shadow = "-".join(p[d + 4:len(p) - (1 if named else 0)])
        return ("lazy2", "-".join(p[1:d]), p[d], p[d + 2], shadow, "named" if named else "")
    return ("lazy", "-".join(p[4:-1]))


def _thin(out, per_kind=2):
    """every rejected case was re-executed and confirmed; report per_kind of each kind, note the rest"""
    seen = collections.Counter()
    keep, dropped = [], 0
    for v in sorted(out.violations):
        k = _kind(v[0]) + (v[2].split(",")[0].strip('" '),)
        seen[k] += 1
        if seen[k] <= per_kind:
            keep.append(v)
        else:
            dropped += 1
            try:
                os.unlink(v[1])
            except OSError:
                pass
    out.violations = keep
    if dropped:
        out.notes.append("%d further confirmed rejections of the same kinds are not listed: %s" % (
            dropped, ", ".join("%s x%d" % ("/".join(x for x in k if x), n) for k, n in sorted(seen.items()) if n > per_kind)[:1500]))


def run():
    out = flow.Outcome(PROP)
    zv = vlib.build_zv()
    # design audit of the rules: sound on the model of a correct call, sensitive to every seeded deviation
    # (one worker: the registers the Sensitive postcondition reads are per worker)
    cfg = "MCLazyRulesDeep.cfg" if vlib.tier() == "thorough" else "MCLazyRules.cfg"   # 3 parameters / 3 forces : 2 / 2
    flow.mc_runs(out, [{"module": "MCLazyRules.tla", "cfg": cfg, "workers": 1, "timeout": 2400}])
    # (1) the reference interpreter
    t1 = os.path.join(vlib.scratch(), "lazy.ndjson")
    vlib.run_zv(zv, "lazy", [], t1)
    c1, v1 = flow.validate(out, "lazy", "SemTrace.tla", "SemTrace.cfg", t1, zv, timeout=3000, max_confirm=10 ** 6)
    kinds = collections.Counter((v1[i][0], v1[i][1].strip('"')) for i in c1)
    judged1 = sum(c for (k, _), c in kinds.items() if k in ("ok", "bad"))
    if judged1 < max(10, len(c1) // 2):
        raise vlib.Inconclusive("only %d of %d programs were judged by ZSem" % (judged1, len(c1)))
    # (2) the rules over the call record
    t2 = os.path.join(vlib.scratch(), "lazy2.ndjson")
    vlib.run_zv(zv, "lazy2", [], t2)
    c2, v2 = flow.validate(out, "lazy2", "LazyRulesTrace.tla", "LazyRulesTrace.cfg", t2, zv, timeout=3000, max_confirm=10 ** 6)
    _thin(out)
    kinds2 = collections.Counter((v2[i][0], v2[i][1].split(",")[0].strip('" ')) for i in c2)
    judged2 = sum(c for (k, _), c in kinds2.items() if k in ("ok", "bad"))
    if judged2 < len(c2) * 9 // 10:
        raise vlib.Inconclusive("only %d of %d instrumented programs were judged by LazyRules" % (judged2, len(c2)))
    events = sum(len(c["evs"]) for c in c2.values())
    cov = {
        "states": out.states, "transitions": out.transitions,
        "traces_validated_against_impl": judged1 + judged2,
        "programs": len(c1) + len(c2),
        "zsem_programs": len(c1), "zsem_distinct_texts": len(set(c.get("text", "") for c in c1.values())),
        "zsem_verdicts": {"%s/%s" % k: c for k, c in sorted(kinds.items())},
        "rules_programs": len(c2), "rules_events": events,
        "rules_verdicts": {"%s/%s" % k: c for k, c in sorted(kinds2.items())},
        "rules_by_route": dict(collections.Counter(i.split("-")[1] for i in c2)),
        "programs_not_judged": len(c1) - judged1 + len(c2) - judged2,
        "samples": [{"text": c["text"], "out": c["out"], "fx": c["fx"][:8]} for c in list(c1.values())[:2]] +
                   [{"text": c["text"], "evs": c["evs"][:14]} for c in list(c2.values())[40:42]],
        "rule": RULE,
    }
    return flow.finish(out, "model_checking", cov, semflow.SEM_ASSUMPTIONS + [
        "LazyRules judges the events recorded by host functions of instrumented programs; the static description of a "
        "program (parameters of every function, arguments of every call form) is written by the generator from the text it emits",
        "the order in which strict arguments are evaluated is judged by ZSem only; apply and map are judged by ZSem only",
    ])


def replay(path):
    rec = json.load(open(path))
    if rec.get("family") == "lazy2" or "evs" in rec.get("case", {}):
        zv = vlib.build_zv()
        rp = os.path.join(vlib.scratch(), "r.ndjson")
        with open(rp, "w") as f:
            f.write(json.dumps(rec["case"]) + "\n")
        fresh = os.path.join(vlib.scratch(), "fresh.ndjson")
        vlib.run_zv1(zv, "lazy2", ["-replay", rp], out=fresh)
        v, _ = vlib.validate_trace("LazyRulesTrace.tla", "LazyRulesTrace.cfg", fresh)
        bad = [i for i in v if v[i][0] == "bad"]
        for i in bad:
            print("VIOLATION property=%s replay=%s" % (PROP, path))
        return 1 if bad else 0
    return semflow.replay_sem(PROP, "lazy", path)
