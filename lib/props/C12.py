"""C12 -- printed data reads back as the same data.

spec: Codec (abstract data values; Same = identity of kind, number, runes and structure; the escape
      form the printer emits per character class against the reader's escape table), NumLit (the
      literal grammar -- decimal with underscores, 0x/0o/0b, ULL, fraction, exponent, sign, Inf, NaN --
      with the exact value of every spelling as a digit sequence), Decimal
TLC:  MCNumLit -- every spelling of <= 3 (thorough: 4, and 5 over a 14-symbol core) symbols over the literal alphabet: notations
      disjoint, separators / leading zeros / sign / base / point and exponent laws, range edges;
      MCCodec (thorough) -- print-then-read as designed in the code is the identity exactly where no
      named deviation has a trigger
bind: `zv printread` builds every value through the Go API and records (read (str v)) and
      (eval (read (str v))); per character class member the printed escape and what the reader made
      of it (string and character literal); every literal spelling read as the single element of an
      array text, with the rounding interval of a float result (math/big). PrintReadTrace decides.
"""
import json, os
import vlib, flow
from props.C11 import nontrivial

PROP = "C12"
FAMILY = "printread"
TRACE_SPEC = ("PrintReadTrace.tla", "PrintReadTrace.cfg")


def set_devs():
    ids = [k["id"] for k in vlib.known_findings(PROP)]
    ids += [x for x in os.environ.get("VERIF_DEVS", "").split(",") if x and x not in ids]
    os.environ["VERIF_DEVS"] = ",".join(ids)
    return ids


def run():
    out = flow.Outcome(PROP)
    set_devs()
    zv = vlib.build_zv()
    thorough = vlib.tier() == "thorough"
    runs = [dict(module="MCNumLit.tla", cfg="MCNumLitQuick.cfg", timeout=1200)]
    if thorough:
        runs.append(dict(module="MCNumLit.tla", cfg="MCNumLitWide.cfg", timeout=1200))
        runs.append(dict(module="MCNumLit.tla", cfg="MCNumLit.cfg", timeout=2400))
        runs.append(dict(module="MCCodec.tla", cfg="MCCodecQuick.cfg", timeout=1200))
    flow.mc_runs(out, runs)
    # the thorough run is recorded and validated in parts (one TLC run holds one part in memory)
    nparts = 6 if thorough else 1
    cases, v = {}, {}
    for part in range(nparts):
        trace = os.path.join(vlib.scratch(), "printread%d.ndjson" % part)
        vlib.run_zv(zv, FAMILY, ["-part", str(part), "-nparts", str(nparts)], trace)
        cs, vs = flow.validate(out, FAMILY, TRACE_SPEC[0], TRACE_SPEC[1], trace, zv, timeout=2400)
        cases.update(cs)
        v.update(vs)
        os.unlink(trace)
    pr = [c for c in cases.values() if c["kind"] == "pr"]
    lit = [c for c in cases.values() if c["kind"] == "lit"]
    qlit = [c for c in cases.values() if c["kind"] == "qlit"]
    judged = [c for c in pr if "unjudged" not in v[c["id"]][1]]
    distinct = set(json.dumps(c["v"]) for c in judged if nontrivial(c["v"]))
    litclass = {}
    for c in lit:
        k = v[c["id"]][1].strip('"') if v[c["id"]][0] == "ok" else v[c["id"]][0]
        litclass[k] = litclass.get(k, 0) + 1
    in_grammar = sum(n for k, n in litclass.items() if k != "notnum")
    drift = sorted(set(v[i][1].strip('"') for i in cases if "drift" in v[i][1]))
    cov = {
        "evaluations": len(cases),
        "distinct_nontrivial": len(distinct) + in_grammar + sum(1 for c in qlit if "unjudged" not in v[c["id"]][1]),
        "rule": "distinct abstract original values among the judged print/read cases that are nested, or a string/char outside "
                "plain printable ASCII, or a float, or an integer beyond 9 digits -- plus the literal spellings that NumLit "
                "classifies as a numeric literal (int, uint, float, Inf, NaN, out of range); space = every character class "
                "member as a string and as a character; every scalar member (int/uint/float grid incl. arithmetic results, "
                "+-Inf, NaN, -0.0; strings of <= 3 character classes; characters; symbols) in 16 contexts of depth <= 3; every "
                "list/array tree and every array/hash tree of depth <= 2 with <= 2 children over palettes (quick: sampled two-child "
                "depth-2 trees); hashes with string keys; seeded random values of depth <= 3; every spelling of <= 3 "
                "(thorough: 4) symbols over an 18-symbol literal alphabet, a directed list of range / rounding / separator edges, "
                "seeded spellings drawn from the grammar incl. exact decimal ties between neighbouring floats; literals also directly inside "
                "brackets and behind the reader prefixes % ^ ~ ~@; character and string literals written with every escape form "
                "(all 256 \\xHH, \\uHHHH / \\UHHHHHHHH edges and seeded values, every escape letter, raw members of every class, seeded "
                "token sequences); hashes with symbol keys named by arbitrary JSON member names; data the reader makes from its prefix shorthands",
        "print_read_cases": len(pr),
        "read_half_judged": sum(1 for c in judged if c["rdj"]),
        "save_source_judged": sum(1 for c in judged if c.get("svj")),
        "eval_half_judged": sum(1 for c in judged if c["evj"]),
        "class_member_cases": len(cases) - len(pr) - len(lit) - len(qlit),
        "quoted_literal_spellings": len(qlit),
        "quoted_literal_spellings_judged": sum(1 for c in qlit if "unjudged" not in v[c["id"]][1]),
        "literal_contexts": sorted(set(c.get("pre", "") for c in lit)),
        "literal_spellings": len(lit),
        "literal_spellings_by_class": litclass,
        "states": out.states, "transitions": out.transitions,
        "traces_validated_against_impl": out.traces,
        "samples": [{k: c[k] for k in ("id", "lab", "text", "v", "rd") if k in c} for c in judged[:1] + judged[len(judged) // 2:len(judged) // 2 + 1]]
                   + [{k: c[k] for k in ("id", "text", "got", "n") if k in c} for c in lit[:1]],
        "exhaustive": False,
    }
    if drift:
        cov["conformance_drift"] = drift
    return flow.finish(out, "exploration", cov, [
        "texts handed to the reader are the printed form between a leading space and a trailing newline (a text that does not end "
        "in white space loses its last atom and the lexer's look-back ring survives a reset: C13's statements)",
        "the read-back half is judged for values built from integers, floats, booleans, nil, characters, strings, symbols, lists, "
        "arrays; the evaluated half for numbers, strings, booleans, nil, arrays, hashes with symbol keys (of any name: the JSON decoder "
        "makes a symbol of every member name) and string keys; hashes with integer or character keys are not JSON-like and not "
        "generated; records, dotted pairs and, as VALUES, symbols the lexer's symbol pattern does not admit (e.g. foo-bar, made only "
        "by str2sym) are not generated -- except the symbols the reader itself makes (quote, syntaxQuote, unquote, unquote-splicing)",
        "characters are Unicode scalar values: character values outside them (made by arithmetic) and the literals \\ud800.. / above "
        "\\U0010ffff denote no rune and are not judged, nor are malformed literals the reader happens to accept; \\x80..\\xff in a string "
        "is a byte (judged only as part of valid UTF-8 elsewhere)",
        "-0.0 and 0.0 are one value; NaN must read back as NaN; strings that are not valid UTF-8 are recorded but not judged",
        "a float literal must give the float64 nearest to the exact decimal value NumLit computes (ties to even); the rounding "
        "interval of the float the reader returned is computed with math/big in the harness (trusted); a literal beyond the "
        "float64 range may be an error or an infinity; spellings outside the documented literal patterns are not judged",
        "TLC 1.8.0; verdicts come only from recorded executions, the MCNumLit / MCCodec runs are design audits of the specification",
    ])


def replay(path):
    set_devs()
    zv = vlib.build_zv()
    rec = json.load(open(path))
    rp = os.path.join(vlib.scratch(), "r.ndjson")
    with open(rp, "w") as f:
        f.write(json.dumps(rec["case"]) + "\n")
    fresh = os.path.join(vlib.scratch(), "fresh.ndjson")
    vlib.run_zv1(zv, FAMILY, ["-replay", rp], out=fresh)
    v, _ = vlib.validate_trace(TRACE_SPEC[0], TRACE_SPEC[1], fresh)
    bad = [i for i in v if v[i][0] == "bad"]
    for i in bad:
        print("VIOLATION property=%s replay=%s" % (PROP, path))
    return 1 if bad else 0
