"""C08 -- a sandboxed interpreter cannot reach the outside world.

spec: Sandbox (capability-by-binding: configurations {bare, std, cmd, full=control}, the callable names of each,
      derivation routes direct/alias/eval/sym/apply/macro/builder/fn and, compiled inside a
      duplicate of the interpreter, macrun/macexpand/expect, capability of the known outside-world
      primitives; property SandboxClosed: in a sandboxed configuration no derivation of a callable name has a capability)
TLC:  MCSandbox over the LIVE universe (every name bound in each live configuration + macros + the special forms of
      GenerateCallBySymbol + reserved words + repl commands, dumped by `zv sandbox -dump`): the derivation closure to
      depth 2 (quick) / 3 (thorough) with NoMinting / DeadStaysDead; a capability-minting route must be refuted
      (self-test); SandboxClosed is model-checked as a PREDICTION (candidates, never a verdict); TLC writes the probe
      vectors configuration x name x route x prelude (the script first binds the names the sandbox lacks itself:
      def / defn / defmac) x process history (sandbox first | after an unsandboxed interpreter)
bind: the harness renders every vector under 17 canary argument shapes (every route) and 8 value shapes (direct route:
      a value that contains itself through an array / a hash / a list, handed over once or twice; a text nested
      without bound; a form that leaves no value) and runs every probe on the real interpreter in a subprocess / on
      the real `zygo -sandbox` binary, in a throw-away directory with canaries (file secret, paths that must not
      appear, shell marker, environment secret, inotify), plus seeded grammar-generated programs and program texts
      nested without bound; TLC validates every recorded probe against SandboxTrace: the observed event set of a
      sandboxed configuration is empty AND the host process is still there and answers after the probe (host
      protocol, Sandbox!HostStates: the end of the host by exit, by a Go fatal error or by an unrecovered panic is the
      effect "exit the host process"); the unsandboxed control must show every capability of every known primitive,
      and two host primitives bound there by the harness must show the observation "fatal" (else the probes are
      blind -> exit 2)
"""
import json, os, subprocess, time
import vlib, flow

PROP = "C08"


def _devs():
    if os.environ.get("VERIF_DEVS") is not None:      # development aid
        return os.environ["VERIF_DEVS"]
    return ",".join(k["id"] for k in vlib.known_findings(PROP))


_MAXSTACK_GO = """package main

// added to the build by /verif (go build -overlay), not part of the repository: lets the harness bound the
// goroutine stacks of this process, as it bounds those of its own hosts, so that Go recursion without a bound
// ends in its fatal error within a second (Go's default bound is 1 GB: minutes on a loaded machine).

import (
	"os"
	"runtime/debug"
	"strconv"
)

func init() {
	if n, err := strconv.Atoi(os.Getenv("ZV_MAXSTACK")); err == nil && n > 0 {
		debug.SetMaxStack(n)
	}
}
"""


def _build_zygo():
    """cmd/zygo built from the repository under test (the third configuration is the real binary), with one
    init function added through -overlay that reads the stack bound ZV_MAXSTACK (nothing else differs)."""
    out = os.path.join(vlib.scratch(), "zygo")
    src = os.path.join(vlib.scratch(), "zz_verif_maxstack.go")
    with open(src, "w") as f:
        f.write(_MAXSTACK_GO)
    ov = os.path.join(vlib.scratch(), "overlay.json")
    with open(ov, "w") as f:
        json.dump({"Replace": {os.path.join(os.path.realpath(vlib.REPO), "cmd", "zygo", "zz_verif_maxstack.go"): src}}, f)
    cmd = ["go", "build", "-overlay", ov, "-o", out, "./cmd/zygo"]
    p = subprocess.run(cmd, cwd=vlib.REPO, env=vlib.goenv(), capture_output=True, text=True)
    if p.returncode != 0:
        e = vlib.goenv()
        e["GOTOOLCHAIN"] = "local"
        p2 = subprocess.run(["go1.26"] + cmd[1:], cwd=vlib.REPO, env=e, capture_output=True, text=True)
        if p2.returncode != 0:
            raise vlib.Inconclusive("cmd/zygo does not build:\n" + p.stderr[-2000:] + p2.stderr[-1000:])
    return out


def _universe(zv, zygo):
    path = os.path.join(vlib.scratch(), "universe.json")
    vlib.run_zv1(zv, "sandbox", ["-dump", "-zygo", zygo, "-repo", vlib.REPO], out=path)
    u = json.loads(open(path).read())
    if not u.get("cmdseen"):
        raise vlib.Inconclusive("the bindings of `zygo -sandbox` could not be observed (defined? query failed)")
    return path, u


def run():
    out = flow.Outcome(PROP)
    zv = vlib.build_zv()
    zygo = _build_zygo()
    thorough = vlib.tier() == "thorough"
    upath, u = _universe(zv, zygo)
    vlib.log("harness and cmd/zygo built, universe of %d names dumped (%.0fs)" % (len(u["names"]), time.time() - vlib.T0))
    if u.get("unstable"):
        vlib.log("dump: bindings of a sandboxed configuration differ after an unsandboxed interpreter was set up: %s" % u["unstable"][:8])
    vectors = os.path.join(vlib.scratch(), "vectors.ndjson")
    menv = {"VERIF_UNIVERSE": upath}
    venv = dict(menv, VERIF_VECTORS=vectors, VERIF_SB_ALLROUTES="1" if thorough else "0")
    runs = [dict(module="MCSandbox.tla", cfg="MCSandbox.cfg" if thorough else "MCSandboxQuick.cfg", env=venv)]
    if thorough:
        runs.append(dict(module="MCSandbox.tla", cfg="MCSandboxMint.cfg", env=menv, expect="violation"))
    flow.mc_runs(out, runs)
    vecs = [json.loads(l) for l in open(vectors) if l.strip()]
    if not vecs:
        raise vlib.Inconclusive("TLC wrote no probe vectors")
    # the property itself on the model: a prediction (candidates), never a verdict
    predicted = sorted(set((v["cfg"], v["names"][0]) for v in vecs if v["kind"] == "probe" and v["cand"]))
    refuted = bool(predicted)
    if thorough:
        t = vlib.tlc("MCSandbox.tla", "MCSandboxClosed.cfg", env=menv)
        if t.errors and not t.violated:
            raise vlib.Inconclusive("TLC failed on MCSandboxClosed: %s" % t.errors[:3])
        if bool(t.violated) != refuted:
            raise vlib.Inconclusive("the vectors' predictions and the model-checked SandboxClosed disagree")
    vlib.log("model: SandboxClosed %s on this universe; candidates %s" % ("REFUTED" if refuted else "holds", predicted or "none"))

    trace = os.path.join(vlib.scratch(), "sandbox.ndjson")
    t1 = time.time()
    n = vlib.run_zv(zv, "sandbox", ["-in", vectors, "-zygo", zygo, "-universe", upath, "-repo", vlib.REPO], trace, timeout=2400)
    vlib.log("sandbox: %d vectors from TLC, %d cases recorded in %.0fs" % (len(vecs), n, time.time() - t1))
    env = {"VERIF_DEVS": _devs(), "VERIF_UNIVERSE": upath}
    cases, v = flow.validate(out, "sandbox", "SandboxTrace.tla", "SandboxTrace.cfg", trace, zv,
                             replay_args=["-zygo", zygo, "-repo", vlib.REPO], env=env, timeout=2400)

    # the control: the probes must be able to see every capability, through every route
    blind = sorted(i for i in cases if v[i][0] == "blind")
    if blind:
        # a control that shows nothing may be a host that was too slow on a busy machine: once more, with three
        # times the time per probe, before the run is given up
        rp = os.path.join(vlib.scratch(), "replay-blind.ndjson")
        with open(rp, "w") as f:
            for i in blind:
                f.write(json.dumps(cases[i]) + "\n")
        fresh = os.path.join(vlib.scratch(), "fresh-blind.ndjson")
        vlib.run_zv1(zv, "sandbox", ["-replay", rp, "-seed", str(vlib.seed()), "-tier", vlib.tier(), "-zygo", zygo, "-repo", vlib.REPO],
                     out=fresh, env={"ZV_PROBE_S": "60"}, timeout=1500)
        v2, _ = vlib.validate_trace("SandboxTrace.tla", "SandboxTrace.cfg", fresh, env=env, timeout=2400)
        c2 = vlib.load_cases(fresh)
        for i in blind:
            if i in v2 and i in c2 and v2[i][0] != "blind":
                cases[i], v[i] = c2[i], v2[i]
        out.notes.append("%d control cases showed nothing at first and were run again with a longer time per probe" % len(blind))
        blind = sorted(i for i in cases if v[i][0] == "blind")
        if any(v[i][0] == "bad" for i in c2 if i in v):
            raise vlib.Inconclusive("a control case is rejected on re-execution: %s" % [i for i in c2 if v[i][0] == "bad"][:3])
    if blind:
        raise vlib.Inconclusive("the canaries do not show the capability of a known primitive in the unsandboxed control: %s" % blind[:5])
    if not all(c["inotify"] for c in cases.values()):
        out.notes.append("inotify unavailable: 'open' is inferred from leaks only")
    fired = {}
    control = [c for c in cases.values() if c["kind"] == "control"]
    for c in control:
        if any(e["events"] for e in c["evs"]):
            fired.setdefault(c["route"], set()).add(c["names"][0])
    dead_routes = [r for r in u["routes"] if r not in fired]
    if dead_routes or not control:
        raise vlib.Inconclusive("no probe of the control fires through the route(s) %s: their rendering is broken" % dead_routes)

    live = {x["id"]: x["live"] for x in vecs}
    probes = 0
    nontrivial = set()
    shapes = set()
    outs = {}
    observed = set()
    for c in cases.values():
        for e in c["evs"]:
            probes += 1
            outs[e["out"]] = outs.get(e["out"], 0) + 1
            if c["cfg"] == "full":
                continue
            if e["events"]:
                observed.add((c["cfg"], c["names"][0] if c["names"] else "?"))
            if c["kind"] == "prog":
                if e["out"] in ("val", "nilres"):
                    nontrivial.add((c["cfg"], e.get("text", c["id"])))
            elif live.get(c["id"]):
                shapes.add(e["shape"])
                nontrivial.add((c["cfg"], c["names"][0], c["route"], e["shape"], c.get("pre", ""), c.get("hist", "")))
    unpredicted = sorted(observed - set(predicted))
    unobserved = sorted(set(predicted) - observed)
    nsand = {cfg: sum(1 for n in u["names"] if n["kind"][i] != "unbound" or n["mac"][i] or n["special"])
             for i, cfg in enumerate(u["cfgs"])}
    hosts = {}
    for c in cases.values():
        for e in c["evs"]:
            k = ("control " if c["cfg"] == "full" else "") + e["host"]
            hosts[k] = hosts.get(k, 0) + 1
    canary_shapes = [x for x in u["shapes"] if x in ("none", "int", "int0") or x.split("-")[0] in ("path", "path2", "val", "hash", "cmd", "env")]
    value_shapes = [x for x in u["shapes"] if x not in canary_shapes]
    samples = []

    def pick(pred):
        for c in cases.values():
            if pred(c):
                samples.append({"id": c["id"], "cfg": c["cfg"], "names": c["names"], "route": c["route"],
                                "evs": [{k: e[k] for k in ("shape", "out", "events", "text") if k in e} for e in c["evs"][:8]]})
                return
    pick(lambda c: c["kind"] == "probe" and c["cfg"] == "std" and live.get(c["id"]) and c["route"] == "macro"
         and sum(1 for e in c["evs"] if e["out"] == "val") >= 3)
    pick(lambda c: c["kind"] == "prog" and c["cfg"] == "cmd" and c["evs"] and c["evs"][0]["out"] == "val")
    pick(lambda c: c["kind"] == "control" and c["route"] == "direct" and any(e["events"] for e in c["evs"]))
    pick(lambda c: c["kind"] == "probe" and c["cfg"] != "full" and c["route"] == "direct"
         and sum(1 for e in c["evs"] if e["shape"] in value_shapes and e["out"] in ("val", "nilres")) >= 2)
    pick(lambda c: c["kind"] == "probe")
    out.samples = samples
    out.extra["model_prediction"] = {
        "SandboxClosed_refuted_on_this_universe": refuted,
        "candidates_predicted": ["%s:%s" % p for p in predicted],
        "observed_with_events": ["%s:%s" % p for p in sorted(observed)],
        "observed_but_not_predicted": ["%s:%s" % p for p in unpredicted],
        "predicted_but_not_observed": ["%s:%s" % p for p in unobserved],
        "bindings_depending_on_process_history": u.get("unstable", []),
    }
    variants = {}
    for c in cases.values():
        k = "pre=%s hist=%s" % (c.get("pre") or "none", c.get("hist") or "first")
        variants[k] = variants.get(k, 0) + 1
    cov = {
        "evaluations": probes,
        "distinct_nontrivial": len(nontrivial),
        "rule": "distinct probes (configuration, name, route, argument shape) of a sandboxed configuration whose call the model "
                "says can happen (the name is callable there: bound, a macro or a special form; the route's enabling names are "
                "callable), plus distinct generated programs that evaluated to a value; inputs: every name of the live universe "
                "(bound in any configuration incl. the unsandboxed one, macros, special forms of GenerateCallBySymbol, reserved "
                "words, repl commands) x every route (names a configuration cannot call: routes direct and sym only in the quick "
                "tier) x %d canary argument shapes, and through the direct route %d value shapes (a value that contains itself, "
                "a text nested 2^18 levels, a form that leaves no value), x {bare, std, cmd}; the canary shapes again after the script has bound the names the sandbox lacks itself "
                "(quick: defn of every such name through the routes direct = earlier evaluations and eval = same text, defmac through "
                "direct; thorough: def, defn, defmac through every route) and in a process where an unsandboxed interpreter was set up and used first and between "
                "sessions (quick: every name, routes direct and sym; thorough: every route, also combined with the prelude); the unsandboxed control for the known primitives; seeded "
                "grammar-generated programs (9 callee forms x every argument shape x up to 3 of 16 wrappers) and 7 program texts "
                "nested 2^18 levels per configuration" % (len(canary_shapes), len(value_shapes)),
        "cases": len(cases),
        "cases_per_variant": variants,
        "universe_names": len(u["names"]),
        "callable_names": nsand,
        "special_forms": len(u["special"]),
        "routes": u["routes"],
        "shapes": u["shapes"],
        "value_shapes": value_shapes,
        "host_after_probe": hosts,
        "control_routes_fired": {r: len(s) for r, s in fired.items()},
        "probe_outcomes": outs,
        "states": out.states, "transitions": out.transitions,
        "traces_validated_against_impl": out.traces,
    }
    return flow.finish(out, "exploration", cov, [
        "only the canaries and the host process are watched: effects without a canary (network, clock, stdout) are outside the statement",
        "'exit the host process' is read by its effect: the host is gone. The end of the host by a Go fatal error (recover() cannot stop it) "
        "or by a panic nothing recovers is an observation of it, like an exit with a status; the in-process hosts recover every panic of the "
        "evaluating goroutine (a panic that a careful embedder stops is C01's statement, not an exit); cmd/zygo is taken as it is",
        "time and memory are not bounded by the statement: a probe that does not answer within 8 s is stopped by the harness (host 'stopped'), "
        "a host the machine refuses memory (fatal error: out of memory, kill from outside) is 'starved'; neither is an observation of the "
        "effect, and single requests for more memory than a machine has ((makeArray 100000000000)) are not generated: whether they end the "
        "process is decided by the machine (overcommit, RAM), not by the library, and any allocating loop does the same",
        "every host bounds its goroutine stacks to 16 MB (debug.SetMaxStack; cmd/zygo through ZV_MAXSTACK, read by one init function added "
        "to its build with -overlay, nothing else differs from the repository's command): unbounded Go recursion ends in the same fatal "
        "error as at Go's default bound of 1 GB, in a second instead of minutes; values nested deeper than a 16 MB stack allows without "
        "containing themselves (built by a loop of > 10^5 steps) are not generated (step budget 200000)",
        "learning whether a path exists (import/bload/slurpf answer differently) is not counted as reading the file",
        "the macros of `zygo -sandbox` cannot be listed from outside and are taken from the in-process std configuration; its global "
        "bindings are observed through (defined? ...) on the real binary; an environment change inside the zygo process is not "
        "observable from outside (the in-process std configuration observes it)",
        "PrimCap (capability of the known primitives) is used for the prediction and the control only; verdicts never depend on it",
        "TLC 1.8.0",
    ])


def replay(path):
    out = flow.Outcome(PROP)
    zv = vlib.build_zv()
    zygo = _build_zygo()
    upath, _ = _universe(zv, zygo)
    rec = json.load(open(path))
    rp = os.path.join(vlib.scratch(), "r.ndjson")
    with open(rp, "w") as f:
        f.write(json.dumps(rec["case"]) + "\n")
    fresh = os.path.join(vlib.scratch(), "fresh.ndjson")
    vlib.run_zv1(zv, "sandbox", ["-replay", rp, "-zygo", zygo, "-repo", vlib.REPO], out=fresh)
    v, _ = vlib.validate_trace("SandboxTrace.tla", "SandboxTrace.cfg", fresh, env={"VERIF_DEVS": _devs(), "VERIF_UNIVERSE": upath})
    bad = [i for i in v if v[i][0] == "bad"]
    for i in bad:
        print("VIOLATION property=%s replay=%s" % (PROP, path))
    return 1 if bad else 0
