"""C09 -- tail calls are free and invisible.

spec: ZSem (no tail-call optimisation: the transparency oracle), TailTrace (space law);
      TailTwin (the property as a relation between one function with and without the optimisation: Invisible, Space),
      MCTailTwin (abstract machine pair explored by TLC against those laws), TailTwinTrace
bind: every nesting (depth <= 2, thorough 3) of the tail contexts {cond arm, cond default, begin, let, letseq,
      newScope, and, or} x body features {plain, local definition, inner scope, non-tail self call, closure
      creation}:
      (a) n = 0..3 with traced effects, incl. what closures created in earlier iterations return afterwards,
          validated by TLC against ZSem;
      (b) n = 10 .. 10^4 (some 10^5): value and high-water marks of the data/scope/address stacks sampled at
          every VM step (verif hook), validated by TLC against TailTrace (marks independent of n).
      (c) family tailtwin, for what ZSem does not have: definition kinds {defn, typed func, (def f (fn ..)), (set f (fn ..)),
          lazy formal, variadic} x other meanings of the name f (earlier / inner definitions with other formals) x forms
          of the self call (named, ill-typed, empty, too few/many arguments, closures, a re-binding argument ...) x the
          special form the call sits in (the property's tail contexts AND return, def/set targets, include, arrays,
          macros, loops, quasi-quotes ...) x enclosing tail contexts x body features x re-bindings of the name before
          the call.  Every program runs in its optimised form and in the reference forms (self call through an alias /
          through a computed callee: the ordinary call path); value or error, effect trace, rest state of the four
          stacks and the user's globals are judged by TLC against TailTwin!Invisible; the optimised form at
          n = 10, 100, 400 (high-water marks, interned symbols) against TailTwin!Space.
"""
import collections, json, os
import vlib, flow, semflow

PROP = "C09"


def run():
    out = flow.Outcome(PROP)
    zv = vlib.build_zv()
    t1 = os.path.join(vlib.scratch(), "tailsem.ndjson")
    vlib.run_zv(zv, "tail", ["-mode", "sem"], t1)
    c1, v1 = flow.validate(out, "tail", "SemTrace.tla", "SemTrace.cfg", t1, zv, replay_args=["-mode", "sem"])
    skipped = [i for i in c1 if v1[i][0] == "skip"]
    if len(skipped) > len(c1) // 10:
        raise vlib.Inconclusive("%d of %d transparency cases not judged" % (len(skipped), len(c1)))
    t2 = os.path.join(vlib.scratch(), "tailspace.ndjson")
    vlib.run_zv(zv, "tail", ["-mode", "space"], t2, timeout=6000)
    c2, v2 = flow.validate(out, "tail", "TailTrace.tla", "TailTrace.cfg", t2, zv, replay_args=["-mode", "space"])
    maxn = max(r["n"] for c in c2.values() for r in c["runs"])
    tw = _twin(out, zv)
    cov = {
        "states": out.states, "transitions": out.transitions,
        "traces_validated_against_impl": len(c1) - len(skipped) + len(c2) + tw["invisible_judged"] + tw["space_cases"],
        "transparency_cases": len(c1), "transparency_not_judged": len(skipped),
        "space_shapes": len(c2), "space_runs": sum(len(c["runs"]) for c in c2.values()), "max_depth_n": maxn,
        "samples": [{"text": c["text"], "runs": c["runs"]} for c in list(c2.values())[:2]] +
                   [{"text": c["text"], "out": c["out"], "fx": c["fx"][:6]} for c in list(c1.values())[:1]],
        "exhaustive": True,
        "twin": tw,
        "rule": "all nestings of the 8 tail contexts to depth 2 (thorough: 3) x 5 body features; per shape n=0..3 against the "
                "reference semantics and n=10..1000 (some 10^4; thorough: 10^4, some 10^5) for the high-water marks",
    }
    return flow.finish(out, "model_checking", cov, semflow.SEM_ASSUMPTIONS + [
        "space is judged on VM stack entries (data, scope, address stacks) sampled by the verif step hook, not on bytes",
        "tailtwin: 'the same function evaluated without the optimisation' is the same program text whose self call names its "
        "callee through an alias (def g f) or a computed callee ((begin f) ...), which the compiler does not recognise as a "
        "self call; a program on which the two reference forms disagree with each other is not judged",
        "tailtwin: errors are compared as 'some error'; hooks of the embedding program that report calls themselves "
        "(AddPreHook/AddPostHook, stack traces) are instruments, not effects of the program",
    ])


def _devs():
    if os.environ.get("VERIF_DEVS") is not None:      # development aid
        return os.environ["VERIF_DEVS"]
    return ",".join(k["id"] for k in vlib.known_findings(PROP)) or "none"


def _kind(c, verdict):
    """the kind of a rejected twin case: which dimension of the family it exercises and how it was rejected"""
    sp = c["spec"]
    what = {"pos": sp["pos"], "call": sp["cf"], "shadow": sp["shadow"] + "/" + sp["cf"], "feat": sp["feat"],
            "rebind": sp["key"].split("|")[7]}.get(sp["group"], "")
    return "%s %s: %s %s %s" % (c["kind"], verdict[1].split(",")[0].strip(' "'), sp["group"], sp["dk"], what)


def _validate_twin(out, trace, zv, env, per_kind=1, max_confirm=80):
    """flow.validate for the twin family, except that the rejections to confirm by re-execution are chosen one per
    kind of program (the family has hundreds of programs per defect), so that every kind is reported."""
    cases = vlib.load_cases(trace)
    if not cases:
        raise vlib.Inconclusive("harness produced no cases for tailtwin")
    v, t = vlib.validate_trace("TailTwinTrace.tla", "TailTwinTrace.cfg", trace, env=env, timeout=3000)
    out.states += t.distinct
    out.transitions += t.generated
    missing = [i for i in cases if i not in v]
    if missing:
        raise vlib.Inconclusive("%d cases of tailtwin got no verdict from TLC (e.g. %s)\n%s" % (len(missing), missing[:3], t.stdout[-2000:]))
    out.traces += len(cases)
    for i in cases:
        if v[i][0].startswith("known:"):
            out.known.setdefault(v[i][0][6:], []).append(i)
    bad = [i for i in cases if v[i][0] == "bad"]
    vlib.log("tailtwin: %d cases validated by TailTwinTrace.tla in %.1fs: %d rejected, %d explained by known deviations"
             % (len(cases), t.wall, len(bad), sum(1 for i in cases if v[i][0].startswith("known:"))))
    if not bad:
        return cases, v
    kinds = collections.OrderedDict()
    for i in bad:
        kinds.setdefault(_kind(cases[i], v[i]), []).append(i)
    for k, ids in kinds.items():
        vlib.log("  tailtwin rejected: %3d x %s" % (len(ids), k))
    todo = [i for ids in kinds.values() for i in ids[:per_kind]][:max_confirm]
    rp = os.path.join(vlib.scratch(), "replay-tailtwin.ndjson")
    paths = {}
    with open(rp, "w") as f:
        for i in todo:
            paths[i] = vlib.save_replay(PROP, cases[i], {"family": "tailtwin", "verdict": list(v[i])})
            f.write(json.dumps(cases[i]) + "\n")
    fresh = os.path.join(vlib.scratch(), "fresh-tailtwin.ndjson")
    vlib.run_zv1(zv, "tailtwin", ["-replay", rp, "-seed", str(vlib.seed()), "-tier", vlib.tier()], out=fresh, timeout=3000)
    v2, _ = vlib.validate_trace("TailTwinTrace.tla", "TailTwinTrace.cfg", fresh, env=env, timeout=3000)
    confirmed = []
    for i in todo:
        if v2.get(i, ("missing",))[0] == "bad":
            confirmed.append((i, paths[i], "%s [%s]" % (v[i][1], _kind(cases[i], v[i]))))
        else:
            out.notes.append("case %s rejected once but not on re-execution (%s)" % (i, v2.get(i)))
            try:
                os.unlink(paths[i])
            except OSError:
                pass
    if not confirmed:
        raise vlib.Inconclusive("rejections were not reproducible on re-execution: " + ", ".join(todo[:5]))
    if len(bad) > len(todo):
        out.notes.append("%d further rejected twin cases of the same kinds not individually confirmed" % (len(bad) - len(todo)))
    out.violations += confirmed
    return cases, v


def _twin(out, zv):
    """the second oracle: optimised form vs alias / computed-callee form (TailTwin)"""
    thorough = vlib.tier() == "thorough"
    runs = [{"module": "MCTailTwin.tla", "cfg": "MCTailTwin.cfg"},
            {"module": "MCTailTwin.tla", "cfg": "MCTailTwinReuse.cfg", "expect": "violation"}]
    if thorough:
        runs += [{"module": "MCTailTwin.tla", "cfg": "MCTailTwinLeakKnown.cfg"},
                 {"module": "MCTailTwin.tla", "cfg": "MCTailTwinKeep.cfg", "expect": "violation"},
                 {"module": "MCTailTwin.tla", "cfg": "MCTailTwinLeak.cfg", "expect": "violation"}]
    flow.mc_runs(out, runs)
    env = {"VERIF_DEVS": _devs()}
    t3 = os.path.join(vlib.scratch(), "twininv.ndjson")
    vlib.run_zv(zv, "tailtwin", ["-mode", "inv"], t3)
    t4 = os.path.join(vlib.scratch(), "twinspace.ndjson")
    vlib.run_zv(zv, "tailtwin", ["-mode", "space"], t4, timeout=6000)
    # one TLC run judges both kinds of case (the trace specification tells them apart)
    t34 = os.path.join(vlib.scratch(), "twin.ndjson")
    with open(t34, "w") as f:
        f.write(open(t3).read())
        f.write(open(t4).read())
    call, vall = _validate_twin(out, t34, zv, env)
    c3 = {i: c for i, c in call.items() if c["kind"] == "inv"}
    c4 = {i: c for i, c in call.items() if c["kind"] == "space"}
    v3 = v4 = vall
    skipped = [i for i in c3 if v3[i][0] == "skip"]
    if len(skipped) > len(c3) // 20:
        raise vlib.Inconclusive("%d of %d twin programs not judged (the reference forms disagree)" % (len(skipped), len(c3)))
    dims = lambda cs, k: len(set(c["spec"][k] for c in cs.values()))
    some = list(c3.values())[:1]
    return {
        "invisible_programs": len(c3), "invisible_judged": len(c3) - len(skipped), "invisible_not_judged": len(skipped),
        "runs_per_program": "optimised + alias + computed-callee form, depths %s" % (some[0]["ns"] if some else []),
        "definition_kinds": dims(c3, "dk"), "shadows": dims(c3, "shadow"), "call_forms": dims(c3, "cf"),
        "positions": dims(c3, "pos"), "contexts": dims(c3, "ctxs"), "features": dims(c3, "feat"),
        "rebind_programs": sum(1 for c in c3.values() if c["spec"]["rebind"] >= 0),
        "space_cases": len(c4), "space_max_depth_n": max(r["n"] for c in c4.values() for r in c["runs"]),
        "samples": [{"text": c["opt"]["text"], "calls": c["calls"], "opt": c["opt"]["obs"][-1]["out"],
                     "alias": c["alias"]["obs"][-1]["out"] if "alias" in c else "-"} for c in some] +
                   [{"text": c["text"], "runs": c["runs"]} for c in list(c4.values())[:1]],
    }


def replay(path):
    rec = json.load(open(path))
    if "kind" in rec["case"] and rec["case"]["kind"] in ("inv", "space"):
        zv = vlib.build_zv()
        rp = os.path.join(vlib.scratch(), "r.ndjson")
        open(rp, "w").write(json.dumps(rec["case"]) + "\n")
        fresh = os.path.join(vlib.scratch(), "fresh.ndjson")
        vlib.run_zv1(zv, "tailtwin", ["-replay", rp], out=fresh, timeout=3000)
        v, _ = vlib.validate_trace("TailTwinTrace.tla", "TailTwinTrace.cfg", fresh, env={"VERIF_DEVS": _devs()})
        bad = [i for i in v if v[i][0] == "bad"]
        for i in bad:
            print("VIOLATION property=%s replay=%s" % (PROP, path))
        return 1 if bad else 0
    if "runs" in rec["case"]:
        zv = vlib.build_zv()
        rp = os.path.join(vlib.scratch(), "r.ndjson")
        open(rp, "w").write(json.dumps(rec["case"]) + "\n")
        fresh = os.path.join(vlib.scratch(), "fresh.ndjson")
        vlib.run_zv1(zv, "tail", ["-replay", rp, "-mode", "space"], out=fresh, timeout=3000)
        v, _ = vlib.validate_trace("TailTrace.tla", "TailTrace.cfg", fresh)
        bad = [i for i in v if v[i][0] == "bad"]
        for i in bad:
            print("VIOLATION property=%s replay=%s" % (PROP, path))
        return 1 if bad else 0
    return semflow.replay_sem(PROP, "tail", path)
