"""C09 -- tail calls are free and invisible.

spec: ZSem (no tail-call optimisation: the transparency oracle), TailTrace (space law)
bind: every nesting (depth <= 2, thorough 3) of the tail contexts {cond arm, cond default, begin, let, letseq,
      newScope, and, or} x body features {plain, local definition, inner scope, non-tail self call, closure
      creation}:
      (a) n = 0..3 with traced effects, incl. what closures created in earlier iterations return afterwards,
          validated by TLC against ZSem;
      (b) n = 10 .. 10^4 (some 10^5): value and high-water marks of the data/scope/address stacks sampled at
          every VM step (verif hook), validated by TLC against TailTrace (marks independent of n).
"""
import json, os
import vlib, flow, semflow

PROP = "C09"


def run():
    out = flow.Outcome(PROP)
    zv = vlib.build_zv()
    t1 = os.path.join(vlib.scratch(), "tailsem.ndjson")
    vlib.run_zv(zv, "tail", ["-mode", "sem"], t1)
    c1, v1 = flow.validate(out, "tail", "SemTrace.tla", "SemTrace.cfg", t1, zv, replay_args=["-mode", "sem"])
    skipped = [i for i in c1 if v1[i][0] == "skip"]
    if len(skipped) > len(c1) // 10:
        raise vlib.Inconclusive("%d of %d transparency cases not judged" % (len(skipped), len(c1)))
    t2 = os.path.join(vlib.scratch(), "tailspace.ndjson")
    vlib.run_zv(zv, "tail", ["-mode", "space"], t2, timeout=3000)
    c2, v2 = flow.validate(out, "tail", "TailTrace.tla", "TailTrace.cfg", t2, zv, replay_args=["-mode", "space"])
    maxn = max(r["n"] for c in c2.values() for r in c["runs"])
    cov = {
        "states": out.states, "transitions": out.transitions,
        "traces_validated_against_impl": len(c1) - len(skipped) + len(c2),
        "transparency_cases": len(c1), "transparency_not_judged": len(skipped),
        "space_shapes": len(c2), "space_runs": sum(len(c["runs"]) for c in c2.values()), "max_depth_n": maxn,
        "samples": [{"text": c["text"], "runs": c["runs"]} for c in list(c2.values())[:2]] +
                   [{"text": c["text"], "out": c["out"], "fx": c["fx"][:6]} for c in list(c1.values())[:1]],
        "exhaustive": True,
        "rule": "all nestings of the 8 tail contexts to depth 2 (thorough: 3) x 5 body features; per shape n=0..3 against the "
                "reference semantics and n=10..1000 (some 10^4; thorough: 10^4, some 10^5) for the high-water marks",
    }
    return flow.finish(out, "model_checking", cov, semflow.SEM_ASSUMPTIONS + [
        "space is judged on VM stack entries (data, scope, address stacks) sampled by the verif step hook, not on bytes",
    ])


def replay(path):
    rec = json.load(open(path))
    if "runs" in rec["case"]:
        zv = vlib.build_zv()
        rp = os.path.join(vlib.scratch(), "r.ndjson")
        open(rp, "w").write(json.dumps(rec["case"]) + "\n")
        fresh = os.path.join(vlib.scratch(), "fresh.ndjson")
        vlib.run_zv1(zv, "tail", ["-replay", rp, "-mode", "space"], out=fresh, timeout=3000)
        v, _ = vlib.validate_trace("TailTrace.tla", "TailTrace.cfg", fresh)
        bad = [i for i in v if v[i][0] == "bad"]
        for i in bad:
            print("VIOLATION property=%s replay=%s" % (PROP, path))
        return 1 if bad else 0
    return semflow.replay_sem(PROP, "tail", path)
